#!/bin/bash
# usage: runq.sh "C33-a C33" "C25-a C25" ...   (3 in parallel)
cd /verif
printf '%s\n' "$@" | xargs -P 3 -I{} bash -c 'set -- {}; timeout 10000 tools/seed_validate.py /tmp/seed/$1 $2 $3 $4 > /tmp/seedval_$1.log 2>&1; echo "$1 done" >> /tmp/seedval_done.log'
