#!/venv/bin/python
"""List the violation signatures of the last run of a check (from replay/) as known-finding stubs."""
import json, glob, sys, os
pid = sys.argv[1]
out = []
for f in sorted(glob.glob("/verif/replay/%s/*.json" % pid)):
    d = json.load(open(f))
    out.append({"property": pid, "signature": d["signature"], "what": d["what"], "witness": os.path.basename(f)})
print(json.dumps({"known": out}, indent=1))
