#!/venv/bin/python
"""Refresh the table of seeded changes in DESIGN.md (section 12.4) from seeded/*/meta.json."""
import os, subprocess
ROOT = os.path.dirname(os.path.dirname(os.path.abspath(__file__)))
tab = subprocess.check_output([os.path.join(ROOT, "tools", "seeded_summary.py")], text=True)
p = os.path.join(ROOT, "DESIGN.md")
s = open(p).read()
a, b = "<!-- SEEDED-TABLE-BEGIN -->", "<!-- SEEDED-TABLE-END -->"
i, j = s.index(a) + len(a), s.index(b)
open(p, "w").write(s[:i] + "\n" + tab + s[j:])
print("updated")
