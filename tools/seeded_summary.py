#!/venv/bin/python
"""Markdown table of the seeded changes under /verif/seeded (for DESIGN.md section 12.4)."""
import json, os, glob
ROOT = os.path.dirname(os.path.dirname(os.path.abspath(__file__)))
rows = []
for f in sorted(glob.glob(os.path.join(ROOT, "seeded", "*", "meta.json"))):
    d = json.load(open(f))
    am = d.get("agent_meta") if isinstance(d.get("agent_meta"), dict) else {}
    summ = (am.get("summary") or "")[:160].replace("|", "/").replace("\n", " ")
    needs = (am.get("needs_to_manifest") or "")[:140].replace("|", "/").replace("\n", " ")
    sigs = []
    for p, r in d.get("checks", {}).items():
        for l in r.get("lines", []):
            if "signature:" in l:
                sigs.append(p + ": " + l.split("signature:")[1].split("(")[0].strip())
    caught = ", ".join(d.get("caught_by", [])) or "**missed**"
    note = d.get("note", "")
    rows.append("| %s | %s | %s | %s | %s | %s |" % (d["name"], d["property"], summ, needs, caught + (" — " + note if note else ""), "; ".join(sigs[:3]).replace("|", "/")))
print("| seeded change | property | change | needs to manifest | caught by | violated clauses (signatures) |")
print("|---|---|---|---|---|---|")
print("\n".join(rows))
