#!/venv/bin/python
"""Markdown table of the seeded changes under /verif/seeded (for DESIGN.md section 12.4)."""
import json, os, glob
ROOT = os.path.dirname(os.path.dirname(os.path.abspath(__file__)))
rows = []
for f in sorted(glob.glob(os.path.join(ROOT, "seeded", "*", "meta.json"))):
    d = json.load(open(f))
    am = d.get("agent_meta") if isinstance(d.get("agent_meta"), dict) else {}
    summ = (am.get("summary") or "")[:170].replace("|", "/").replace("\n", " ")
    sigs = []
    for p, r in d.get("checks", {}).items():
        for l in r.get("lines", []):
            if "signature:" in l:
                sigs.append(p + ": " + l.split("signature:")[1].split("(")[0].strip())
    caught = ", ".join("%s%s" % (c, (" (seed %d)" % d["checks"][c]["seed"]) if d["checks"].get(c, {}).get("seed") else "") for c in d.get("caught_by", [])) or "**missed**"
    hist = d.get("history") or []
    first = hist[0].get("caught_by") if hist else d.get("caught_by", [])
    first_s = (", ".join(first) if first else "**missed**")
    tests = "yes" if d.get("repo_tests_pass") else ("?" if "repo_tests_pass" not in d else "no")
    rows.append("| %s | %s | %s | %s | %s | %s | %s |" % (d["name"], d["property"], summ, tests, first_s, caught if hist else "-", "; ".join(sigs[:2]).replace("|", "/")))
print("| seeded change | property | the change (engineer's summary, truncated) | repo tests pass with it | first version of the check(s) | after strengthening | violated clauses (signatures) |")
print("|---|---|---|---|---|---|---|")
print("\n".join(rows))
