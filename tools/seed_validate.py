#!/venv/bin/python
"""Validate a seeded change produced by an independent sub-agent and file it under /verif/seeded/<name>/.

usage: tools/seed_validate.py <worktree> <property id> [--no-tests] [--tier quick|thorough]

Steps (all on the scratch worktree, never on /repo):
  1. the patch applies to a clean tree; demo.py exits 0 without it and 1 with it
  2. the repository's own test suite still passes with the patch (unless --no-tests)
  3. ./check <property> with VERIF_REPO=<worktree>: exit 1 + VIOLATION line = caught
The result (caught / missed, what was run) is written to /verif/seeded/<name>/meta.json.
"""
import json
import os
import shutil
import subprocess
import sys
import time

ROOT = os.path.dirname(os.path.dirname(os.path.abspath(__file__)))


def sh(cmd, cwd=None, env=None, timeout=7200):
    e = dict(os.environ)
    if env:
        e.update(env)
    p = subprocess.run(cmd, shell=True, cwd=cwd, env=e, stdout=subprocess.PIPE, stderr=subprocess.STDOUT, text=True, timeout=timeout)
    return p.returncode, p.stdout


def main():
    src = sys.argv[1].rstrip("/")
    pid = sys.argv[2]
    # validate on a FRESH worktree of /repo's current HEAD (the seeding worktree may predate later fix commits)
    name0 = os.path.basename(src)
    wt = "/tmp/seedv/" + name0
    sh("git -C /repo worktree remove --force %s" % wt)
    shutil.rmtree(wt, ignore_errors=True)
    os.makedirs("/tmp/seedv", exist_ok=True)
    rcw, ow = sh("git -C /repo worktree add -q --detach %s HEAD" % wt)
    if rcw != 0:
        print("cannot create worktree: " + ow)
        return 2
    if os.path.isdir(os.path.join(src, "SEED")):
        shutil.copytree(os.path.join(src, "SEED"), os.path.join(wt, "SEED"))
    else:
        # the seeding worktree is gone: re-validate from what was filed under /verif/seeded/<name>
        filed = os.path.join(ROOT, "seeded", name0)
        os.makedirs(os.path.join(wt, "SEED"))
        for fn in ("patch.diff", "demo.py"):
            shutil.copy(os.path.join(filed, fn), os.path.join(wt, "SEED", fn))
        prev = json.load(open(os.path.join(filed, "meta.json")))
        if isinstance(prev.get("agent_meta"), dict):
            json.dump(prev["agent_meta"], open(os.path.join(wt, "SEED", "meta.json"), "w"))
    no_tests = "--no-tests" in sys.argv
    tier = "thorough" if "--tier" in sys.argv and sys.argv[sys.argv.index("--tier") + 1] == "thorough" else "quick"
    extra = [a for a in sys.argv[3:] if a.startswith("C")]  # further properties to run the change against
    name = name0
    seed = os.path.join(wt, "SEED")
    patch = os.path.join(seed, "patch.diff")
    out = {"name": name, "property": pid, "repo_head": sh("git -C /repo rev-parse --short HEAD")[1].strip(), "validated_at": time.strftime("%Y-%m-%d %H:%M:%S")}
    meta_path = os.path.join(seed, "meta.json")
    if os.path.exists(meta_path):
        try:
            out["agent_meta"] = json.load(open(meta_path))
        except Exception as ex:
            out["agent_meta"] = "unreadable: %s" % ex
    # 1. clean tree: demo must pass; patched tree: demo must fail
    sh("git checkout -- unified_planning", cwd=wt)
    rc0, o0 = sh("PYTHONPATH=%s timeout 600 /venv/bin/python SEED/demo.py" % wt, cwd=wt)
    rca, oa = sh("git apply SEED/patch.diff", cwd=wt)
    if rca != 0:
        out["error"] = "patch does not apply on /repo HEAD: " + oa[-400:]
        print(json.dumps(out, indent=1))
        sh("git -C /repo worktree remove --force %s" % wt)
        return 2
    rc1, o1 = sh("PYTHONPATH=%s timeout 600 /venv/bin/python SEED/demo.py" % wt, cwd=wt)
    out["demo_without_change"] = rc0
    out["demo_with_change"] = rc1
    out["demo_output_with_change"] = o1[-600:]
    if not (rc0 == 0 and rc1 == 1):
        out["error"] = "demo does not discriminate (without=%s, with=%s)" % (rc0, rc1)
    # 2. repository tests with the change
    if not no_tests:
        rct, ot = sh("PYTHONPATH=%s timeout 6000 /venv/bin/python -m pytest -q -p no:cacheprovider --timeout=3000 -q 2>&1 | tail -8" % wt, cwd=wt, timeout=7000)
        out["repo_tests_with_change"] = ot.strip()[-300:]
        out["repo_tests_pass"] = ("FAILED" not in ot) and ("failed" not in ot) and ("Timeout" not in ot) and (" error" not in ot.lower())
    # 3. the checks against the changed tree
    out["checks"] = {}
    for p in [pid] + extra:
        rcc, oc = sh("VERIF_REPO=%s timeout 5400 ./check %s --tier %s" % (wt, p, tier), cwd=ROOT, timeout=6000)
        lines = [l for l in oc.splitlines() if l.startswith("VIOLATION") or l.startswith("  signature") or l.startswith(p + " ") or "MACHINERY" in l]
        out["checks"][p] = {"exit": rcc, "tier": tier, "lines": lines[:12], "seed": int(os.environ.get("VERIF_SEED", "0") or 0)}
        if rcc == 0 and p == pid and "VERIF_SEED" not in os.environ:
            # the quick tier is a seeded sample: a miss at the default seed is re-tried at seeds 1 and 2
            for sd in (1, 2):
                rc2, oc2 = sh("VERIF_SEED=%d VERIF_REPO=%s timeout 5400 ./check %s --tier %s" % (sd, wt, p, tier), cwd=ROOT, timeout=6000)
                out["checks"][p].setdefault("other_seeds", {})[str(sd)] = rc2
                if rc2 == 1:
                    l2 = [l for l in oc2.splitlines() if l.startswith("VIOLATION") or l.startswith("  signature") or l.startswith(p + " ")]
                    out["checks"][p].update({"exit": 1, "lines": l2[:12], "seed": sd})
                    break
    out["caught_by"] = [p for p, r in out["checks"].items() if r["exit"] == 1]
    dst = os.path.join(ROOT, "seeded", name)
    os.makedirs(dst, exist_ok=True)
    # keep the history: a change the first version of a check missed stays marked as such
    prev_path = os.path.join(dst, "meta.json")
    if os.path.exists(prev_path):
        try:
            prev = json.load(open(prev_path))
            hist = prev.get("history", [])
            hist.append({"validated_at": prev.get("validated_at"), "repo_head": prev.get("repo_head"), "caught_by": prev.get("caught_by"),
                         "checks": {k: v.get("exit") for k, v in prev.get("checks", {}).items()}})
            out["history"] = hist
            for k in ("repo_tests_with_change", "repo_tests_pass"):
                if k not in out and k in prev:
                    out[k] = prev[k]
        except Exception:
            pass
    shutil.copy(patch, os.path.join(dst, "patch.diff"))
    shutil.copy(os.path.join(seed, "demo.py"), os.path.join(dst, "demo.py"))
    json.dump(out, open(os.path.join(dst, "meta.json"), "w"), indent=1)
    print(json.dumps({k: out[k] for k in out if k not in ("agent_meta",)}, indent=1))
    sh("git -C /repo worktree remove --force %s" % wt)
    return 0


if __name__ == "__main__":
    sys.exit(main())
