#!/venv/bin/python
"""Regenerate MANIFEST.json from harness/registry.py (keeps it schema-valid)."""
import json, os, sys
ROOT = os.path.dirname(os.path.dirname(os.path.abspath(__file__)))
sys.path.insert(0, ROOT)
from harness.registry import CHECKS, NOT_APPLICABLE, ENGINES
import jsonschema

props = [json.loads(l)["id"] for l in open(os.path.join(ROOT, "properties.jsonl"))]
checks = []
for pid in props:
    if pid not in CHECKS:
        continue
    c = CHECKS[pid]
    drv = open(os.path.join(ROOT, "harness", "drivers", pid.lower() + ".py")).read()
    has_replay = "def replay(" in drv
    checks.append({
        "property_id": pid,
        "quick_cmd": "./check %s --tier quick" % pid,
        "thorough_cmd": "./check %s --tier thorough" % pid,
        "evidence_file": "/verif/evidence/%s.json" % pid,
        **({"replay_cmd_template": "./check %s --replay {path}" % pid} if has_replay else {}),
        "engine": c.get("engine", "tlc"),
        "level_claimed": {"category": c.get("category", "model_checking"), "text": c["text"], "design_ref": c.get("design_ref", "DESIGN.md §6 " + pid)},
        "level_note": c["note"],
        "technique": c["technique"],
    })
na = []
for pid in props:
    if pid in CHECKS:
        continue
    na.append({"property_id": pid, "reason": NOT_APPLICABLE.get(pid, "check not built yet (work in progress; planned in DESIGN.md §6)")})
m = {
    "version": 1,
    "setup_cmd": "./setup.sh",
    "hooks": {
        "guard": "UP_VERIF",
        "enable": "no in-tree hooks: checks import /repo's working tree directly (editable install in /venv); UP_VERIF is reserved",
        "baseline_off_cmd": "cd /repo && /venv/bin/python -m pytest -ra -q -p no:cacheprovider --timeout=900 --continue-on-collection-errors",
        "source_commits": [],
        "add_only": True,
    },
    "engines": ENGINES,
    "checks": checks,
    "notes": "Model-based verification with explicit TLA+ specifications (spec/*.tla) checked by TLC and bound to the code by replaying TLC-enumerated cases into the implementation and validating recorded traces/observations against the specifications. See DESIGN.md.",
    "not_applicable": na,
}
jsonschema.validate(m, json.load(open("/root/.vp/MANIFEST.schema.json")))
json.dump(m, open(os.path.join(ROOT, "MANIFEST.json"), "w"), indent=1)
print("MANIFEST.json: %d checks, %d not_applicable" % (len(checks), len(na)))
