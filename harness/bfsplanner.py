"""The "correct underlying planner" that C31 assumes: an exact breadth-first planner over the
UPSequentialSimulator, registered in the factory by the harness (name "bfs").  It returns only plans it
has executed to a goal state and proves unsolvability by exhausting the finite reachable state space.
It is part of the harness (the property is conditional on such a planner), not an oracle: every plan the
meta-engines return is judged by TLC against UPSeqSem, and optimality / solvability by TLC's own
exploration of the specification."""
from typing import Optional, Callable, IO

import unified_planning as up
from unified_planning.engines import Engine, PlanGenerationResult, PlanGenerationResultStatus
from unified_planning.engines.mixins import OneshotPlannerMixin
from unified_planning.engines.sequential_simulator import UPSequentialSimulator
from unified_planning.plans import SequentialPlan, ActionInstance

MAX_STATES = 4000


class BfsPlanner(Engine, OneshotPlannerMixin):
    def __init__(self, **options):
        Engine.__init__(self)
        OneshotPlannerMixin.__init__(self)

    @property
    def name(self):
        return "bfs"

    @staticmethod
    def supported_kind():
        k = UPSequentialSimulator.supported_kind()
        return k

    @staticmethod
    def supports(problem_kind):
        return problem_kind <= BfsPlanner.supported_kind()

    @staticmethod
    def satisfies(optimality_guarantee):
        return False

    def _solve(self, problem, heuristic=None, timeout=None, output_stream=None):
        sim = UPSequentialSimulator(problem, error_on_failed_checks=False)
        try:
            s0 = sim.get_initial_state()
        except up.exceptions.UPProblemDefinitionError:
            return PlanGenerationResult(PlanGenerationResultStatus.UNSOLVABLE_PROVEN, None, self.name)
        if sim.is_goal(s0):
            return PlanGenerationResult(PlanGenerationResultStatus.SOLVED_SATISFICING, SequentialPlan([]), self.name)
        gas = list(sim._grounder.get_grounded_actions()) if hasattr(sim, "_grounder") else None
        seen = {s0}
        frontier = [(s0, [])]
        while frontier:
            nxt = []
            for st, plan in frontier:
                for a, params in sim.get_applicable_actions(st):
                    ns = sim.apply(st, a, params)
                    if ns is None or ns in seen:
                        continue
                    seen.add(ns)
                    p2 = plan + [ActionInstance(a, params)]
                    if sim.is_goal(ns):
                        return PlanGenerationResult(PlanGenerationResultStatus.SOLVED_SATISFICING, SequentialPlan(p2), self.name)
                    nxt.append((ns, p2))
                    if len(seen) > MAX_STATES:
                        return PlanGenerationResult(PlanGenerationResultStatus.UNSOLVABLE_INCOMPLETELY, None, self.name)
            frontier = nxt
        return PlanGenerationResult(PlanGenerationResultStatus.UNSOLVABLE_PROVEN, None, self.name)
