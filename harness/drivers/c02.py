"""C02 -- simulator applicability queries agree with apply; queries are pure.

Same corpus and judge as C01 (spec/SeqSemObs.tla, MODE=C02): on ONE simulator instance every query
kind (is_applicable, apply, get_applicable_actions, is_goal, get_unsatisfied_goals) is issued for
every ground action of every visited state in a seeded random interleaving, each twice, and the state
vector is re-read afterwards.  Judged clauses: is_applicable = (apply # None) = membership in the yielded
set; is_goal = (no unsatisfied goal); repeated answers equal; states unchanged; and, outside the
unspecified zones, all of them equal UPSeqSem's verdicts.
"""
from . import c01


def run(ctx):
    c01.run_mode(ctx, "C02")


def replay(ctx, rec):
    return c01.replay_mode(ctx, rec, "C02")
