"""C11 -- simplification preserves the meaning of expressions.

T1  spec/MCBigArith.tla: the limb arithmetic of spec/BigArith.tla (the oracle of the "big" family)
    agrees with TLC's native arithmetic on all pairs of small signed integers / rationals and
    satisfies the ring / order laws on operands far above 2^53.
G1  spec/SimplifyEnum.tla: TLC enumerates the typed grammar of spec/SimplifyMenu.tla (every
    expression of depth <= 1 over the full leaf set, every depth-2 expression over the core leaf
    set, quantified bodies with equalities between object terms) and the "big" family (every
    arithmetic / comparison node kind over all ordered pairs of operands such as 2^53+1, 2^60+2,
    10^30, 10^20/3 in BigArith limb form), plus the problem they live in.
G2  seeded (ctx.rng) compositions of depth 2-3 of the pools TLC emitted (structure only).
Bind  every expression is built in a fresh-Environment copy of the problem through the public API
    (harness.upj), simplified by FNode.simplify() (environment simplifier) and by
    Simplifier(env, problem).simplify(); result and result-of-result are projected.  For the big
    family Python only transcribes limb form <-> int / Fraction (decimal re-grouping, no arithmetic).
T3  spec/SimplifyJudge.tla decides every clause: raises / freevars / meaning (ALL valuations of the
    leaves on the finite grid, static fluents pinned for the problem-relative simplifier; BigArith
    for the big family) / idempotent.

Python holds no oracle: it builds, calls, transcribes.
"""
import json
import os
import time
from fractions import Fraction

from .. import tlc, upj
from ..common import MachineryError, time_limit, ImplTimeout

DUMMY = upj.E("const", v=upj.BV(True))

ENUM_CFG = """INIT Init
NEXT Next
CONSTANTS CoreB <- CoreB%(t)s
 CoreN <- CoreN%(t)s
 BigOps <- Big%(t)s
 Tier = "%(tier)s"
"""
# SetToSeq folds recursively over sets of 10^4..10^5 records: the default thread stack is borderline
# (an occasional StackOverflowError was seen); run_tlc puts this string after -Xmx
ENUM_JVM = "8g -Xss512m"
JUDGE_CFG = "SPECIFICATION Spec\nINVARIANT Verdict\n"
MCBIG_CFG = "INIT Init\nNEXT Next\nINVARIANT NativeOK\nINVARIANT BigOK\nCONSTANT Tier = \"%s\"\n"
# Limits of one library call.  The decisive one is CPU time of the process (a mutant that loops burns
# CPU; a process starved by other jobs on an oversubscribed machine does not); the wall-clock limit of
# harness.common.time_limit is kept as an outer guard (a call blocked without consuming CPU).
CPU_LIMIT = 30
LIMIT = 150
# after this many non-returning calls a replay chunk stops calling the library (remaining cases: "skip")
MAX_TIMEOUTS = 2


class cpu_limit:
    """with cpu_limit(s): call()  -- raises ImplTimeout after s seconds of process CPU time (main thread)."""

    def __init__(self, seconds):
        self.seconds = seconds

    def _handler(self, signum, frame):
        raise ImplTimeout("no return within %ss of CPU time" % self.seconds)

    def __enter__(self):
        import signal

        self._old = signal.signal(signal.SIGPROF, self._handler)
        signal.setitimer(signal.ITIMER_PROF, self.seconds)
        return self

    def __exit__(self, *a):
        import signal

        signal.setitimer(signal.ITIMER_PROF, 0)
        signal.signal(signal.SIGPROF, self._old)
        return False


class limits:
    """wall-clock guard (harness.common.time_limit) around a CPU-time guard"""

    def __enter__(self):
        self._w = time_limit(LIMIT)
        self._c = cpu_limit(CPU_LIMIT)
        self._w.__enter__()
        self._c.__enter__()
        return self

    def __exit__(self, *a):
        self._c.__exit__(*a)
        self._w.__exit__(*a)
        return False


# ----------------------------------------------------------------------------------------
# the real objects
# ----------------------------------------------------------------------------------------
class World:
    """A fresh Environment holding the problem emitted by TLC, with name resolution tables."""

    def __init__(self, Pj):
        from unified_planning.environment import Environment
        from unified_planning.model import Variable
        from unified_planning.model.walkers import Simplifier

        self.env = env = Environment()
        self.problem = pb = upj.build(Pj, env)
        types = {t.name: t for t in pb.user_types}
        fluents = {f.name: f for f in pb.fluents}
        objects = {o.name: o for o in pb.all_objects}
        params = {p.name: p for a in pb.actions for p in a.parameters}
        variables = {"x": Variable("x", types["T"], env), "y": Variable("y", types["T"], env), "z": Variable("z", types["Ts"], env)}
        self.sc = upj.Scope(pb, types, fluents, objects, params, variables)
        self.simp = Simplifier(env, pb)


def _blank():
    nul = {"k": "skip", "exc": "", "r": DUMMY}
    return {
        "built": {"k": "ok", "exc": ""},
        "e0": DUMMY,
        "E": dict(nul, rr=dict(nul)),
        "P": dict(nul, rr=dict(nul)),
    }


def _simplify_both(w, fe, out, proj):
    """FNode.simplify() and Simplifier(env, problem).simplify(), each applied twice; returns dirty"""
    dirty = False
    for V, f in (("E", lambda z: z.simplify()), ("P", lambda z: w.simp.simplify(z))):
        o = out[V]
        cur = fe
        for stage in (o, o["rr"]):
            try:
                with limits():
                    r = f(cur)
                    stage["r"] = proj(r)
                stage["k"] = "ok"
                cur = r
            except ImplTimeout:
                stage["k"], stage["exc"] = "exc", "TIMEOUT"
                dirty = True
                break
            except MachineryError:
                raise
            except Exception as ex:
                stage["k"], stage["exc"] = "exc", type(ex).__name__
                dirty = True
                break
    return dirty


def run_case(w, e):
    """Build e (UPJ expression), simplify; returns (record, dirty).  dirty: an exception was raised
    inside the library, the World must not be reused (shared walkers / node table are left unclean:
    that is C14 / C16 territory, not judged here)."""
    out = _blank()
    try:
        with limits():
            fe = upj.b_expr(e, w.sc)
            out["e0"] = upj.p_expr(fe)
    except ImplTimeout:
        out["built"] = {"k": "exc", "exc": "TIMEOUT"}
        out["e0"] = e
        return out, True
    except Exception as ex:
        out["built"] = {"k": "exc", "exc": type(ex).__name__}
        out["e0"] = e
        return out, True
    return out, _simplify_both(w, fe, out, upj.p_expr)


# ---------- big family: transcription between limb form and Python numbers ----------
def limbs_to_int(m):
    return int("".join("%04d" % l for l in reversed(m)) or "0")


def int_to_limbs(n):
    s = str(n)
    if n < 0:
        raise MachineryError("int_to_limbs takes a natural")
    out = []
    while s:
        out.append(int(s[-4:]))
        s = s[:-4]
    return [] if out == [0] else out


def q_to_number(q):
    n = q["n"]["s"] * limbs_to_int(q["n"]["m"])
    d = limbs_to_int(q["d"])
    return n if d == 1 else Fraction(n, d)


def number_to_q(x):
    f = Fraction(x)
    n, d = f.numerator, f.denominator
    return {"n": {"s": (n > 0) - (n < 0), "m": int_to_limbs(abs(n))}, "d": int_to_limbs(d)}


QZERO = {"n": {"s": 0, "m": []}, "d": [1]}
BDUMMY = {"op": "true", "args": [], "name": "", "q": QZERO}
_BOPS = {"plus": "Plus", "minus": "Minus", "times": "Times", "div": "Div", "le": "LE", "lt": "LT", "eq": "Equals"}


def b_big(e, w):
    em = w.env.expression_manager
    op = e["op"]
    if op == "const":
        x = q_to_number(e["q"])
        return em.Int(x) if isinstance(x, int) else em.Real(x)
    if op == "fluent":
        return em.FluentExp(w.sc.fluents[e["name"]])
    if op in ("true", "false"):
        return em.Bool(op == "true")
    args = [b_big(a, w) for a in e["args"]]
    return getattr(em, _BOPS[op])(*args)


def p_big(fe):
    from unified_planning.model.operators import OperatorKind as OK

    nt = fe.node_type
    if nt == OK.BOOL_CONSTANT:
        return {"op": "true" if fe.bool_constant_value() else "false", "args": [], "name": "", "q": QZERO}
    if nt in (OK.INT_CONSTANT, OK.REAL_CONSTANT):
        return {"op": "const", "args": [], "name": "", "q": number_to_q(fe.constant_value())}
    if nt == OK.FLUENT_EXP and not fe.args:
        return {"op": "fluent", "args": [], "name": fe.fluent().name, "q": QZERO}
    names = {OK.PLUS: "plus", OK.MINUS: "minus", OK.TIMES: "times", OK.DIV: "div", OK.LE: "le", OK.LT: "lt", OK.EQUALS: "eq"}
    if nt in names:
        return {"op": names[nt], "args": [p_big(a) for a in fe.args], "name": "", "q": QZERO}
    raise ValueError("node outside the big-family fragment: %s" % nt)


def run_big_case(w, e):
    out = _blank()
    out["e0"] = BDUMMY
    for V in ("E", "P"):
        out[V]["r"] = BDUMMY
        out[V]["rr"]["r"] = BDUMMY
    try:
        with limits():
            fe = b_big(e, w)
            out["e0"] = p_big(fe)
    except ImplTimeout:
        out["built"] = {"k": "exc", "exc": "TIMEOUT"}
        out["e0"] = e
        return out, True
    except Exception as ex:
        out["built"] = {"k": "exc", "exc": type(ex).__name__}
        out["e0"] = e
        return out, True
    return out, _simplify_both(w, fe, out, p_big)


# ---------- replay (optionally in forked worker processes) ----------
def _replay_chunk(arg):
    Pj, items, big = arg
    w = World(Pj)
    recs = []
    ntimeouts = 0
    for cid, fam, e in items:
        if ntimeouts >= MAX_TIMEOUTS:
            o = _blank()
            o["e0"] = e
            if big:
                for V in ("E", "P"):
                    o[V]["r"] = BDUMMY
                    o[V]["rr"]["r"] = BDUMMY
        else:
            # A wall-clock time-out on an oversubscribed machine may be starvation, not a loop in the
            # library: when the process received little CPU during the case, it is run again (fresh World).
            for attempt in range(4):
                c0 = time.process_time()
                o, dirty = (run_big_case if big else run_case)(w, e)
                if dirty:
                    w = World(Pj)
                timed_out = o["built"]["exc"] == "TIMEOUT" or any(
                    st["exc"] == "TIMEOUT" for V in ("E", "P") for st in (o[V], o[V]["rr"])
                )
                if not timed_out or time.process_time() - c0 >= CPU_LIMIT * 0.9:
                    break
            ntimeouts += sum(1 for V in ("E", "P") for st in (o[V], o[V]["rr"]) if st["exc"] == "TIMEOUT")
        o["id"], o["fam"] = cid, fam
        recs.append(o)
    return recs


def replay(Pj, items, big=False, nproc=1):
    """Replay all items.  The case lists are millions of small Python objects: a full garbage collection
    in the middle of a library call took 4-8 s of CPU on the loaded machine and was mistaken for a
    non-returning call (always at the same case: collections are triggered by allocation counts), so
    the existing objects are frozen (not traversed by later collections) while replaying."""
    import gc

    gc.collect()
    gc.freeze()
    try:
        return _replay(Pj, items, big, nproc)
    finally:
        gc.unfreeze()


def _replay(Pj, items, big, nproc):
    if nproc <= 1 or len(items) < 2000:
        return _replay_chunk((Pj, items, big))
    import multiprocessing

    n = len(items)
    step = (n + nproc * 4 - 1) // (nproc * 4)
    chunks = [(Pj, items[i : i + step], big) for i in range(0, n, step)]
    with multiprocessing.get_context("fork").Pool(nproc) as pool:
        parts = pool.map(_replay_chunk, chunks)
    return [r for p in parts for r in p]


class Interner:
    """Hash-consing of the transcribed expressions (representation only): one table line per
    distinct record, the cases refer to 1-based line numbers."""

    def __init__(self):
        self.ix = {}
        self.rows = []

    def __call__(self, e):
        k = json.dumps(e, sort_keys=True, separators=(",", ":"))
        i = self.ix.get(k)
        if i is None:
            self.rows.append({"e": e})
            i = self.ix[k] = len(self.rows)
        return i


def intern_records(recs, tab):
    out = []
    for r in recs:
        c = {"id": r["id"], "fam": r["fam"], "built": r["built"], "e0": tab(r["e0"])}
        for V in ("E", "P"):
            o = r[V]
            c[V] = {
                "k": o["k"],
                "exc": o["exc"],
                "r": tab(o["r"]),
                "rr": {"k": o["rr"]["k"], "exc": o["rr"]["exc"], "r": tab(o["rr"]["r"])},
            }
        out.append(c)
    return out


# ----------------------------------------------------------------------------------------
# G2: seeded compositions of the pools emitted by TLC (structure only)
# ----------------------------------------------------------------------------------------
def _fluent_names(e, acc):
    if e["op"] == "fluent":
        acc.add(e["name"])
    for a in e["args"]:
        _fluent_names(a, acc)
    return acc


def compose(rng, pool, n):
    B, N = pool["B"], pool["N"]
    XT = {"k": "user", "name": "T"}
    out = []
    guard = 0
    while len(out) < n and guard < 50 * n:
        guard += 1
        k = rng.random()
        pb = lambda: B[rng.randrange(len(B))]
        pn = lambda: N[rng.randrange(len(N))]
        bop = lambda: rng.choice(["and", "or", "implies", "iff"])
        if k < 0.35:
            e = upj.E(bop(), [pb(), pb()])
        elif k < 0.45:
            e = upj.E(rng.choice(["and", "or"]), [pb(), pb(), pb()])
        elif k < 0.60:
            e = upj.E(rng.choice(["eq", "le", "lt"]), [pn(), pn()])
        elif k < 0.75:
            e = upj.E(rng.choice(["plus", "minus", "times", "div"]), [pn(), pn()])
        elif k < 0.80:
            e = upj.E(rng.choice(["plus", "times"]), [pn(), pn(), pn()])
        elif k < 0.85:
            e = upj.E("not", [pb()])
        elif k < 0.93:
            e = upj.E(rng.choice(["exists", "forall"]), [upj.E(bop(), [pb(), pb()])], vars_=[{"name": "x", "type": XT}])
        else:
            e = upj.E(bop(), [upj.E(bop(), [pb(), pb()]), pb()])
        # keep the number of valuations the judge has to enumerate small (structural filter)
        if len(_fluent_names(e, set())) > 4:
            continue
        out.append(e)
    return out


# ----------------------------------------------------------------------------------------
# judging
# ----------------------------------------------------------------------------------------
SANITY_INTS = {
    "2^53+1": 2**53 + 1,
    "2^60+2": 2**60 + 2,
    "10^30": 10**30,
}


CHUNK = 40000


def judge(ctx, label, recs, brecs, byid, workers=16):
    """judge in chunks of at most CHUNK cases per TLC run (the JSON reader is single-threaded)"""
    nfail = 0
    skipped = 0
    for k in range(0, max(len(recs), 1), CHUNK):
        part = recs[k : k + CHUNK]
        _, nf, ns = judge1(ctx, "%s-%d" % (label, k // CHUNK), part, brecs if k == 0 else [], byid, workers)
        nfail += nf
        skipped += ns
    if skipped:
        ctx.cov["not_replayed_after_timeouts"] = skipped
        if not any(v.sig.startswith(("raises-TIMEOUT", "idempotent-raises-TIMEOUT", "big-raises-TIMEOUT", "big-idempotent-raises-TIMEOUT")) for v in ctx.violations):
            raise MachineryError("%d cases were skipped without a reported time-out" % skipped)
    return nfail


def judge1(ctx, label, recs, brecs, byid, workers=16):
    d = ctx.sub("judge-" + label)
    tab, btab = Interner(), Interner()
    cases = intern_records(recs, tab)
    bcases = intern_records(brecs, btab)
    paths = {k: os.path.join(d, k.lower() + ".ndjson") for k in ("TAB", "CASES", "BTAB", "BCASES")}
    tlc.write_ndjson(paths["TAB"], tab.rows)
    tlc.write_ndjson(paths["CASES"], cases)
    tlc.write_ndjson(paths["BTAB"], btab.rows)
    tlc.write_ndjson(paths["BCASES"], bcases)
    res = tlc.run_tlc("SimplifyJudge", JUDGE_CFG, d, env=paths, timeout=3000, workers=workers)
    if res.error or res.violated:
        raise MachineryError("SimplifyJudge failed: %s %s" % (res.violated, res.error))
    expected = 2 * (len(cases) + len(bcases))
    if res.distinct != expected:
        raise MachineryError("judge consumed %d states, expected %d" % (res.distinct, expected))
    ctx.add_tlc("judge-" + label, res)
    ctx.cov["traces_validated_against_impl"] += len(cases) + len(bcases)
    nfail = 0
    nskip = 0
    for p in res.printed:
        if not p:
            continue
        if p[0] == "S":
            nskip += 1
        elif p[0] == "FAIL":
            _, kind, cid, V, clause, feat, wit = p
            rec = byid[(kind, cid)]
            nfail += 1
            ctx.violation(
                "%s|%s|%s" % (clause, V, feat),
                "simplify (%s) violates clause %s on %s"
                % ("FNode.simplify" if V == "E" else "Simplifier(env, problem)", clause, feat),
                {"case": [kind, cid], "family": rec["fam"], "variant": V, "clause": clause, "feature": feat, "witness": wit,
                 "emitted": rec["e"], "simplified_input": rec["e0"], "result": rec[V]["r"], "result2": rec[V]["rr"]},
            )
        elif p[0] == "U":
            ctx.cov["unspecified"] += 1
        elif p[0] == "M":
            raise MachineryError("generator produced an expression UP cannot build: %r %r" % (p, byid[(p[1], p[2])]["e"]))
    return res, nfail, nskip


def run(ctx):
    q = ctx.quick
    nproc = 4 if q else 8
    # ---- T1: BigArith against native arithmetic and the ring laws --------------------------
    d = ctx.sub("t1")
    res = tlc.run_tlc("MCBigArith", MCBIG_CFG % ctx.tier, d, timeout=3000)
    if res.error:
        raise MachineryError(res.error)
    ctx.add_tlc("T1 BigArith", res)
    if res.violated:
        raise MachineryError("BigArith (the oracle) violates %s" % res.violated)
    if res.distinct < 500:
        raise MachineryError("MCBigArith explored only %d states" % res.distinct)
    # ---- G1: TLC enumerates the cases --------------------------------------------------------
    d = ctx.sub("enum")
    f = {k: os.path.join(d, k.lower() + ".ndjson") for k in ("OUT", "PROB", "POOL", "BIG")}
    res = tlc.run_tlc(
        "SimplifyEnum", ENUM_CFG % {"t": "Quick" if q else "Thorough", "tier": ctx.tier}, d, env=f, workers=1, timeout=3000, heap=ENUM_JVM
    )
    if res.error:
        raise MachineryError(res.error)
    Pj = tlc.read_ndjson(f["PROB"])[0]["P"]
    emitted = tlc.read_ndjson(f["OUT"])
    pool = tlc.read_ndjson(f["POOL"])[0]
    big = tlc.read_ndjson(f["BIG"])
    counts = [p for p in res.printed if p and p[0] == "EMITTED"]
    if not counts or sum(counts[0][1:]) != len(emitted):
        raise MachineryError("enumerator counts %r do not match %d emitted lines" % (counts, len(emitted)))
    # sanity of the trusted base: TLC's limb constants read back as the intended integers
    seen = {q_to_number(a["q"]) for c in big for a in c["e"]["args"] if a["op"] == "const"}
    for name, val in SANITY_INTS.items():
        if val not in seen:
            raise MachineryError("big operand %s missing from the BigArith enumeration" % name)
    # ---- G2: seeded compositions -----------------------------------------------------------
    nmix = 1500 if q else 20000
    mixed = compose(ctx.rng, pool, nmix)
    items = [(i, c["fam"], c["e"]) for i, c in enumerate(emitted)]
    items += [(len(emitted) + i, "mix", e) for i, e in enumerate(mixed)]
    bitems = [(i, "big", c["e"]) for i, c in enumerate(big)]
    # ---- bind: the real simplifier ----------------------------------------------------------
    recs = replay(Pj, items, nproc=nproc)
    brecs = replay(Pj, bitems, big=True)
    for r, it in zip(recs, items):
        r["e"] = it[2]
    for r, it in zip(brecs, bitems):
        r["e"] = it[2]
    byid = {("s", r["id"]): r for r in recs}
    byid.update({("b", r["id"]): r for r in brecs})
    ncalls = sum(1 for r in recs + brecs for V in ("E", "P") for s in (r[V], r[V]["rr"]) if s["k"] != "skip")
    ctx.cov["evaluations"] += ncalls
    nontriv = sum(1 for r in recs + brecs if r["built"]["k"] == "ok" and any(r[V]["k"] == "ok" and r[V]["r"] != r["e0"] for V in ("E", "P")))
    ctx.cov["distinct_nontrivial"] = nontriv
    if nontriv < len(recs) // 10:
        raise MachineryError("only %d of %d expressions are changed by simplification" % (nontriv, len(recs)))
    for fam in ("d2", "qe", "big"):
        for r in recs + brecs:
            if r["fam"] == fam and r["built"]["k"] == "ok" and r["E"]["k"] == "ok" and r["E"]["r"] != r["e0"]:
                ctx.sample({"family": fam, "input": r["e0"], "FNode.simplify": r["E"]["r"], "Simplifier(env,problem)": r["P"]["r"]})
                break
    # ---- T3: TLC judges ---------------------------------------------------------------------
    judge(ctx, "all", recs, brecs, byid)
    fams = {}
    for r in recs + brecs:
        fams[r["fam"]] = fams.get(r["fam"], 0) + 1
    ctx.cov["families"] = fams
    ctx.cov["rule"] = (
        "G1 (TLC, exhaustive): d1 = all expressions of depth <= 1 over 8 Boolean, 8 numeric and 6 object leaves; q1 = "
        "Exists/Forall x over every Boolean d1 expression; d2 = all depth-2 expressions over the core leaves of the tier; "
        "qe = quantified conjunctions with object equalities (x = t, x = nxt(x), 3-ary, nested re-binding, free x next to "
        "bound x); big = every arithmetic/comparison node kind over all ordered operand pairs from the BigArith operand "
        "set, and 3-ary sums/products with a fluent. G2: %d seeded compositions (depth 2-3, 3-ary) of the TLC-emitted pools. "
        "Each case: FNode.simplify() and Simplifier(env, problem).simplify(), applied twice. Judged by TLC under ALL "
        "valuations of the occurring leaves on the grid (numeric -2..3 plus halves for reals, within bounds). "
        "non-trivial = the simplifier changed the expression." % nmix
    )
    ctx.cov["exhaustive"] = True
    ctx.assumptions += [
        "TLC and the CommunityModules Json reader are trusted",
        "infinite numeric domains are sampled on a grid of critical points (-2..3 and halves), not decided; no SMT solver is used",
        "valuations where either side is undefined (division by zero) are skipped; an expression with an identically-zero divisor is unspecified",
        "the expression judged is the projection of the FNode actually handed to simplify() (constructor normalisation is C16's subject)",
        "each expression is simplified in an Environment that is discarded after any exception (exception safety of shared walkers is C14's subject)",
        "BigArith limb arithmetic is checked against native arithmetic and ring laws by MCBigArith; Python transcribes decimal digits only",
    ]


# ----------------------------------------------------------------------------------------
# self-test: corrupted records must be rejected by the judge
# ----------------------------------------------------------------------------------------
def selftest(ctx):
    d = ctx.sub("enum")
    f = {k: os.path.join(d, k.lower() + ".ndjson") for k in ("OUT", "PROB", "POOL", "BIG")}
    res = tlc.run_tlc("SimplifyEnum", ENUM_CFG % {"t": "Quick", "tier": "quick"}, d, env=f, workers=1, timeout=3000, heap=ENUM_JVM)
    if res.error:
        raise MachineryError(res.error)
    Pj = tlc.read_ndjson(f["PROB"])[0]["P"]
    emitted = [c for c in tlc.read_ndjson(f["OUT"]) if c["fam"] == "d1"]
    big = tlc.read_ndjson(f["BIG"])[:60]
    items = [(i, c["fam"], c["e"]) for i, c in enumerate(emitted)]
    bitems = [(i, "big", c["e"]) for i, c in enumerate(big)]
    recs = replay(Pj, items)
    brecs = replay(Pj, bitems, big=True)
    for r, it in zip(recs, items):
        r["e"] = it[2]
    for r, it in zip(brecs, bitems):
        r["e"] = it[2]
    byid = {("s", r["id"]): r for r in recs}
    byid.update({("b", r["id"]): r for r in brecs})
    # corruptions (one field each)
    want = set()
    B1 = upj.E("fluent", name="b1")
    B2 = upj.E("fluent", name="b2")
    XV = upj.E("var", name="x")
    done = set()
    for r in recs:
        if r["built"]["k"] != "ok" or r["E"]["k"] != "ok":
            continue
        e0 = r["e0"]
        if "meaning" not in done and e0 == B1:
            r["E"]["r"] = B2
            r["E"]["rr"]["r"] = B2
            want.add(("s", r["id"], "E", "meaning"))
            done.add("meaning")
        elif "freevars" not in done and e0["op"] == "eq" and e0["args"][0]["op"] == "obj" and e0["args"][1]["op"] == "param":
            r["P"]["r"] = upj.E("eq", [e0["args"][0], XV])
            r["P"]["rr"]["r"] = r["P"]["r"]
            want.add(("s", r["id"], "P", "freevars"))
            done.add("freevars")
        elif "idempotent" not in done and e0["op"] == "and" and r["E"]["r"] == e0:
            r["E"]["rr"]["r"] = B1
            want.add(("s", r["id"], "E", "idempotent"))
            done.add("idempotent")
        elif "raises" not in done and e0["op"] == "or":
            r["P"]["k"], r["P"]["exc"] = "exc", "KeyError"
            want.add(("s", r["id"], "P", "raises-KeyError"))
            done.add("raises")
    for r in brecs:
        if r["built"]["k"] == "ok" and r["E"]["k"] == "ok" and r["E"]["r"]["op"] == "const" and r["e0"]["op"] == "plus":
            qq = json.loads(json.dumps(r["E"]["r"]))
            qq["q"]["n"]["m"] = (qq["q"]["n"]["m"] or [0]) [:]
            qq["q"]["n"]["m"][0] = (qq["q"]["n"]["m"][0] + 1) % 10000 or 1
            qq["q"]["n"]["s"] = qq["q"]["n"]["s"] or 1
            r["E"]["r"] = qq
            r["E"]["rr"]["r"] = qq
            want.add(("b", r["id"], "E", "big-meaning"))
            break
    if len(want) != 5:
        raise MachineryError("self-test could not place all corruptions: %r" % (want,))
    before = len(ctx.violations)
    judge(ctx, "selftest", recs, brecs, byid, workers=8)
    got = set()
    for v in ctx.violations[before:]:
        dd = v.data
        got.add((dd["case"][0], dd["case"][1], dd["variant"], dd["clause"]))
    missing = want - got
    print("self-test: %d corruptions placed, %d detected" % (len(want), len(want) - len(missing)))
    if missing:
        print("NOT DETECTED: %r" % (sorted(missing),))
        return 2
    return 0
