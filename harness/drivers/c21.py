"""C21 -- the two PDDL readers produce equivalent problems.

Inputs: PDDL domain/problem TEXTS written by the harness's own printer (class Printer below: structure only,
from G2 problems of harness/gen.py restricted to the fragment the third-party `pddl` grammar can read), varying
the SURFACE FORMS the unified-planning writer never emits (multi-typed lists, :constants, nested / redundant
and / or, (and) / (or) as constants, comparisons in either operand order, imply, several variables per
quantifier, bare 0-ary function heads, explicit negative init literals, decimals, :action-costs, mixed letter
case, name reuse: a quantifier / forall effect binding a variable named like a parameter of its action, like an
enclosing variable, like an object / type / fluent / action, ...), plus the .pddl pairs shipped under /repo that
both readers accept.

Real code: PDDLReader(force_up_pddl_reader=True) and PDDLReader(force_ai_planning_reader=True), parse_problem on
files in the work directory, global Environment; both results projected with harness/upj.project and
lower-cased (PDDL is case-insensitive: the UP reader lower-cases the whole text, the third-party grammar keeps
the case of the text; lower-casing identifiers is the only renaming applied).

Python prints, calls, projects; every verdict is a TLA+ definition evaluated by TLC:
  * spec/PddlReaders.tla  which texts are in the common fragment (both readers returned a problem), tallies of
                          the others, and the clause on numeric literals TLC's integers cannot hold
  * spec/Bisim.tla        A (UP reader) vs B (AI-planning reader) on every state reachable in A to the depth
                          bound: objects, initial state, applicability, successors, goal verdicts, action costs,
                          metric kind.
"""
import glob
import os
import random
import re
import traceback
import warnings
from fractions import Fraction
from multiprocessing import Pool

from .. import tlc, upj, simobs
from ..common import MachineryError, time_limit, ImplTimeout, call_limited
from ..gen import Gen, ground_actions

CFG = "SPECIFICATION Spec\nINVARIANT Judge\n"
CFG_BISIM = "SPECIFICATION Spec\nINVARIANT Equivalent\n"
NPROC = 8
REPO = "/repo"  # the shipped .pddl files are inputs (read from the pinned tree even when VERIF_REPO points at a mutant)


# ----------------------------------------------------------------------------------------
# the seed grammar: G2 restricted to what PDDL (and the third-party grammar) can express
# ----------------------------------------------------------------------------------------
MASK = dict(objfluents=False, bounded=False, bool_expr_assign=False, boolconst=True, undefined=False, invariants=False,
            metric="any", implies=True, real=True)
PLAIN_GOAL = dict(disjunction=False, quantifiers=False, implies=False, equality=False, boolconst=False)


class SeedGen(Gen):
    """G2 with (mostly) conjunctive goals: the third-party problem grammar checks the requirements of or / imply /
    quantifiers / = against an empty requirement set, i.e. rejects them in goals (generator restriction only)."""

    def __init__(self, rng, plain_goal=0.85, keep_minus=False, allow_dup=False, scoped=False, **opts):
        Gen.__init__(self, rng, **opts)
        self.plain_goal = plain_goal
        self.keep_minus = keep_minus
        self.allow_dup = allow_dup
        self.scoped = scoped

    def action(self, name):
        """slice `scope`: every action with parameters gets quantifiers (exists / forall in the precondition or in the
        condition of an effect, forall effects) whose variable ranges over the type of one of its parameters, i.e. the
        places where a PDDL author may reuse the parameter's name for the bound variable (structure only)"""
        a = Gen.action(self, name)
        if not self.scoped or not a["params"]:
            return a
        r = self.r
        params = {p["name"]: p["type"] for p in a["params"]}
        for _ in range(r.choice([1, 1, 2])):
            t = r.choice(a["params"])["type"]
            where = r.choice(["pre", "pre", "cond", "forall-effect"])
            if where == "forall-effect":
                for _ in range(40):
                    ef = self.effect(params)
                    if ef is not None and ef["forall"] and ef["forall"][0]["type"]["name"] == t["name"]:
                        a["effects"] = self.drop_static_conflicts(a["effects"] + [ef])
                        break
                else:
                    where = "pre"
            if where in ("pre", "cond"):
                body = None
                for _ in range(12):
                    body = self.bool_expr(r.choice([0, 1, 1]), params, {"v0": t})
                    if _mentions(body, "var", "v0"):
                        break
                q = upj.E(r.choice(["exists", "forall"]), [body], vars_=[{"name": "v0", "type": t}])
                spots = [i for i, ef in enumerate(a["effects"]) if ef["c"] == upj.TRUE_E]
                if where == "cond" and spots:
                    i = r.choice(spots)
                    a["effects"] = [dict(ef, c=q) if j == i else ef for j, ef in enumerate(a["effects"])]
                else:
                    # half of the time the quantified condition IS the precondition (not one conjunct among random others)
                    a["pre"] = (a["pre"] if r.random() < 0.5 else []) + [q]
        return a

    def num_expr(self, depth, params, vs, intonly=False, nodiv=True):
        for _ in range(12):
            e = Gen.num_expr(self, depth, params, vs, intonly, nodiv)
            if not self.keep_minus and e["op"] == "minus":
                # the third-party grammar cannot read binary minus (its LALR table commits to the unary form)
                e = upj.E("plus", e["args"])
            # (+ x x), (* x x), (+ x (+ y x)): kept for the dedicated slice only (see repeated_operand)
            if self.allow_dup or not repeated_operand(e):
                return e
        return upj.E("const", v=upj.NV(1))

    def problem(self):
        P = Gen.problem(self)
        while P["metric"]["kind"] == "oversub":  # PDDL has no oversubscription metric
            P["metric"] = self.metric()
        P["nmetrics"] = 0 if P["metric"]["kind"] == "none" else 1
        if self.r.random() < self.plain_goal:
            saved = dict(self.o)
            self.o.update(PLAIN_GOAL)
            P["goals"] = [self.bool_expr(2, {}, {}) for _ in range(self.r.randint(1, 2))]
            self.o = saved
        return P


def _mentions(e, op, name):
    return (e["op"] == op and e["name"] == name) or any(_mentions(a, op, name) for a in e["args"])


def _free_refs(e, bound=frozenset()):
    """the parameters and the free variables an expression refers to: {("param" | "var", name)} (structure only)"""
    if e["op"] == "param":
        return {("param", e["name"])}
    if e["op"] == "var":
        return set() if e["name"] in bound else {("var", e["name"])}
    if e["op"] in ("exists", "forall"):
        bound = bound | {v["name"] for v in e["vars"]}
    out = set()
    for a in e["args"]:
        out |= _free_refs(a, bound)
    return out


def _skeleton(e, refs):
    """e with its parameter / variable references replaced by holes; refs collects them in syntactic order"""
    if e["op"] in ("param", "var"):
        refs.append((e["op"], e["name"]))
        return "#"
    return (e["op"], e["name"], repr(e["v"]), repr(e["vars"]), tuple(_skeleton(a, refs) for a in e["args"]))


def _clash_pairs(e):
    """the pairs of parameters / variables that must stay different for two operands of one `=` or of one arithmetic operator
    inside e to stay different (structure only).  Identical operands are forms of their own: `(= x x)` is outside the common
    fragment (the third-party parser collapses the operands), `(+ x x)` / `(* x x)` is the known disagreement
    arith:repeated-operand, which has its dedicated slice."""
    out = set()
    if e["op"] in ("eq", "plus", "times", "minus", "div"):
        ops = _flat(e, e["op"]) if e["op"] in ("plus", "times") else e["args"]
        sks = []
        for a in ops:
            refs = []
            sks.append((_skeleton(a, refs), refs))
        for i in range(len(ops)):
            for j in range(i + 1, len(ops)):
                if sks[i][0] == sks[j][0]:
                    out |= {frozenset((x, y)) for x, y in zip(sks[i][1], sks[j][1]) if x != y}
    for a in e["args"]:
        out |= _clash_pairs(a)
    return out


def _eff_clash_pairs(ef):
    out = _clash_pairs(ef["v"]) | _clash_pairs(ef["c"])
    for x in ef["f"]["args"]:
        out |= _clash_pairs(x)
    return out


def _eff_refs(ef):
    out = _free_refs(ef["v"]) | _free_refs(ef["c"])
    for x in ef["f"]["args"]:
        out |= _free_refs(x)
    return {(k, n) for k, n in out if not (k == "var" and n in {v["name"] for v in ef["forall"]})}


def _flat(e, op):
    out = []
    for a in e["args"]:
        out += _flat(a, op) if a["op"] == op else [a]
    return out


def _node_dup(e):
    ops = [repr(a) for a in _flat(e, e["op"])]
    return len(set(ops)) < len(ops)


def repeated_operand(e):
    """some + / * / / / - of e has two equal operands, nested applications of one operator flattened (structure only)"""
    if e["op"] in ("plus", "times", "minus", "div") and _node_dup(e):
        return True
    return any(repeated_operand(a) for a in e["args"])


# ----------------------------------------------------------------------------------------
# the printer: UPJ -> PDDL text (structure only; every choice of surface form comes from rng)
# ----------------------------------------------------------------------------------------
def default_style():
    return dict(
        req="list",            # list | adl | quantified
        constants=0.3,         # probability that an object not used in the domain is declared in :constants anyway
        lists="grouped",       # grouped | single | mixed     (typed lists)
        object_root=False,     # top-level types written `- object`
        child_first=False,     # a sub-type is declared before its parent
        case="lower",          # lower | upper | mixed-consistent | inconsistent
        untyped=False,         # no :types at all (only for single-type seeds)
        obj_param=0.0,         # probability that a parameter of a top-level type is declared `- object` / untyped
        empty_pre="and",       # and | paren | omit
        single_and=0.3,        # (and x) around a single conjunct / effect
        nest=0.3,              # (and a (and b c)) instead of (and a b c)
        flip=0.5,              # comparisons printed with swapped operands (<= a b) -> (>= b a)
        imply_or=0.3,          # (imply a b) printed as (or (not a) b)
        merge_q=0.7,           # nested quantifiers of one kind merged into one with several variables
        extra_var=0.3,         # a quantifier gets one more, unused, variable
        bare=0.0,              # 0-ary function heads without parentheses
        neg_init=0.0,          # (not (p a)) for false atoms in :init
        bare_in_eq=False,      # bare 0-ary heads also as operands of = (the third-party grammar reads (= g 3) as term equality)
        undef_num=0.0,         # probability that a numeric fluent gets no initial value
        int_dec=0.1,           # integers printed as 3.0
        neg="unary",           # unary | binary | literal    negative constants: (- 1) | (- 0 1) | -1
        when_merge=0.5,        # conditional effects with one condition under one (when c (and ...))
        boolconst=True,        # true / false printed as (and) / (or)
        function_type=0.7,     # `- number` after the function declarations
        cost_zero=0.5,         # (increase (total-cost) 0) printed (else omitted)
        metric_bare=0.0,       # (:metric minimize total-cost) without parentheses
        problem_req=0.2,       # the problem repeats (:requirements ...)
        comments=0.3,
        shadow=0.0,            # probability that a bound variable (exists / forall condition, forall effect) is printed under a name
                               # that is already in use: of a parameter of the action, of an enclosing bound variable, of an
                               # object / type / fluent / action (the inner binding shadows the outer one in PDDL)
        odd_param=0.0,         # probability that a parameter is named like an object / type / fluent / action
    )


class Printer:
    def __init__(self, P, rng, style):
        self.P, self.r, self.s = P, rng, style
        self.feats = set()        # text-level features
        self.afeats = {}          # action name -> features
        self.cur = self.feats
        self.ftype = {f["name"]: f["type"]["k"] for f in P["fluents"]}
        self.case_table = {}
        self._used = None
        self.params = {}          # parameters of the action being printed: seed name -> (printed name, type name)
        self.scope = []           # enclosing quantifiers, outermost first: {seed name of the variable -> (printed name, type name)}

    # ---- names -----------------------------------------------------------------------
    def nm(self, kind, name, decl=False):
        c = self.s["case"]
        if c == "lower":
            return name
        key = (kind in ("param", "var") and "pv" or kind, name)
        if key not in self.case_table:
            if c == "upper":
                self.case_table[key] = name.upper()
            else:
                self.case_table[key] = self.r.choice([name, name.upper(), name.capitalize()])
        out = self.case_table[key]
        if out != name:
            self.feats.add("case:mixed-identifiers")
        if c == "inconsistent" and not decl and self.r.random() < 0.3:
            alt = self.r.choice([name, name.upper(), name.capitalize()])
            if alt != out:
                self.feats.add("case:inconsistent-use")
            return alt
        return out

    def f(self, feature):
        self.cur.add(feature)

    # ---- scopes: which printed name a parameter / bound variable gets ---------------------
    def resolve(self, kind, name):
        """(printed name, type name) of a parameter / of the innermost enclosing variable with this seed name"""
        if kind == "param":
            return self.params.get(name, (name, None))
        for frame in reversed(self.scope):
            if name in frame:
                return frame[name]
        return (name, None)

    def other_names(self):
        """names of other kinds of things a parameter / variable can be named like; objects: only those the domain does not
        mention (the third-party parser keys its type-tag consistency check of the terms of one formula on the bare name:
        `(f o2 ?o2)` is rejected, 'Term ?o2 has inconsistent type tags')"""
        P = self.P
        if self._used is None:
            self._used = self.used_in_domain()
        return ([("object", o["name"]) for o in P["objects"] if o["name"] not in self._used] + [("type", t["name"]) for t in P["types"]]
                + [("fluent", f["name"]) for f in P["fluents"]] + [("action", a["name"]) for a in P["actions"]])

    def bind(self, vs, refs, clashes=()):
        """one quantifier binding the seed variables vs; refs: the parameters / outer variables its scope refers to.
        -> frame {seed name: (printed name, type name)}.  With probability `shadow` a variable is printed under a name
        that is already in use.  A name the scope refers to is only taken over by a variable of the same type (the text
        stays well-typed; it then means something else than the seed, which is irrelevant: the text is the input), and
        never by a variable that must stay different from it (clashes: see _clash_pairs)."""
        r, s = self.r, self.s
        used = {}
        for k, n in refs:
            pn, tn = self.resolve(k, n)
            used.setdefault(pn, set()).add(tn)
        frame = {}
        for v in vs:
            name, tn = v["name"], v["type"]["name"]
            pick = (name, None)
            if r.random() < s["shadow"]:
                cands = []
                for pn, ptn in self.params.values():
                    cands += [(pn, "scope:variable-named-like-parameter-of-same-type")] * 4 if ptn == tn else \
                             [(pn, "scope:variable-named-like-parameter-of-other-type")]
                for fr in self.scope:
                    for pn, vtn in fr.values():
                        cands += [(pn, "scope:variable-rebinds-enclosing-variable")] * (2 if vtn == tn else 1)
                k, n = r.choice(self.other_names())
                cands.append((n, "scope:variable-named-like-" + k))
                taken = {p for p, _ in frame.values()}
                rivals = {self.resolve(k2, n2)[0] for pr in clashes if ("var", name) in pr for k2, n2 in pr if (k2, n2) != ("var", name)}
                cands = [(n, ft) for n, ft in cands if n not in taken and n not in rivals and used.get(n, {tn}) == {tn}]
                if cands:
                    pick = r.choice(cands)
            if pick[0] in {p for p, _ in frame.values()}:
                pick = (name, None)
            if pick[1]:
                self.f(pick[1])
                if pick[0] in used:
                    self.f("scope:body-refers-to-shadowed-name")
            frame[name] = (pick[0], tn)
        return frame

    # ---- typed lists -------------------------------------------------------------------
    def typed_list(self, items, what):
        """items: [(printed name, printed type or None)] -> text"""
        mode = self.s["lists"]
        if mode == "mixed":
            mode = self.r.choice(["grouped", "single", "runs"])
        if mode == "single":
            return " ".join(n if t is None else "%s - %s" % (n, t) for n, t in items)
        if mode == "grouped":
            # all names of one type together (reorders the list): a b - t1 c - t2 ; untyped names last
            order = []
            for _, t in items:
                if t not in order:
                    order.append(t)
            order = [t for t in order if t is not None] + ([None] if None in order else [])
            out = []
            for t in order:
                ns = [n for n, t2 in items if t2 == t]
                out.append(" ".join(ns) + ("" if t is None else " - " + t))
                if len(ns) > 1:
                    self.f("list:several-names-one-type")
            if len(order) > 1:
                self.f("list:multi-typed")
            return " ".join(out)
        # runs: consecutive names of one type share the type, order kept
        out, i = [], 0
        while i < len(items):
            j = i
            while j + 1 < len(items) and items[j + 1][1] == items[i][1]:
                j += 1
            ns = [n for n, _ in items[i:j + 1]]
            if items[i][1] is None:
                # an untyped run in the middle of a typed list would take the next type: print it typed-less only at the end
                if j + 1 < len(items):
                    out.append(" ".join(ns) + " - object")
                    self.f("type:object-explicit")
                else:
                    out.append(" ".join(ns))
            else:
                out.append(" ".join(ns) + " - " + items[i][1])
            if len(ns) > 1:
                self.f("list:several-names-one-type")
            i = j + 1
        if len(out) > 1:
            self.f("list:multi-typed")
        return " ".join(out)

    def tname(self, t, top_as_object=False):
        """printed type of a UPJ user type (None = untyped)"""
        if self.s["untyped"]:
            return None
        return self.nm("type", t["name"])

    def var_list(self, vs, kind, objectify=False, names=None):
        """names: {seed name: (printed name, type name)} (default: the seed names)"""
        items = []
        for v in vs:
            if names is not None:
                v = dict(v, name=names[v["name"]][0])
            t = self.tname(v["type"])
            if objectify and t is not None and self._is_top(v["type"]["name"]) and self.r.random() < self.s["obj_param"]:
                t = self.r.choice(["object", None])
                self.f("type:object-parameter" if t else "type:untyped-parameter")
            if t is None:
                self.f("type:untyped-variable")
            items.append(("?" + self.nm(kind, v["name"], decl=True), t))
        # untyped variables must come last in a typed list (otherwise they take the following type)
        if any(t is None for _, t in items) and any(t is not None for _, t in items):
            items = [(n, t if t is not None else "object") for n, t in items]
        return self.typed_list(items, kind)

    def _is_top(self, tn):
        return [t for t in self.P["types"] if t["name"] == tn][0]["parent"] == ""

    # ---- numbers -----------------------------------------------------------------------
    def pnum(self, fr, init=False):
        neg = fr < 0
        a = abs(fr)
        if a.denominator == 1:
            if self.r.random() < self.s["int_dec"]:
                self.f("num:integer-as-decimal")
                s = "%d.0" % a.numerator
            else:
                s = str(a.numerator)
        else:
            s = repr(float(a))
            if "e" in s or Fraction(s) != a:
                s = "(/ %d %d)" % (a.numerator, a.denominator)
                self.f("num:as-division")
            else:
                self.f("num:decimal")
                if a.denominator not in (2, 4, 8):
                    self.f("num:non-dyadic-decimal")
        if not neg:
            return s
        if init or self.s["neg"] == "literal":
            self.f("num:negative-literal")
            return "-" + s
        if self.s["neg"] == "binary":
            self.f("num:negative-as-0-minus")
            return "(- 0 %s)" % s
        self.f("num:unary-minus")
        return "(- %s)" % s

    # ---- expressions -------------------------------------------------------------------
    def nary(self, op, parts):
        """(op a b c) possibly re-nested (op a (op b c))"""
        if len(parts) >= 3 and self.r.random() < self.s["nest"]:
            self.f("nest:%s-in-%s" % (op, op))
            k = self.r.randint(1, len(parts) - 2)
            if self.r.random() < 0.5:
                return "(%s %s (%s %s))" % (op, " ".join(parts[:k]), op, " ".join(parts[k:]))
            return "(%s (%s %s) %s)" % (op, op, " ".join(parts[:k + 1]), " ".join(parts[k + 1:]))
        return "(%s %s)" % (op, " ".join(parts))

    def pe(self, e):
        op = e["op"]
        r, s = self.r, self.s
        if op == "const":
            v = e["v"]
            if v["k"] == "b":
                self.f("const:(and)-as-true" if v["b"] else "const:(or)-as-false")
                return "(and)" if v["b"] else "(or)"
            if v["k"] == "n":
                return self.pnum(Fraction(v["n"], v["d"]))
            return self.nm("object", v["o"])
        if op == "obj":
            self.f("term:constant-in-domain")
            return self.nm("object", e["name"])
        if op == "param":
            return "?" + self.nm("param", self.resolve("param", e["name"])[0])
        if op == "var":
            return "?" + self.nm("var", self.resolve("var", e["name"])[0])
        if op == "fluent":
            n = self.nm("fluent", e["name"])
            if not e["args"] and self.ftype[e["name"]] != "bool" and r.random() < s["bare"]:
                self.f("term:bare-0-ary-function")
                return n
            return "(%s)" % " ".join([n] + [self.pe(a) for a in e["args"]])
        if op in ("and", "or"):
            parts = [self.pe(a) for a in e["args"]]
            if len(parts) == 1:
                self.f("redundant:(%s x)" % op)
            return self.nary(op, parts)
        if op == "not":
            if e["args"][0]["op"] == "not":
                self.f("not:double")
            return "(not %s)" % self.pe(e["args"][0])
        if op == "implies":
            a, b = self.pe(e["args"][0]), self.pe(e["args"][1])
            if r.random() < s["imply_or"]:
                return "(or (not %s) %s)" % (a, b)
            self.f("op:imply")
            return "(imply %s %s)" % (a, b)
        if op == "iff":
            a, b = self.pe(e["args"][0]), self.pe(e["args"][1])
            self.f("op:imply")
            return "(and (imply %s %s) (imply %s %s))" % (a, b, b, a)
        if op == "eq":
            keep = s["bare"]
            if not s["bare_in_eq"]:
                s["bare"] = 0.0
            a, b = self.pe(e["args"][0]), self.pe(e["args"][1])
            s["bare"] = keep
            numeric = not self._is_object_term(e["args"][0])
            self.f("op:=-numeric" if numeric else "op:=-objects")
            if r.random() < s["flip"]:
                a, b = b, a
            return "(= %s %s)" % (a, b)
        if op in ("le", "lt"):
            a, b = self.pe(e["args"][0]), self.pe(e["args"][1])
            if r.random() < s["flip"]:
                self.f("cmp:greater-form")
                return "(%s %s %s)" % (">=" if op == "le" else ">", b, a)
            return "(%s %s %s)" % ("<=" if op == "le" else "<", a, b)
        if op in ("plus", "times", "minus", "div") and _node_dup(e):
            self.f("arith:repeated-operand")
        if op in ("plus", "times"):
            sym = "+" if op == "plus" else "*"
            parts = [self.pe(a) for a in e["args"]]
            if len(parts) > 2:
                self.f("arith:n-ary-%s" % sym)
            return self.nary(sym, parts)
        if op in ("minus", "div"):
            return "(%s %s %s)" % ("-" if op == "minus" else "/", self.pe(e["args"][0]), self.pe(e["args"][1]))
        if op in ("exists", "forall"):
            vs = list(e["vars"])
            body = e["args"][0]
            while body["op"] == op and r.random() < s["merge_q"] and not (
                    {v["name"] for v in body["vars"]} & {v["name"] for v in vs}):
                vs += body["vars"]
                body = body["args"][0]
            if r.random() < s["extra_var"]:
                # one more (unused) variable in the same quantifier; every declared type has an object
                t = r.choice(self.P["types"])["name"]
                vs.append({"name": "u%d" % len(vs), "type": {"k": "user", "name": t}})
                self.f("quantifier:unused-extra-variable")
            if len(vs) > 1:
                self.f("quantifier:several-variables")
            self.f("op:" + op)
            frame = self.bind(vs, _free_refs(body, frozenset(v["name"] for v in vs)), _clash_pairs(body))
            self.scope.append(frame)
            try:
                inner = self.pe(body)
            finally:
                self.scope.pop()
            return "(%s (%s) %s)" % (op, self.var_list(vs, "var", names=frame), inner)
        raise ValueError("cannot print %r" % op)

    def _is_object_term(self, e):
        return e["op"] in ("obj", "param", "var") or (e["op"] == "const" and e["v"]["k"] == "o")

    def conj(self, es):
        """a list of conditions as one PDDL condition"""
        if not es:
            return None
        if len(es) == 1:
            x = self.pe(es[0])
            if self.r.random() < self.s["single_and"]:
                self.f("redundant:(and x)")
                return "(and %s)" % x
            return x
        return self.nary("and", [self.pe(x) for x in es])

    # ---- effects -----------------------------------------------------------------------
    def peff_core(self, ef):
        tgt = "(%s)" % " ".join([self.nm("fluent", ef["f"]["name"])] + [self.pe(a) for a in ef["f"]["args"]])
        if ef["kind"] == "assign":
            if self.ftype[ef["f"]["name"]] == "bool":
                v = ef["v"]
                if v["op"] == "const" and v["v"]["k"] == "b":
                    return tgt if v["v"]["b"] else "(not %s)" % tgt
                raise ValueError("Boolean assignment of a non-constant is not PDDL")
            self.f("effect:assign")
            return "(assign %s %s)" % (tgt, self.pe(ef["v"]))
        self.f("effect:" + ("increase" if ef["kind"] == "inc" else "decrease"))
        return "(%s %s %s)" % ("increase" if ef["kind"] == "inc" else "decrease", tgt, self.pe(ef["v"]))

    def peffects(self, effs, extra):
        """effects of one action (+ extra already printed effects) -> text or None"""
        add = [repr(ef) for ef in effs if ef["kind"] != "assign"]
        if len(set(add)) < len(add):
            self.f("effect:repeated-additive-effect")
        groups = []  # (forall vars repr, cond repr) -> [core]
        refs = {}    # the same key -> what the effects of such a group refer to outside their forall
        eqs = {}
        for ef in effs:
            key = (repr(ef["forall"]), repr(ef["c"]))
            refs[key] = refs.get(key, set()) | _eff_refs(ef)
            eqs[key] = eqs.get(key, set()) | _eff_clash_pairs(ef)
        for ef in effs:
            key = (repr(ef["forall"]), repr(ef["c"]))
            hit = None
            if self.r.random() < self.s["when_merge"]:
                for g in groups:
                    if g[0] == key:
                        hit = g
            if hit is None:
                hit = [key, ef, [], self.bind(ef["forall"], refs[key], eqs[key]) if ef["forall"] else {}]
                groups.append(hit)
            self.scope.append(hit[3])
            try:
                hit[2].append(self.peff_core(ef))
            finally:
                self.scope.pop()
        parts = []
        for key, ef, cores, frame in groups:
            body = cores[0] if len(cores) == 1 else "(and %s)" % " ".join(cores)
            if ef["c"] != upj.TRUE_E:
                self.f("effect:when")
                if len(cores) > 1:
                    self.f("effect:when-and")
                self.scope.append(frame)
                try:
                    body = "(when %s %s)" % (self.pe(ef["c"]), body)
                finally:
                    self.scope.pop()
            elif len(cores) > 1:
                body = None  # an unconditional group is flattened (the third-party grammar has no nested and in effects)
            if ef["forall"]:
                self.f("effect:forall")
                if body is None:
                    body = "(and %s)" % " ".join(cores)
                    self.f("effect:forall-and")
                parts.append("(forall (%s) %s)" % (self.var_list(ef["forall"], "var", names=frame), body))
            elif body is None:
                parts += cores
            else:
                parts.append(body)
        parts += extra
        self.r.shuffle(parts) if self.s.get("shuffle_effects") else None
        if not parts:
            return None
        if len(parts) == 1 and self.r.random() >= self.s["single_and"]:
            return parts[0]
        if len(parts) == 1:
            self.f("redundant:(and x)")
        return "(and %s)" % " ".join(parts)

    # ---- domain ------------------------------------------------------------------------
    def requirements(self):
        P = self.P
        numeric = any(k != "bool" for k in self.ftype.values()) or P["metric"]["kind"] in ("costs", "length")
        if self.s["req"] == "adl":
            reqs = [":adl", ":typing"]
        elif self.s["req"] == "adl-only":
            reqs = [":adl"]
        elif self.s["req"] == "quantified":
            reqs = [":strips", ":typing", ":negative-preconditions", ":disjunctive-preconditions", ":equality",
                    ":quantified-preconditions", ":conditional-effects"]
        else:
            reqs = [":strips", ":typing", ":negative-preconditions", ":disjunctive-preconditions", ":equality",
                    ":existential-preconditions", ":universal-preconditions", ":conditional-effects"]
        self.feats.add("req:" + self.s["req"])
        if self.s["untyped"] and ":typing" in reqs:
            reqs.remove(":typing")
        if numeric:
            reqs.append(":numeric-fluents")
        if P["metric"]["kind"] in ("costs", "length"):
            reqs.append(":action-costs")
        return "(:requirements %s)" % " ".join(reqs)

    def used_in_domain(self):
        out = set()

        def visit(e):
            if e["op"] == "obj":
                out.add(e["name"])
            if e["op"] == "const" and e["v"]["k"] == "o":
                out.add(e["v"]["o"])
            for a in e["args"]:
                visit(a)

        for a in self.P["actions"]:
            for c in a["pre"]:
                visit(c)
            for ef in a["effects"]:
                visit(ef["v"])
                visit(ef["c"])
                for x in ef["f"]["args"]:
                    visit(x)
        for c in self.P["metric"]["costs"]:
            visit(c["c"])
        return out

    def cost_of(self, a):
        m = self.P["metric"]
        if m["kind"] == "length":
            return upj.E("const", v=upj.NV(1))
        if m["kind"] != "costs":
            return None
        for c in m["costs"]:
            if c["a"] == a["name"]:
                return c["c"]
        return None if m["default"]["op"] == "none" else m["default"]

    def domain(self):
        P, r, s = self.P, self.r, self.s
        L = ["(define (domain %s)" % self.nm("domain", "d")]
        if r.random() < s["comments"]:
            L.append("; generated text")
            self.feats.add("comment")
        L.append(" " + self.requirements())
        # types
        if not s["untyped"]:
            types = list(P["types"])
            if s["child_first"]:
                types = [t for t in types if t["parent"]] + [t for t in types if not t["parent"]]
                if types and types[0]["parent"]:
                    self.feats.add("types:child-before-parent")
            items = []
            for t in types:
                par = self.nm("type", t["parent"]) if t["parent"] else ("object" if s["object_root"] else None)
                if par == "object":
                    self.feats.add("types:explicit-object-root")
                items.append((self.nm("type", t["name"], decl=True), par))
            # untyped type names must come last
            items = [it for it in items if it[1] is not None] + [it for it in items if it[1] is None]
            L.append(" (:types %s)" % self.typed_list(items, "type"))
        else:
            self.feats.add("types:none")
        # constants
        used = self.used_in_domain()
        self.consts = [o for o in P["objects"] if o["name"] in used or r.random() < s["constants"]]
        if self.consts:
            self.feats.add("constants")
            items = [(self.nm("object", o["name"], decl=True), self.tname({"name": o["type"]})) for o in self.consts]
            L.append(" (:constants %s)" % self.typed_list(items, "object"))
        # predicates / functions
        preds = [f for f in P["fluents"] if f["type"]["k"] == "bool"]
        funcs = [f for f in P["fluents"] if f["type"]["k"] != "bool"]
        if preds:
            L.append(" (:predicates %s)" % " ".join(
                "(%s)" % " ".join([self.nm("fluent", f["name"], decl=True)] + ([self.var_list(f["sig"], "param")] if f["sig"] else []))
                for f in preds))
        fdecl = ["(%s)" % " ".join([self.nm("fluent", f["name"], decl=True)] + ([self.var_list(f["sig"], "param")] if f["sig"] else []))
                 for f in funcs]
        if P["metric"]["kind"] in ("costs", "length"):
            fdecl.insert(r.randint(0, len(fdecl)), "(total-cost)")
            self.feats.add("action-costs")
        if fdecl:
            if r.random() < s["function_type"]:
                L.append(" (:functions %s - number)" % " ".join(fdecl))
            else:
                self.feats.add("functions:without-number")
                L.append(" (:functions %s)" % " ".join(fdecl))
        # actions
        for a in P["actions"]:
            self.cur = self.afeats.setdefault(a["name"], set())
            self.params, self.scope = {}, []
            for p in a["params"]:
                pn = p["name"]
                if r.random() < s["odd_param"]:
                    k, n = r.choice(self.other_names())
                    if n not in {x for x, _ in self.params.values()}:
                        pn = n
                        self.f("scope:parameter-named-like-" + k)
                self.params[p["name"]] = (pn, p["type"]["name"])
            head = " (:action %s :parameters (%s)" % (self.nm("action", a["name"], decl=True),
                                                      self.var_list(a["params"], "param", objectify=True, names=self.params))
            pre = self.conj(a["pre"])
            if pre is None:
                if s["empty_pre"] == "paren":
                    self.f("pre:()")
                    pre = "()"
                elif s["empty_pre"] == "and":
                    self.f("pre:(and)")
                    pre = "(and)"
                else:
                    self.f("pre:omitted")
            extra = []
            c = self.cost_of(a)
            if c is not None:
                zero = c["op"] == "const" and c["v"]["k"] == "n" and c["v"]["n"] == 0
                if not zero or r.random() < s["cost_zero"]:
                    extra.append("(increase (total-cost) %s)" % self.pe(c))
                    if not (c["op"] == "const"):
                        self.f("cost:non-constant")
            eff = self.peffects(a["effects"], extra)
            if eff is None:
                self.f("eff:()")
                eff = "()"
            L.append(head + ("" if pre is None else "\n  :precondition " + pre) + "\n  :effect " + eff + ")")
            self.cur = self.feats
            self.params, self.scope = {}, []
        L.append(")")
        return "\n".join(L) + "\n"

    # ---- problem -----------------------------------------------------------------------
    def problem(self):
        P, r, s = self.P, self.r, self.s
        L = ["(define (problem %s) (:domain %s)" % (self.nm("problem", "pr"), self.nm("domain", "d"))]
        if r.random() < s["problem_req"]:
            L.append(" " + self.requirements())
            self.feats.add("problem:requirements")
        cn = {o["name"] for o in self.consts}
        objs = [o for o in P["objects"] if o["name"] not in cn]
        if objs or r.random() < 0.5:
            items = [(self.nm("object", o["name"], decl=True), self.tname({"name": o["type"]})) for o in objs]
            L.append(" (:objects %s)" % self.typed_list(items, "object"))
            if not objs:
                self.feats.add("objects:empty")
        else:
            self.feats.add("objects:omitted")
        # intended initial values (structure: explicit entry, else the default)
        explicit = {(i["f"], tuple(a["o"] for a in i["args"])): i["v"] for i in P["init"]}
        dflt = {f["name"]: f["default"] for f in P["fluents"]}
        init = []
        for name, args in upj.keys_of(P):
            v = explicit.get((name, tuple(args)), dflt[name])
            atom = "(%s)" % " ".join([self.nm("fluent", name)] + [self.nm("object", a) for a in args])
            if v["k"] == "b":
                if v["b"]:
                    init.append(atom)
                elif r.random() < s["neg_init"]:
                    self.feats.add("init:negative-literal")
                    init.append("(not %s)" % atom)
            elif v["k"] == "n":
                if r.random() < s["undef_num"] or (s.get("undef_first") and "init:numeric-fluent-without-value" not in self.feats):
                    self.feats.add("init:numeric-fluent-without-value")
                    continue
                if not args and r.random() < s["bare"]:
                    self.feats.add("init:bare-0-ary-function")
                    atom = self.nm("fluent", name)
                init.append("(= %s %s)" % (atom, self.pnum(Fraction(v["n"], v["d"]), init=True)))
            else:
                self.feats.add("init:numeric-fluent-without-value")
        if P["metric"]["kind"] in ("costs", "length"):
            init.insert(r.randint(0, len(init)), "(= (total-cost) 0)")
        r.shuffle(init)
        L.append(" (:init %s)" % " ".join(init))
        g = self.conj(P["goals"])
        L.append(" (:goal %s)" % (g if g is not None else "(and)"))
        m = P["metric"]
        if m["kind"] in ("costs", "length"):
            L.append(" (:metric minimize %s)" % ("total-cost" if r.random() < s["metric_bare"] else "(total-cost)"))
        elif m["kind"] in ("minfinal", "maxfinal"):
            self.feats.add("metric:" + m["kind"])
            L.append(" (:metric %s %s)" % ("minimize" if m["kind"] == "minfinal" else "maximize", self.pe(m["expr"])))
        L.append(")")
        return "\n".join(L) + "\n"


# ----------------------------------------------------------------------------------------
# styles: one main slice inside the (probed) common fragment + slices around its border
# ----------------------------------------------------------------------------------------
def pick_style(rng, slice_, i=0):
    s = default_style()
    s["req"] = rng.choice(["list", "list", "adl", "quantified"])
    s["lists"] = rng.choice(["grouped", "single", "mixed", "mixed"])
    s["object_root"] = rng.random() < 0.3
    s["child_first"] = rng.random() < 0.4
    s["empty_pre"] = "and"
    s["neg"] = "unary"
    s["bare"] = rng.choice([0.0, 0.0, 0.5])
    s["flip"] = rng.choice([0.0, 0.5, 1.0])
    s["nest"] = rng.choice([0.0, 0.3, 0.8])
    s["single_and"] = rng.choice([0.0, 0.3, 1.0])
    # name reuse (legal PDDL the writer never emits): everywhere now and then, always in the dedicated slice
    s["shadow"] = 1.0 if slice_ == "scope" else rng.choice([0.0, 0.0, 0.5])
    s["odd_param"] = rng.choice([0.0, 0.0, 0.3])
    if slice_ == "known":
        s["shadow"] = s["odd_param"] = 0.0  # a disagreement caused by name reuse must not hide behind a known signature
    if slice_ == "case":
        s["case"] = rng.choice(["upper", "mixed-consistent", "mixed-consistent", "inconsistent"])
    elif slice_ in ("border", "known"):
        kinds = BORDER if slice_ == "border" else KNOWN
        k = kinds[i % len(kinds)]
        if k == "empty-pre-paren":
            s["empty_pre"] = "paren"
        elif k == "empty-pre-omit":
            s["empty_pre"] = "omit"
        elif k == "untyped":
            s["untyped"] = True
        elif k == "obj-param":
            s["obj_param"] = 0.6
            s["object_root"] = True
        elif k == "undef-num":
            s["undef_num"] = 0.4
        elif k == "neg-literal":
            s["neg"] = "literal"
        elif k == "binary-minus":
            s["neg"] = "binary"
        elif k == "neg-init":
            s["neg_init"] = 0.4
        elif k == "adl-only":
            s["req"] = "adl-only"
        elif k == "metric-bare":
            s["metric_bare"] = 1.0
        elif k == "bare-in-eq":
            s["bare"], s["bare_in_eq"] = 0.7, True
        s["border"] = k
    return s


# surface forms at the border of the common fragment: (mostly) rejected by one of the readers
BORDER = ["empty-pre-omit", "untyped", "obj-param", "neg-literal", "neg-init", "adl-only", "metric-bare", "bare-in-eq", "binary-minus", "rich-goal"]
# surface forms inside the common fragment on which the two readers are known to disagree (one dedicated kind each, so that
# the main slices stay free of them and a new disagreement is not hidden behind a known signature)
KNOWN = ["empty-pre-paren", "undef-num", "dup-operand", "dec", "dup-effect"]


def _map_consts(P, fn):
    """P with every numeric constant c replaced by fn(c) (structure only)"""
    def val(v):
        if v["k"] == "n":
            return upj.NV(fn(Fraction(v["n"], v["d"])))
        return v

    def ex(e):
        out = dict(e)
        out["args"] = [ex(a) for a in e["args"]]
        if e["op"] == "const":
            out["v"] = val(e["v"])
        return out

    Q = dict(P)
    Q["fluents"] = [dict(f, default=val(f["default"])) for f in P["fluents"]]
    Q["init"] = [dict(i, v=val(i["v"])) for i in P["init"]]
    Q["actions"] = [dict(a, pre=[ex(c) for c in a["pre"]],
                         effects=[dict(ef, v=ex(ef["v"]), c=ex(ef["c"]), f=dict(ef["f"], args=[ex(x) for x in ef["f"]["args"]]))
                                  for ef in a["effects"]]) for a in P["actions"]]
    Q["goals"] = [ex(g) for g in P["goals"]]
    m = P["metric"]
    Q["metric"] = dict(m, costs=[dict(c, c=ex(c["c"])) for c in m["costs"]], default=ex(m["default"]), expr=ex(m["expr"]))
    return Q


def make_texts(rng, counts):
    """[(slice, seed problem, domain text, problem text, text features, per-action features)]"""
    out = []
    for slice_, n in counts:
        for i in range(n):
            numeric = slice_ == "num" or (slice_ in ("case", "border", "known", "scope") and rng.random() < 0.5)
            style = pick_style(rng, slice_, i)
            b = style.get("border", "")
            if b in ("undef-num", "neg-literal", "binary-minus", "bare-in-eq", "metric-bare", "dup-operand", "dec", "dup-effect"):
                numeric = True
            g = SeedGen(rng, plain_goal=0.0 if b == "rich-goal" else 1.0, keep_minus=b == "binary-minus", allow_dup=b == "dup-operand",
                        scoped=slice_ == "scope",
                        **dict(MASK, numeric=numeric, metric="any" if (rng.random() < 0.6 or b == "metric-bare") else None,
                               op_bias={"exists": 2, "forall": 2} if slice_ == "scope" else None))
            P = g.problem()
            if style["untyped"] and len(P["types"]) != 1:
                style["untyped"] = False
            # initial values: the third-party grammar has unsigned numbers only
            P = dict(P)
            if style["neg"] != "literal":
                P["fluents"] = [dict(f, default=upj.NV(abs(Fraction(f["default"]["n"], f["default"]["d"]))) if f["default"]["k"] == "n" else f["default"])
                                for f in P["fluents"]]
                P["init"] = [dict(x, v=upj.NV(abs(Fraction(x["v"]["n"], x["v"]["d"]))) if x["v"]["k"] == "n" else x["v"]) for x in P["init"]]
            if b == "dec":
                # decimals that are not dyadic rationals
                table = {Fraction(1, 2): Fraction(1, 10), Fraction(3, 2): Fraction(3, 10), Fraction(5, 2): Fraction(7, 5), Fraction(2): Fraction(1, 5)}
                P = _map_consts(P, lambda c: table.get(c, c) if c >= 0 else -table.get(-c, -c))
                if not any(Fraction(x["s"]).denominator in (5, 10) for x in _consts(P)):
                    nums = [j for j, x in enumerate(P["init"]) if x["v"]["k"] == "n"]
                    if not nums:
                        continue
                    P["init"] = list(P["init"])
                    P["init"][nums[0]] = dict(P["init"][nums[0]], v=upj.NV(Fraction(1, 10)))
            if b == "dup-operand":
                # at least one (+ v v) / (* v v)
                spots = [(ai, ei) for ai, a in enumerate(P["actions"]) for ei, ef in enumerate(a["effects"])
                         if g.fluent(ef["f"]["name"])["type"]["k"] != "bool"]
                if not spots:
                    continue
                ai, ei = rng.choice(spots)
                acts = [dict(a, effects=list(a["effects"])) for a in P["actions"]]
                v = acts[ai]["effects"][ei]["v"]
                acts[ai]["effects"][ei] = dict(acts[ai]["effects"][ei], v=upj.E(rng.choice(["plus", "times"]), [v, v]))
                P["actions"] = acts
            # the same increase / decrease written twice in one action: kept for its dedicated kind only
            acts = []
            for a in P["actions"]:
                effs, seen = [], set()
                for ef in a["effects"]:
                    if repr(ef) in seen and ef["kind"] != "assign":
                        continue
                    seen.add(repr(ef))
                    effs.append(ef)
                acts.append(dict(a, effects=effs))
            P["actions"] = acts
            if b == "dup-effect":
                spots = [(ai, ei) for ai, a in enumerate(P["actions"]) for ei, ef in enumerate(a["effects"]) if ef["kind"] != "assign"]
                if not spots:
                    continue
                ai, ei = rng.choice(spots)
                acts = [dict(a, effects=list(a["effects"])) for a in P["actions"]]
                acts[ai]["effects"].append(acts[ai]["effects"][ei])
                P["actions"] = acts
            if b == "empty-pre-paren":
                P["actions"] = [dict(a, pre=[]) if j == 0 else a for j, a in enumerate(P["actions"])]
            if b == "undef-num":
                style["undef_first"] = True
            pr = Printer(P, rng, style)
            try:
                dom = pr.domain()
                prob = pr.problem()
            except ValueError:
                continue
            out.append((slice_ + (":" + b if b else ""), P, dom, prob, sorted(pr.feats), {a: sorted(fs) for a, fs in pr.afeats.items()}))
    return out


# ----------------------------------------------------------------------------------------
# shipped PDDL files
# ----------------------------------------------------------------------------------------
def shipped_pairs():
    dirs = sorted({os.path.dirname(p) for p in glob.glob(os.path.join(REPO, "unified_planning/test/pddl/**/*.pddl"), recursive=True)}
                  | {os.path.dirname(p) for p in glob.glob(os.path.join(REPO, "up_test_cases/**/*.pddl"), recursive=True)})
    out = []
    for d in dirs:
        fs = sorted(glob.glob(os.path.join(d, "*.pddl")))
        doms = [f for f in fs if "domain" in os.path.basename(f).lower()]
        for dom in doms:
            for pr in fs:
                if pr not in doms:
                    out.append((dom, pr))
    return out


# ----------------------------------------------------------------------------------------
# running the real code
# ----------------------------------------------------------------------------------------
READERS = (("up", dict(force_up_pddl_reader=True)), ("ai", dict(force_ai_planning_reader=True)))


def _exc(ex):
    return type(ex).__name__


def _msg(ex):
    return re.sub(r"\s+", " ", str(ex))[:240]


VAR = "?"  # a unified-planning Variable and a Parameter of one name are different things (a ParameterExp inside a quantifier binding
           # a Variable of its name still refers to the parameter); the specification's expressions have ONE environment for both
           # (UPExpr!Eval: env[e.name]), so bound variables are projected into a name space of their own (injective renaming,
           # applied to both readers' results alike)


def _lower_expr(e):
    name = e["name"].lower() if e["op"] in ("obj", "fluent", "param", "var") else e["name"]
    out = {"op": e["op"], "args": [_lower_expr(a) for a in e["args"]], "name": VAR + name if e["op"] == "var" else name,
           "v": _lower_val(e["v"]), "vars": [_lower_bound(v) for v in e["vars"]]}
    return out


def _lower_bound(v):
    return {"name": VAR + v["name"].lower(), "type": _lower_type(v["type"])}


def _lower_val(v):
    return {"k": "o", "o": v["o"].lower()} if v["k"] == "o" else v


def _lower_type(t):
    return {"k": "user", "name": t["name"].lower()} if t["k"] == "user" else t


def _lower_var(v):
    return {"name": v["name"].lower(), "type": _lower_type(v["type"])}


def _lower_eff(ef):
    return {"kind": ef["kind"], "f": {"name": ef["f"]["name"].lower(), "args": [_lower_expr(a) for a in ef["f"]["args"]]},
            "v": _lower_expr(ef["v"]), "c": _lower_expr(ef["c"]), "forall": [_lower_bound(v) for v in ef["forall"]]}


def lower_upj(P):
    """P with every identifier lower-cased (the only renaming C21 applies: PDDL is case-insensitive)"""
    Q = dict(P)
    Q["types"] = [{"name": t["name"].lower(), "parent": t["parent"].lower()} for t in P["types"]]
    Q["objects"] = [{"name": o["name"].lower(), "type": o["type"].lower()} for o in P["objects"]]
    Q["fluents"] = [{"name": f["name"].lower(), "type": _lower_type(f["type"]), "sig": [_lower_var(p) for p in f["sig"]],
                     "default": _lower_val(f["default"])} for f in P["fluents"]]
    Q["init"] = [{"f": i["f"].lower(), "args": [_lower_val(a) for a in i["args"]], "v": _lower_val(i["v"])} for i in P["init"]]
    Q["actions"] = [dict(a, name=a["name"].lower(), params=[_lower_var(p) for p in a["params"]], pre=[_lower_expr(c) for c in a["pre"]],
                         effects=[_lower_eff(e) for e in a["effects"]]) for a in P["actions"]]
    Q["goals"] = [_lower_expr(g) for g in P["goals"]]
    m = P["metric"]
    Q["metric"] = {"kind": m["kind"], "costs": [{"a": c["a"].lower(), "c": _lower_expr(c["c"])} for c in m["costs"]],
                   "default": _lower_expr(m["default"]), "expr": _lower_expr(m["expr"]),
                   "goals": [{"g": _lower_expr(g["g"]), "w": g["w"]} for g in m["goals"]]}
    return Q


def _consts(P):
    """all numeric constants of a projected problem as 'n/d' strings of their absolute values + a flag for those TLC's
    integers cannot hold (structure only)"""
    out = {}

    def val(v):
        if v["k"] == "n":
            out["%d/%d" % (abs(v["n"]), v["d"])] = abs(v["n"]) > simobs.MAG or v["d"] > simobs.MAG

    def ex(e):
        if e["op"] == "const":
            val(e["v"])
        for a in e["args"]:
            ex(a)

    for f in P["fluents"]:
        val(f["default"])
    for i in P["init"]:
        val(i["v"])
    for a in P["actions"]:
        for c in a["pre"]:
            ex(c)
        for ef in a["effects"]:
            ex(ef["v"])
            ex(ef["c"])
    for g in P["goals"]:
        ex(g)
    m = P["metric"]
    for c in m["costs"]:
        ex(c["c"])
    ex(m["default"])
    ex(m["expr"])
    return [{"s": k, "big": out[k]} for k in sorted(out)]


def _has_case(P):
    s = repr([P["types"], P["objects"], [f["name"] for f in P["fluents"]], [(a["name"], a["params"]) for a in P["actions"]]])
    return s != s.lower()


def _safe_depth(problem, P, D, maxga=4000, cap=400):
    """largest depth <= D to which every value reachable in A stays within TLC's integer range (a guard of the
    machinery computed with the simulator, not a verdict)"""
    from unified_planning.engines.sequential_simulator import UPSequentialSimulator

    keys = upj.keys_of(P)
    gas = ground_actions(P)
    if len(gas) > maxga or len(keys) > 1500:
        return -1
    try:
        sim = UPSequentialSimulator(problem, error_on_failed_checks=False)
        s0 = sim.get_initial_state()
        vec0 = upj.state_vector(s0, problem, keys)
        if simobs._big(vec0):
            return -1
        if len(gas) > 400:
            return 0
        acts = [(problem.action(g["a"]), simobs._params(problem, problem.action(g["a"]), g["args"])) for g in gas]
        seen = {repr(vec0)}
        frontier = [s0]
        safe = 0
        for depth in range(1, D + 1):
            nxt = []
            for st in frontier:
                for a, params in acts:
                    try:
                        ns = sim.apply(st, a, params)
                    except Exception:
                        sim = UPSequentialSimulator(problem, error_on_failed_checks=False)
                        ns = None
                    if ns is None:
                        continue
                    vec = upj.state_vector(ns, problem, keys)
                    if simobs._big(vec):
                        return safe
                    kx = repr(vec)
                    if kx not in seen:
                        seen.add(kx)
                        nxt.append(ns)
            safe = depth
            if not nxt:
                return D
            if len(seen) > cap:
                return safe
            frontier = nxt
        return safe
    except Exception:
        return 0


def read_both(dom_file, prob_file, D, maxga=4000, limit=60):
    """both readers on one pair of files -> {reader: record}"""
    from unified_planning.io import PDDLReader

    out = {}
    for rname, kw in READERS:
        R = {"rexc": "none", "rmsg": "", "rwhere": "", "P": None, "case": False, "safe": 0}
        q = None
        try:
            with warnings.catch_warnings():
                warnings.simplefilter("ignore")
                q = call_limited(lambda: PDDLReader(**kw).parse_problem(dom_file, prob_file), limit)
        except ImplTimeout:
            R["rexc"] = "TIMEOUT"
        except Exception as ex:
            R["rexc"], R["rmsg"] = _exc(ex), _msg(ex)
            tb = traceback.extract_tb(ex.__traceback__)
            R["rwhere"] = ">".join("%s:%s" % (os.path.basename(f.filename), f.name) for f in tb[-3:])
        finally:
            import sys
            if getattr(sys, "tracebacklimit", None) == 0:  # the third-party parser leaves it at 0 when it raises
                del sys.tracebacklimit
        if q is not None:
            try:
                with time_limit(limit):
                    raw = upj.project(q)
                R["case"] = _has_case(raw)
                R["P"] = lower_upj(raw)
                upj.keys_of(R["P"])
            except ImplTimeout:
                R["rexc"] = "PROJECT:TIMEOUT"
                R["P"] = None
            except Exception as ex:
                R["rexc"], R["rmsg"] = "PROJECT:" + _exc(ex), _msg(ex)
                R["P"] = None
            if R["P"] is not None and rname == "up":
                try:
                    with time_limit(120):
                        R["safe"] = _safe_depth(q, raw, D, maxga)
                except ImplTimeout:
                    R["safe"] = 0
        out[rname] = R
    return out


def worker(job):
    cid, slice_, dom, prob, workdir, D, maxga = job
    rec = {"cid": cid, "skip": ""}
    try:
        if slice_ == "shipped":
            df, pf = dom, prob
        else:
            df = os.path.join(workdir, "d%d.pddl" % cid)
            pf = os.path.join(workdir, "p%d.pddl" % cid)
            with open(df, "w") as fh:
                fh.write(dom)
            with open(pf, "w") as fh:
                fh.write(prob)
        rec["reads"] = read_both(df, pf, D, maxga)
    except Exception as ex:
        rec["skip"] = "HARNESS:" + _exc(ex)
        rec["detail"] = traceback.format_exc()[-1500:]
    return rec


# ----------------------------------------------------------------------------------------
# judging (TLC)
# ----------------------------------------------------------------------------------------
def _stage(R):
    return "convert" if "from_pddl.py" in R.get("rwhere", "") else "parse"


def judge_fragment(ctx, recs):
    """PddlReaders: -> (cids to bisimulate, fails [(cid, clause, detail)], tallies {cid: [tally]})"""
    rows = []
    for rec in recs:
        up, ai = rec["reads"]["up"], rec["reads"]["ai"]
        rows.append({"cid": rec["cid"], "up": {"exc": up["rexc"], "stage": _stage(up)}, "ai": {"exc": ai["rexc"], "stage": _stage(ai)},
                     "anums": _consts(up["P"]) if up["P"] else [], "bnums": _consts(ai["P"]) if ai["P"] else [],
                     "safe": up["safe"], "acase": up["case"], "bcase": ai["case"]})
    d = ctx.sub("fragment")
    path = os.path.join(d, "batch.ndjson")
    tlc.write_ndjson(path, rows)
    res = tlc.run_tlc("PddlReaders", CFG, d, env={"BATCH": path}, workers=8, timeout=1500, heap="4g")
    if res.error or res.violated:
        raise MachineryError("PddlReaders failed: %s %s" % (res.violated, (res.error or "")[-3000:]))
    if res.distinct != len(rows):
        raise MachineryError("PddlReaders consumed %d of %d records" % (res.distinct, len(rows)))
    ctx.add_tlc("PddlReaders", res)
    todo, fails, tallies = set(), [], {}
    for p in res.printed:
        if not p:
            continue
        if p[0] == "B":
            todo.add(p[1])
        elif p[0] == "FAIL":
            if (p[1], p[2], p[3]) not in fails:
                fails.append((p[1], p[2], p[3]))
        elif p[0] == "T":
            if p[2] not in tallies.setdefault(p[1], []):
                tallies[p[1]].append(p[2])
    return todo, fails, tallies


def judge_bisim(ctx, recs, todo, D):
    """Bisim on the pairs PddlReaders selected (one batch, per-pair depth bound) -> fails [(cid, clause, action)]"""
    batch = []
    for rec in recs:
        if rec["cid"] not in todo:
            continue
        up, ai = rec["reads"]["up"], rec["reads"]["ai"]
        d = D if up["safe"] >= D else min(up["safe"], 0 if ctx.quick else 1)
        batch.append({"cid": rec["cid"], "A": up["P"], "B": ai["P"], "akeys": upj.keys_of(up["P"]), "bkeys": upj.keys_of(ai["P"]),
                      "depth": D, "own_depth": d, "length_as_unit_costs": True, "final_value_metric": True})
    fails, n = [], len(batch)
    d = ctx.sub("bisim")
    path = os.path.join(d, "batch.ndjson")
    tlc.write_ndjson(path, batch)
    res = tlc.run_tlc("Bisim", CFG_BISIM, d, env={"BATCH": path}, workers=8, timeout=3000, heap="6g")
    if res.error or res.violated:
        raise MachineryError("Bisim failed: %s %s" % (res.violated, (res.error or "")[-3000:]))
    m = re.search(r"Finished computing initial states: (\d+) distinct state", res.stdout)
    if not m or int(m.group(1)) != len(batch):
        raise MachineryError("Bisim started from %s of %d pairs" % (m.group(1) if m else "?", len(batch)))
    ctx.add_tlc("Bisim", res)
    seen = set()
    for p in res.printed:
        if p and p[0] == "FAIL":
            k = (p[1], p[2], p[3])
            if k not in seen:
                seen.add(k)
                fails.append(k)
    return fails, n


# clause family -> the surface-form features a signature is keyed on (when present in the text; for the clauses about one
# action: in the text-level features or in that action's features)
DIVERGENT = ["pre:()", "arith:repeated-operand", "effect:repeated-additive-effect", "num:non-dyadic-decimal", "init:numeric-fluent-without-value"]
ACTION_CLAUSES = ("applicability", "successor-differs", "action-cost-differs")


def signature(clause, feats, afeats, action):
    if clause.startswith(ACTION_CLAUSES):
        have = set(feats) | set(afeats.get(action, []))
    else:
        have = set(feats)
        for fs in afeats.values():
            have |= set(fs)
    keep = [f for f in DIVERGENT if f in have]
    return "%s%s" % (clause, ("|" + ",".join(keep)) if keep else "")


def text_features(dom_file, prob_file):
    """syntactic features of a shipped pair (the same names the printer records for its own texts)"""
    fs = {"shipped"}
    try:
        txt = open(dom_file, encoding="utf-8-sig").read() + "\n" + open(prob_file, encoding="utf-8-sig").read()
    except OSError:
        return sorted(fs)
    txt = re.sub(r";[^\n]*", "", txt)
    for m in re.finditer(r"(?<![\w.-])(\d+\.\d+)(?![\w.])", txt):
        d = Fraction(m.group(1)).denominator
        if d & (d - 1):
            fs.add("num:non-dyadic-decimal")
    if re.search(r":precondition\s*\(\s*\)", txt):
        fs.add("pre:()")
    return sorted(fs)


def run(ctx):
    import time
    t0 = time.time()
    phases = {}
    q = ctx.quick
    counts = [("cls", 18), ("num", 22), ("scope", 8), ("case", 6), ("border", 10), ("known", 10)] if q else \
             [("cls", 300), ("num", 420), ("scope", 120), ("case", 80), ("border", 100), ("known", 80)]
    D = 3 if q else 4
    texts = make_texts(ctx.rng, counts)
    work = ctx.sub("texts")
    maxga = 150 if q else 4000
    jobs = [(i + 1, sl, dom, prob, work, D, maxga) for i, (sl, P, dom, prob, feats, af) in enumerate(texts)]
    meta = {i + 1: {"slice": sl, "seed": P, "domain_pddl": dom, "problem_pddl": prob, "features": feats, "action_features": af}
            for i, (sl, P, dom, prob, feats, af) in enumerate(texts)}
    ship = shipped_pairs()
    if q:
        # quick tier: one problem per shipped domain
        seen, keep = set(), []
        for dom, pr in ship:
            if dom not in seen:
                seen.add(dom)
                keep.append((dom, pr))
        ship = keep
    for dom, pr in ship:
        cid = len(jobs) + 1
        jobs.append((cid, "shipped", dom, pr, work, 1, maxga))
        meta[cid] = {"slice": "shipped", "seed": None, "domain_pddl": dom, "problem_pddl": pr, "features": text_features(dom, pr), "action_features": {}}
    phases["generate"] = round(time.time() - t0, 1)
    with Pool(NPROC, maxtasksperchild=40) as pool:
        recs = pool.map(worker, jobs, chunksize=2)
    phases["read"] = round(time.time() - t0, 1)
    for r in recs:
        if r["skip"]:
            raise MachineryError("driver error: %s" % r.get("detail"))
    todo, fails1, tallies = judge_fragment(ctx, recs)
    phases["fragment"] = round(time.time() - t0, 1)
    fails2, nb = judge_bisim(ctx, recs, todo, D) if todo else ([], 0)
    phases["bisim"] = round(time.time() - t0, 1)
    ctx.cov["phase_end_s"] = phases
    by = {r["cid"]: r for r in recs}
    for (cid, clause, detail) in fails1 + fails2:
        m = meta[cid]
        rec = by[cid]
        sig = signature(clause, m["features"], m["action_features"], detail)
        ctx.violation(sig, "C21 readers disagree: %s %s" % (clause, detail),
                      {"clause": clause, "detail": detail, "slice": m["slice"], "features": m["features"], "action_features": m["action_features"],
                       "domain_pddl": m["domain_pddl"], "problem_pddl": m["problem_pddl"],
                       "A_up_reader": rec["reads"]["up"]["P"], "B_ai_reader": rec["reads"]["ai"]["P"]})
    tally = {}
    for cid, ts in tallies.items():
        for t in ts:
            tally[t] = tally.get(t, 0) + 1
    per_slice = {}
    for rec in recs:
        sl = meta[rec["cid"]]["slice"]
        up, ai = rec["reads"]["up"], rec["reads"]["ai"]
        k = "both" if up["rexc"] == "none" and ai["rexc"] == "none" else ("ai-only" if ai["rexc"] == "none" else ("up-only" if up["rexc"] == "none" else "none"))
        per_slice.setdefault(sl, {}).setdefault(k, 0)
        per_slice[sl][k] += 1
    why = {}
    for rec in recs:
        for rn in ("up", "ai"):
            R = rec["reads"][rn]
            if R["rexc"] != "none":
                k = "%s:%s:%s" % (rn, R["rexc"], re.sub(r"[0-9]+|'[^']*'|\"[^\"]*\"", "_", R["rmsg"])[:70])
                why[k] = why.get(k, 0) + 1
    forms = {}
    for cid in todo:
        for f in meta[cid]["features"] + sorted({x for fs in meta[cid]["action_features"].values() for x in fs}):
            forms[f] = forms.get(f, 0) + 1
    # vacuity guard (machinery, not a verdict): the main slices are printed inside the probed common fragment
    main = [r for r in recs if meta[r["cid"]]["slice"] in ("cls", "num", "scope")]
    both = [r for r in main if r["reads"]["up"]["rexc"] == "none" and r["reads"]["ai"]["rexc"] == "none"]
    if len(both) * 2 < len(main):
        raise MachineryError("vacuous run: only %d of %d texts of the main slices are accepted by both readers: %r"
                             % (len(both), len(main), dict(sorted(why.items(), key=lambda kv: -kv[1])[:5])))
    ctx.cov["evaluations"] = len(recs)
    ctx.cov["traces_validated_against_impl"] = nb
    ctx.cov["distinct_nontrivial"] = nb
    ctx.cov["unspecified"] += sum(1 for ts in tallies.values() if "unjudgeable-too-large" in ts)
    ctx.cov["texts"] = {}
    for m in meta.values():
        ctx.cov["texts"][m["slice"]] = ctx.cov["texts"].get(m["slice"], 0) + 1
    ctx.cov["accepted_by"] = per_slice
    ctx.cov["bisimulated_pairs"] = nb
    ctx.cov["tallies"] = tally
    ctx.cov["rejections"] = dict(sorted(why.items(), key=lambda kv: -kv[1])[:40])
    ctx.cov["surface_forms_in_bisimulated_texts"] = forms
    ctx.cov["shipped_pairs_in_common_fragment"] = sorted(
        os.path.relpath(meta[c]["problem_pddl"], REPO) for c in todo if meta[c]["slice"] == "shipped")
    ctx.cov["rule"] = (
        "PDDL texts printed by the harness's own printer from G2 seeds (classical, numeric, name-reuse / scoping, mixed-case, "
        "border-of-the-fragment and non-dyadic-decimal slices) + the shipped .pddl pairs; one evaluation = one text given to both readers and classified by TLC "
        "(PddlReaders); non-trivial = texts both readers accept, compared by Bisim on every state reachable within depth %d "
        "(shipped pairs: depth <= 1)." % D)
    ex = next((r for r in recs if r["cid"] in todo), recs[0])
    ctx.sample({"domain_pddl": meta[ex["cid"]]["domain_pddl"], "problem_pddl": meta[ex["cid"]]["problem_pddl"],
                "features": meta[ex["cid"]]["features"]})
    ctx.assumptions += [
        "TLC, the Json reader, harness/upj.py (projection, structure only) and the lower-casing of identifiers in the driver are trusted",
        "the PDDL text is not modelled: only behavioural equivalence of the two readers' results is decided; which reader is right "
        "w.r.t. PDDL semantics is triaged by hand (notes/C21.md)",
        "texts the third-party based reader rejects are outside the common fragment (tallied with the reason), texts only the UP reader "
        "rejects are tallied as information",
        "identifiers of a text never differ only in letter case (PDDL would make them equal)",
        "bound variables are projected into a name space of their own ('?' + name): a unified-planning Variable and a Parameter of the "
        "same name are different objects, the specification's Eval has one environment for both",
    ]
