"""C28 -- timed-to-sequential plans convert back to valid temporal plans.

Durative problems inside TimedToSequential.supported_kind() (TGen with a mask: start/end/over-all
conditions, start/end effects, constant and fluent-dependent closed/open duration intervals) -> real
compile() -> compiled plans (all short sequences of compiled ground actions + simulator walks) ->
real plan_back_conversion -> spec/TimedToSeqJudge.tla: SeqVerdict(compiled, plan) = VALID implies the
conversion does not raise and TimeVerdict(original, converted plan) = VALID.
"""
import itertools
import os
import random
from fractions import Fraction
from multiprocessing import Pool

from .. import tlc, upj, simobs, timeobs
from ..common import MachineryError, time_limit, ImplTimeout, call_limited
from ..gen import TGen, ground_actions
from . import c03

CFG = "SPECIFICATION Spec\nINVARIANT Judge\n"
MASK = dict(intermediate=False, timed=False, conditional=False, invariants=False, inst_actions=True, quantifiers=True,
            forall_eff=False, bool_expr_assign=True)


def dur_features(P, steps):
    acts = {a["name"]: a for a in P["actions"]}
    fs = set()
    for st in steps:
        a = acts[st["a"]]
        if a["kind"] == "dur":
            if a["dur"]["lopen"]:
                fs.add("lopen")
            if a["dur"]["ropen"]:
                fs.add("ropen")
            if a["dur"]["lo"]["op"] != "const" or a["dur"]["hi"]["op"] != "const":
                fs.add("fluentdur")
    return sorted(fs)


def _fluent_occurrences(e, out):
    if e["op"] == "fluent":
        out.append((e["name"], repr(e["args"])))
    for a in e.get("args", []):
        _fluent_occurrences(a, out)


def alias_feature(P, steps):
    """a start effect writes F(args) while an end-time condition / effect of the same action reads F with
    syntactically different arguments (they may denote the same ground fluent)"""
    acts = {a["name"]: a for a in P["actions"]}
    for st in steps:
        a = acts[st["a"]]
        if a["kind"] != "dur":
            continue
        starts = [(e["e"]["f"]["name"], repr(e["e"]["f"]["args"])) for e in a["effects"] if e["t"]["from"] == "start"]
        reads = []
        for c in a["conds"]:
            if c["iv"]["hi"]["from"] == "end" or c["iv"]["lo"]["from"] == "end":
                _fluent_occurrences(c["c"], reads)
        for e in a["effects"]:
            if e["t"]["from"] == "end":
                _fluent_occurrences(e["e"]["v"], reads)
                _fluent_occurrences(e["e"]["c"], reads)
        for (n, ar) in starts:
            if any(n == rn and ar != rar for (rn, rar) in reads):
                return ["alias"]
    return []


def overwrite_feature(P, steps):
    """a start-time effect writes a BOUNDED numeric fluent that an end-time effect of the same action writes again
    (the state between the two effects exists in the temporal plan only)"""
    acts = {a["name"]: a for a in P["actions"]}
    bounded = {f["name"] for f in P["fluents"] if f["type"]["k"] in ("int", "real") and (f["type"]["lo"]["k"] != "none" or f["type"]["hi"]["k"] != "none")}
    for st in steps:
        a = acts[st["a"]]
        if a["kind"] != "dur":
            continue
        starts = {e["e"]["f"]["name"] for e in a["effects"] if e["t"]["from"] == "start"}
        ends = {e["e"]["f"]["name"] for e in a["effects"] if e["t"]["from"] == "end"}
        if starts & ends & bounded:
            return ["start-and-end-effect-on-bounded-fluent"]
    return []


def worker(job):
    cid, P, L, cap, seed = job
    from unified_planning.engines.compilers.timed_to_sequential import TimedToSequential
    from unified_planning.engines.mixins.compiler import CompilationKind
    from unified_planning.engines.plan_validator import SequentialPlanValidator
    from unified_planning.model import DurativeAction

    rng = random.Random(seed)
    rec = {"cid": cid, "P": P, "pkeys": upj.keys_of(P), "Q": None, "qkeys": [], "plans": [], "skip": "", "raised": "none"}
    try:
        with time_limit(30):
            problem = upj.build(P)
        if not TimedToSequential.supports(problem.kind):
            rec["skip"] = "unsupported-kind"
            return rec
    except ImplTimeout:
        rec["skip"] = "timeout"
        return rec
    except Exception as ex:
        rec["skip"] = "build:" + type(ex).__name__
        return rec
    try:
        res = call_limited(lambda: TimedToSequential().compile(problem, CompilationKind.TIMED_TO_SEQUENTIAL), 40, 8)
        q = res.problem
        Q = upj.project(q)
    except ImplTimeout:
        rec["raised"] = "TIMEOUT"
        return rec
    except Exception as ex:
        rec["raised"] = type(ex).__name__
        rec["detail"] = str(ex)[:200]
        return rec
    rec["Q"] = Q
    rec["qkeys"] = upj.keys_of(Q)
    try:
        with time_limit(90):
            cands = c03._plans(Q, q, rng, L, cap)
    except ImplTimeout:
        rec["skip"] = "plans-timeout"
        return rec
    for pl in cands:
        if not pl:
            continue
        sp = timeobs.build_seq_plan(q, pl)
        st, _, _ = timeobs.validate(SequentialPlanValidator, q, sp)
        if st != "VALID":
            continue  # pre-filter only: validity of the compiled plan is decided by TLC
        r = {"pi": pl, "tau": [], "exc": "none"}
        try:
            tt = call_limited(lambda: res.plan_back_conversion(sp), 30, 8)
            for (t, ai, d) in tt.timed_actions:
                r["tau"].append({"a": ai.action.name, "args": [upj.p_const(x) for x in ai.actual_parameters],
                                 "t": upj.NV(Fraction(t)), "d": upj.NV(Fraction(d) if d is not None else 0)})
        except ImplTimeout:
            r["exc"] = "TIMEOUT"
        except Exception as ex:
            r["exc"] = type(ex).__name__
            r["detail"] = str(ex)[:200]
        rec["plans"].append(r)
        if len(rec["plans"]) >= 25:
            break
    return rec


def run(ctx):
    q = ctx.quick
    n = 220 if q else 2500
    L = 3 if q else 4
    cap = 150 if q else 300
    g = TGen(ctx.rng, **MASK)
    jobs = [(i + 1, g.problem(), L, cap, ctx.seed * 7919 + i) for i in range(n)]
    with Pool(12, maxtasksperchild=30) as pool:
        recs = pool.map(worker, jobs, chunksize=2)
    skipped = {}
    for r in recs:
        k = r["skip"] or ("compile-raised:" + r["raised"] if r["raised"] != "none" else "")
        if k:
            skipped[k] = skipped.get(k, 0) + 1
    batch = [r for r in recs if not r["skip"] and r["raised"] == "none" and r["plans"]]
    if not batch:
        raise MachineryError("no compiled plan found: %r" % skipped)
    d = ctx.sub("judge")
    path = os.path.join(d, "batch.ndjson")
    tlc.write_ndjson(path, batch)
    res = tlc.run_tlc("TimedToSeqJudge", CFG, d, env={"BATCH": path}, timeout=3000, heap="16g")
    if res.error or res.violated:
        raise MachineryError("TimedToSeqJudge failed: %s %s" % (res.violated, (res.error or "")[-3000:]))
    nplans = sum(len(r["plans"]) for r in batch)
    if res.distinct != nplans:
        raise MachineryError("judge consumed %d of %d plans" % (res.distinct, nplans))
    ctx.add_tlc("TimedToSeqJudge", res)
    byid = {r["cid"]: r for r in batch}
    notvalid = 0
    for p in res.printed:
        if p and p[0] == "U":
            ctx.cov["unspecified"] += 1
        elif p and p[0] == "N":
            notvalid += 1
        elif p and p[0] == "FAIL":
            _, cid, pi, clause = p
            r = byid[cid]
            pl = r["plans"][pi - 1]
            feats = dur_features(r["P"], pl["tau"]) if pl["tau"] else []
            sig = clause + ("|" + ",".join(feats) if feats and "duration" in clause else "")
            if "duration" not in clause and pl["tau"]:
                al = alias_feature(r["P"], pl["tau"])
                if not al and clause.endswith("-bnds"):
                    al = overwrite_feature(r["P"], pl["tau"])
                sig += ("|" + ",".join(al)) if al else ""
            ctx.violation(sig, "C28: %s" % clause, {"clause": clause, "problem": r["P"], "compiled": r["Q"], "plan": pl})
    ctx.cov["evaluations"] = nplans
    ctx.cov["traces_validated_against_impl"] = nplans
    ctx.cov["distinct_nontrivial"] = sum(1 for r in batch for pl in r["plans"] if any(s["d"]["n"] != 0 for s in pl["tau"]))
    ctx.cov["compiled_plans_not_valid_by_spec"] = notvalid
    ctx.cov["problems_judged"] = len(batch)
    ctx.cov["problems_skipped"] = skipped
    ctx.cov["rule"] = (
        "TGen durative problems inside TimedToSequential.supported_kind(); compiled plans = short sequences and simulator "
        "walks over the compiled ground actions that the library's sequential validator accepts (pre-filter; validity is "
        "decided by TLC); one evaluation = one (compiled plan, converted-back plan) pair; non-trivial = the converted plan "
        "contains a durative step."
    )
    ex = batch[0]
    ctx.sample({"original": ex["P"], "plan": ex["plans"][0]})
    ctx.assumptions += ["TLC, Json reader, harness/upj.py trusted; unspecified zones skipped and counted"]
