"""C15 -- expression type inference is sound and symmetric.

T1  spec/TypeInferObs.tla with MODE = "self": the reference inference TypeRef (exact rational
    interval arithmetic on extended reals) passes the soundness judge on every enumerated numeric
    expression, i.e. the oracle's own reference is sound on the critical-point grid.
G1  TLC (TypeInferEnum) enumerates numeric expressions to depth 2 over fluents of every bound form
    x {int, real}, constants including non-dyadic and negative rationals, + - * /; Boolean and
    user-typed expressions; ALL ordered pairs of a menu of typed operands for Equals; numeric
    expressions with constants beyond 2^53 / 10^30 / the float range.
T2  every case is built on a FRESH Environment through the public constructors; the driver
    records accept / exception class, FNode.type, env.type_checker.get_type(node) and the .type
    of every sub-term as exact Fractions (limb form when large), and the projected expression.
T3  TypeInferObs judges every record: Eval(e, sigma) on the critical-point grid lies inside the
    recorded [lo, hi] and is integral for int (InType.*), an inferred finite bound where the exact
    hull is infinite (Hull.*), exact types of Boolean / user-typed expressions (Exact),
    Equals(a, b) accepted iff Equals(b, a) accepted (EqSym) iff EqWellFormed (EqRef).
Python holds no oracle: it calls the constructors and projects objects to JSON.
"""
import copy
import os
from fractions import Fraction
from types import SimpleNamespace

from .. import tlc
from .. import upj
from ..common import MachineryError, time_limit, ImplTimeout

WORKERS = 8
NPROC = 4  # processes replaying cases on the real library
LIMIT = 60  # seconds per construction (milliseconds in practice; the limit only stops a looping mutant)
SMALL = 1000  # |numerator|, denominator <= SMALL are written as native TLC integers

NONE = {"k": "none"}
UNDEF = {"k": "u"}
TBAD = {"k": "bad", "lo": NONE, "hi": NONE, "name": ""}

ENUM_CFG = """INIT Init
NEXT Next
CONSTANTS
 L1F = %(l1f)s
 L1C = %(l1c)s
 L2F = %(l2f)s
 L2C = %(l2c)s
 L3F = %(l3f)s
 L3C = %(l3c)s
"""
OBS_CFG = """SPECIFICATION Spec
INVARIANT Verdict
"""

# leaf menus (names of TypeInfer!Decl fluents, indices into TypeInferEnum!Consts)
MENUS = {
    "quick": dict(
        l1f=["iu", "il", "ih", "ib", "ibn", "iz", "ru", "rl", "rh", "rb", "rbp"],
        l1c=[1, 2, 4, 6, 7, 8, 9],
        l2f=["iu", "il", "ib", "rb"],
        l2c=[4, 7],
        l3f=["ib", "rl"],
        l3c=[],
    ),
    "thorough": dict(
        l1f=["iu", "il", "ilp", "ih", "ihn", "ib", "ibp", "ibn", "iz", "ru", "rl", "rlp", "rh", "rhn", "rb", "rbp", "rbn"],
        l1c=[1, 2, 3, 4, 5, 6, 7, 8, 9, 10, 11],
        l2f=["iu", "il", "ib", "ibn", "rb", "rh"],
        l2c=[4, 7, 6],
        l3f=["ib", "rl", "ih"],
        l3c=[7],
    ),
}


def tla_set(xs):
    return "{" + ", ".join(('"%s"' % x) if isinstance(x, str) else str(x) for x in xs) + "}"


# ----------------------------------------------------------------------------------------
# projection of the real objects (no judgement here)
# ----------------------------------------------------------------------------------------
def limbs(n):
    """decimal digits of a natural regrouped in fours, least significant first (zero = [])"""
    if n == 0:
        return []
    s = str(n)
    out = []
    while s:
        out.append(int(s[-4:]))
        s = s[:-4]
    return out


def unlimbs(ls):
    return int("".join("%04d" % x for x in reversed(ls)) or "0")


def p_num(x):
    f = Fraction(x)
    if abs(f.numerator) <= SMALL and f.denominator <= SMALL:
        return {"k": "n", "n": f.numerator, "d": f.denominator}
    return {"k": "N", "s": 1 if f > 0 else -1, "n": limbs(abs(f.numerator)), "d": limbs(f.denominator)}


def p_type(t):
    if t.is_bool_type():
        return {"k": "bool", "lo": NONE, "hi": NONE, "name": ""}
    if t.is_int_type() or t.is_real_type():
        lo, hi = t.lower_bound, t.upper_bound
        return {
            "k": "int" if t.is_int_type() else "real",
            "lo": NONE if lo is None else p_num(lo),
            "hi": NONE if hi is None else p_num(hi),
            "name": "",
        }
    if t.is_user_type():
        return {"k": "user", "lo": NONE, "hi": NONE, "name": t.name}
    if t.is_time_type():
        return {"k": "time", "lo": NONE, "hi": NONE, "name": ""}
    return {"k": "other", "lo": NONE, "hi": NONE, "name": type(t).__name__}


def E(op, args=(), name="", v=None, vars_=()):
    return {"op": op, "args": list(args), "name": name, "v": v if v is not None else UNDEF, "vars": list(vars_)}


def p_expr(e):
    """FNode -> UPJ expression (structure only; types of bound variables in the uniform shape)"""
    from unified_planning.model.operators import OperatorKind as OK

    nt = e.node_type
    if nt == OK.BOOL_CONSTANT:
        return E("const", v={"k": "b", "b": bool(e.bool_constant_value())})
    if nt in (OK.INT_CONSTANT, OK.REAL_CONSTANT):
        return E("const", v=p_num(e.constant_value()))
    if nt == OK.OBJECT_EXP:
        return E("obj", name=e.object().name)
    if nt == OK.PARAM_EXP:
        return E("param", name=e.parameter().name)
    if nt == OK.VARIABLE_EXP:
        return E("var", name=e.variable().name)
    if nt == OK.TIMING_EXP:
        return E("timing", name="start")
    if nt == OK.FLUENT_EXP:
        return E("fluent", [p_expr(a) for a in e.args], name=e.fluent().name)
    if nt in (OK.EXISTS, OK.FORALL):
        vs = [{"name": v.name, "type": p_type(v.type)} for v in e.variables()]
        return E("exists" if nt == OK.EXISTS else "forall", [p_expr(e.arg(0))], vars_=vs)
    if nt in upj._OPS:
        return E(upj._OPS[nt], [p_expr(a) for a in e.args])
    raise MachineryError("cannot project node %s" % (e,))


def types_preorder(e):
    out = [p_type(e.type)]
    for a in e.args:
        out += types_preorder(a)
    return out


# ----------------------------------------------------------------------------------------
# construction through the public API on a fresh Environment
# ----------------------------------------------------------------------------------------
class World:
    """The declarations of TypeInfer!Decl built (on demand) in one fresh Environment."""

    def __init__(self, decl):
        from unified_planning.environment import Environment

        self.decl = decl
        self.env = Environment()
        self.em = self.env.expression_manager
        self.tm = self.env.type_manager
        self.types = {}
        self.objects = {}
        self.fluents = {}
        self.params = {}
        self.ftypes = {f["name"]: f["type"] for f in decl["fluents"]}
        self.fsigs = {f["name"]: f["sig"] for f in decl["fluents"]}
        self.ptypes = {p["name"]: p["type"] for p in decl["params"]}
        self.otypes = {o["name"]: o["type"] for o in decl["objects"]}
        self.parents = {t["name"]: t["parent"] for t in decl["types"]}

    def utype(self, name):
        if name not in self.types:
            par = self.parents[name]
            self.types[name] = self.tm.UserType(name, self.utype(par) if par else None)
        return self.types[name]

    def type(self, t):
        if t["k"] == "user":
            return self.utype(t["name"])
        return upj.b_type(t, self.env)

    def fluent(self, name):
        from unified_planning.model import Fluent

        from unified_planning.model import Parameter

        if name not in self.fluents:
            sig = [Parameter(p["name"], self.type(p["type"]), self.env) for p in self.fsigs[name]]
            self.fluents[name] = Fluent(name, self.type(self.ftypes[name]), sig, self.env)
        return self.fluents[name]

    def param(self, name):
        from unified_planning.model import Parameter

        if name not in self.params:
            self.params[name] = Parameter(name, self.type(self.ptypes[name]), self.env)
        return self.params[name]

    def obj(self, name):
        from unified_planning.model import Object

        if name not in self.objects:
            self.objects[name] = Object(name, self.utype(self.otypes[name]), self.env)
        return self.objects[name]

    def num(self, v):
        if v["k"] == "n":
            f = Fraction(v["n"], v["d"])
        else:
            f = Fraction(v["s"] * unlimbs(v["n"]), unlimbs(v["d"]))
        return self.em.Int(f.numerator) if f.denominator == 1 else self.em.Real(f)

    def build(self, e, variables=None):
        from unified_planning.model import Variable
        from unified_planning.model.timing import StartTiming

        em = self.em
        op = e["op"]
        if op == "const":
            v = e["v"]
            if v["k"] == "b":
                return em.Bool(v["b"])
            if v["k"] == "o":
                return em.ObjectExp(self.obj(v["o"]))
            return self.num(v)
        if op == "obj":
            return em.ObjectExp(self.obj(e["name"]))
        if op == "param":
            return em.ParameterExp(self.param(e["name"]))
        if op == "var":
            return em.VariableExp(variables[e["name"]])
        if op == "timing":
            return em.TimingExp(StartTiming())
        if op == "fluent":
            return em.FluentExp(self.fluent(e["name"]), tuple(self.build(a, variables) for a in e["args"]))
        if op in ("exists", "forall"):
            vs = dict(variables or {})
            vl = []
            for v in e["vars"]:
                vs[v["name"]] = Variable(v["name"], self.type(v["type"]), self.env)
                vl.append(vs[v["name"]])
            body = self.build(e["args"][0], vs)
            return em.Exists(body, *vl) if op == "exists" else em.Forall(body, *vl)
        a = [self.build(x, variables) for x in e["args"]]
        ctor = {
            "and": em.And,
            "or": em.Or,
            "not": em.Not,
            "implies": em.Implies,
            "iff": em.Iff,
            "eq": em.Equals,
            "le": em.LE,
            "lt": em.LT,
            "plus": em.Plus,
            "minus": em.Minus,
            "times": em.Times,
            "div": em.Div,
        }[op]
        return ctor(*a)


def observe(decl, case, fam, cid):
    """Build one case on a fresh Environment and project what the library answers.

    A time-out is only recorded when it repeats with twice the limit (a construction takes
    milliseconds; a single time-out on a starved machine is not an observation of the library)."""
    rec = _observe(decl, case, fam, cid, LIMIT)
    if rec["exc"] == "Timeout":
        rec = _observe(decl, case, fam, cid, 2 * LIMIT)
    return rec


def _observe(decl, case, fam, cid, limit):
    rec = {
        "fam": fam,
        "id": cid,
        "i": case.get("i", 0),
        "j": case.get("j", 0),
        "m": 0,
        "g": case.get("g", fam),
        "e": case["e"],
        "ok": False,
        "exc": "",
        "t": TBAD,
        "t2": TBAD,
        "ts": [],
    }
    try:
        with time_limit(limit):
            w = World(decl)
            if fam == "eq":
                # operands first (always well-typed), then the construction under observation
                a = w.build(case["e"]["args"][0])
                b = w.build(case["e"]["args"][1])
                node = w.em.Equals(a, b)
            else:
                node = w.build(case["e"])
            t = node.type
            t2 = w.env.type_checker.get_type(node)
            rec["ok"] = True
            rec["t"] = p_type(t)
            rec["t2"] = p_type(t2)
            rec["ts"] = types_preorder(node)
            rec["e"] = p_expr(node)
    except ImplTimeout:
        rec["exc"] = "Timeout"
    except MachineryError:
        raise
    except Exception as ex:  # an exception is an observation
        rec["ok"] = False
        rec["exc"] = type(ex).__name__
        rec["t"] = rec["t2"] = TBAD
        rec["ts"] = []
        rec["e"] = case["e"]
    return rec


def _observe_chunk(a):
    decl, items = a
    return [observe(decl, c, fam, cid) for (c, fam, cid) in items]


def observe_all(decl, items, nproc=NPROC):
    """observe (case, family, id) triples in forked worker processes; results in id order"""
    import multiprocessing
    from unified_planning.environment import Environment

    Environment()  # the library's lazy imports happen here, once, outside every time limit and before forking
    if nproc <= 1 or len(items) < 200:
        return _observe_chunk((decl, items))
    n = 4 * nproc
    with multiprocessing.get_context("fork").Pool(nproc) as pool:
        res = pool.map(_observe_chunk, [(decl, items[k::n]) for k in range(n)], chunksize=1)
    out = [o for r in res for o in r]
    out.sort(key=lambda o: o["id"])
    return out


def link_mirrors(obs):
    """m = 1-based position of the record of the mirrored equality (structure only; the judge re-checks i, j)"""
    pos = {(o["i"], o["j"]): n + 1 for n, o in enumerate(obs) if o["fam"] == "eq"}
    for o in obs:
        o["m"] = pos[(o["j"], o["i"])] if o["fam"] == "eq" else 0


# ----------------------------------------------------------------------------------------
# judging
# ----------------------------------------------------------------------------------------
def run_judge(ctx, label, obs, mode="impl"):
    d = ctx.sub("judge-" + label)
    path = os.path.join(d, "obs.ndjson")
    tlc.write_ndjson(path, obs)
    res = tlc.run_tlc("TypeInferObs", OBS_CFG, d, env={"OBS": path, "MODE": mode, "JAVA_TOOL_OPTIONS": "-Xss512m"}, workers=WORKERS, timeout=3000)
    if res.error or res.violated:
        raise MachineryError("TypeInferObs failed (%s): %s %s" % (label, res.violated, res.error))
    n = len(obs)
    expected = 1 + (n + 31) // 32 + n
    if res.distinct != expected:
        raise MachineryError("judge %s consumed %d states, expected %d" % (label, res.distinct, expected))
    ctx.add_tlc("judge-" + label, res)
    fails, infos, unspec = [], {}, 0
    for p in res.printed:
        if not p:
            continue
        if p[0] == "FAIL":
            fails.append({"id": p[1], "clause": p[2], "feature": p[3], "qual": p[4], "witness": "%d/%d" % (p[5], p[6])})
        elif p[0] == "INFO":
            infos[p[2]] = infos.get(p[2], 0) + 1
        elif p[0] == "U":
            unspec += 1
    return fails, infos, unspec


WHAT = {
    "InType.Lower": "a value the expression takes lies BELOW the inferred lower bound",
    "InType.Upper": "a value the expression takes lies ABOVE the inferred upper bound",
    "InType.Integral": "the expression takes a non-integral value but is typed int",
    "InType.Kind": "a numeric expression is not given a numeric type",
    "Hull.Lower": "a finite lower bound is inferred for an expression that is unbounded below",
    "Hull.Upper": "a finite upper bound is inferred for an expression that is unbounded above",
    "Accept": "a well-formed expression is rejected at construction",
    "Exact": "a Boolean / user-typed expression does not get exactly its type",
    "EntryPoints": "FNode.type and type_checker.get_type disagree",
    "Shape": "the recorded sub-term types do not match the expression",
    "EqSym": "Equals(a, b) is accepted while Equals(b, a) is rejected",
    "EqRef": "acceptance of Equals(a, b) differs from the (symmetric) reference EqWellFormed",
}


def report(ctx, fails, byid):
    for f in fails:
        o = byid[f["id"]]
        sig = "%s|%s|%s|%s" % (o["fam"], f["clause"], f["feature"], f["qual"])
        ctx.violation(
            sig,
            "%s [%s, operand kinds %s, %s]" % (WHAT.get(f["clause"], f["clause"]), o["fam"], f["feature"], f["qual"]),
            {"obs": o, "clause": f["clause"], "feature": f["feature"], "qualifier": f["qual"], "witness_value": f["witness"]},
        )


def enumerate_cases(ctx):
    d = ctx.sub("enum")
    m = MENUS["quick" if ctx.quick else "thorough"]
    cfg = ENUM_CFG % {k: tla_set(v) for k, v in m.items()}
    outs = {k: os.path.join(d, k.lower() + ".ndjson") for k in ("OUT_DECL", "OUT_NUM", "OUT_EXACT", "OUT_EQ", "OUT_BIG")}
    res = tlc.run_tlc("TypeInferEnum", cfg, d, env=outs, workers=1, timeout=3000)
    if res.error:
        raise MachineryError(res.error)
    ctx.add_tlc("enumeration", res)
    decl = tlc.read_ndjson(outs["OUT_DECL"])[0]
    fams = {
        "num": tlc.read_ndjson(outs["OUT_NUM"]),
        "exact": tlc.read_ndjson(outs["OUT_EXACT"]),
        "eq": tlc.read_ndjson(outs["OUT_EQ"]),
        "big": tlc.read_ndjson(outs["OUT_BIG"]),
    }
    em = [p for p in res.printed if p and p[0] == "EMITTED"]
    if not em or em[0][1:] != [len(fams["num"]), len(fams["exact"]), len(fams["eq"]), len(fams["big"])]:
        raise MachineryError("enumeration count mismatch: %r" % (em,))
    return decl, fams


def select(ctx, fams):
    """quick tier: all leaves / depth-1 cases, a seeded sample of the depth-2 families"""
    num = fams["num"]
    if not ctx.quick:
        return num
    cap = {"d2": 1200, "d2b": 300, "n3": 150}
    byg = {}
    for c in num:
        byg.setdefault(c["g"], []).append(c)
    out = []
    for g in sorted(byg):
        cs = byg[g]
        if g in cap and len(cs) > cap[g]:
            cs = ctx.rng.sample(cs, cap[g])
        out += cs
    return out


CORRUPTIONS = [
    # (label, family, picker of a record, mutation, clause expected)
    ("upper bound lowered by one", "num", lambda o: o["ok"] and o["t"]["hi"]["k"] == "n" and o["e"]["op"] == "plus",
     lambda o: [t.__setitem__("hi", {"k": "n", "n": t["hi"]["n"] - t["hi"]["d"], "d": t["hi"]["d"]}) for t in (o["t"], o["t2"], o["ts"][0])], "InType.Upper"),
    ("lower bound raised by one", "num", lambda o: o["ok"] and o["t"]["lo"]["k"] == "n" and o["e"]["op"] == "times",
     lambda o: [t.__setitem__("lo", {"k": "n", "n": t["lo"]["n"] + t["lo"]["d"], "d": t["lo"]["d"]}) for t in (o["t"], o["t2"], o["ts"][0])], "InType.Lower"),
    ("a quotient typed int", "num", lambda o: o["ok"] and o["e"]["op"] == "div" and o["t"]["lo"]["k"] == "none" == o["t"]["hi"]["k"] and o["e"]["args"][1]["v"].get("n") == 3,
     lambda o: [t.__setitem__("k", "int") for t in (o["t"], o["t2"], o["ts"][0])], "InType.Integral"),
    ("an unbounded sum given a finite upper bound", "num", lambda o: o["ok"] and o["e"]["op"] == "plus" and o["t"]["hi"]["k"] == "none" and o["g"] == "d1" and o["e"]["args"][0] != o["e"]["args"][1],
     lambda o: [t.__setitem__("hi", {"k": "n", "n": 1000, "d": 1}) for t in (o["t"], o["t2"], o["ts"][0])], "Hull.Upper"),
    ("get_type differs from .type", "num", lambda o: o["ok"] and o["t"]["k"] == "int",
     lambda o: o["t2"].__setitem__("k", "real"), "EntryPoints"),
    ("a well-formed expression rejected", "num", lambda o: o["ok"],
     lambda o: (o.__setitem__("ok", False), o.__setitem__("exc", "UPTypeError"), o.__setitem__("ts", [])), "Accept"),
    ("a user-typed fluent typed with the parent type", "exact", lambda o: o["ok"] and o["t"]["k"] == "user" and o["t"]["name"] == "T1",
     lambda o: [t.__setitem__("name", "T") for t in (o["t"], o["t2"])], "Exact"),
    ("a conjunction typed int", "exact", lambda o: o["ok"] and o["e"]["op"] == "and",
     lambda o: [t.__setitem__("k", "int") for t in (o["t"], o["t2"])], "Exact"),
    ("one orientation of a numeric equality rejected", "eq", lambda o: o["ok"] and o["i"] == 6 and o["j"] == 15,
     lambda o: (o.__setitem__("ok", False), o.__setitem__("exc", "UPTypeError")), "EqRef"),
    ("both orientations of object = unrelated object accepted", "eq", lambda o: (not o["ok"]) and {o["i"], o["j"]} == {28, 32},
     lambda o: o.__setitem__("ok", True), "EqRef"),
    ("upper bound of a big product lowered", "big", lambda o: o["ok"] and o["e"]["op"] == "times" and o["t"]["hi"]["k"] == "N" and o["t"]["hi"]["s"] == 1 and len(o["t"]["hi"]["n"]) > len(o["t"]["hi"]["d"]) + 1,
     lambda o: [t.__setitem__("hi", {"k": "n", "n": 7, "d": 1}) for t in (o["t"], o["t2"], o["ts"][0])], "InType.Upper"),
]


def corruption_check(ctx, obs, failing=()):
    """vacuity guard: corrupting one recorded field of an observation the judge accepts must make it reject"""
    batch, expect = [], {}
    nid = 0
    failing = set(failing)
    skipped = []
    for label, fam, pick, mut, clause in CORRUPTIONS:
        allc = [o for o in obs if o["fam"] == fam and pick(o)]
        cands = [o for o in allc if o["id"] not in failing]
        if fam == "eq":
            cands = [o for o in cands if not any(m["id"] in failing for m in obs if m["fam"] == "eq" and m["i"] == o["j"] and m["j"] == o["i"])]
        if not cands:
            if allc:  # the implementation under test already violates every candidate record
                skipped.append(label)
                continue
            raise MachineryError("corruption check: no record for '%s'" % label)
        todo = [cands[0]]
        if fam == "eq":
            # the mirrored record is needed by the judge
            todo.append(next(o for o in obs if o["fam"] == "eq" and o["i"] == cands[0]["j"] and o["j"] == cands[0]["i"]))
        first = True
        for o in todo:
            c = copy.deepcopy(o)
            nid += 1
            c["id"] = nid
            if first or (fam == "eq" and "both orientations" in label):
                mut(c)
                expect[nid] = (label, clause)
            first = False
            batch.append(c)
    link_mirrors(batch)
    fails, _, _ = run_judge(ctx, "corrupt", batch)
    got = {}
    for f in fails:
        got.setdefault(f["id"], set()).add(f["clause"])
    missed = [lab for i, (lab, cl) in expect.items() if cl not in got.get(i, set())]
    if missed:
        raise MachineryError("corruption check: the judge accepts %r" % (missed,))
    ctx.notes["corruptions_rejected"] = len(set(l for l, _ in expect.values()))
    if skipped:
        ctx.notes["corruptions_skipped(no clean record)"] = skipped


def run(ctx):
    import time

    t0 = time.time()
    decl, fams = enumerate_cases(ctx)
    num = select(ctx, fams)
    ctx.notes["t_enum_s"] = round(time.time() - t0, 1)
    # ---- T1: the reference inference passes its own judge --------------------------------
    t0 = time.time()
    shallow = [c for c in num if c["g"] in ("leaf", "d1")]
    deep = [c for c in num if c["g"] not in ("leaf", "d1")]
    t1c = shallow + deep[:: max(1, len(deep) // (300 if ctx.quick else 8000))]
    t1 = [
        {"fam": "num", "id": i, "i": 0, "j": 0, "m": 0, "g": c["g"], "e": c["e"], "ok": True, "exc": "", "t": TBAD, "t2": TBAD, "ts": []}
        for i, c in enumerate(t1c)
    ]
    fails, infos, _ = run_judge(ctx, "t1-self", t1, mode="self")
    if fails or infos:
        raise MachineryError("T1: the reference TypeRef does not pass its own judge: %r %r" % (fails[:3], infos))
    ctx.notes["t_t1_s"] = round(time.time() - t0, 1)
    t0 = time.time()
    # ---- T2: replay on the real library ---------------------------------------------------
    items = []
    for fam, cases in (("num", num), ("exact", fams["exact"]), ("eq", fams["eq"]), ("big", fams["big"])):
        for c in cases:
            items.append((c, fam, len(items)))
    obs = observe_all(decl, items)
    link_mirrors(obs)
    byid = {o["id"]: o for o in obs}
    ctx.cov["evaluations"] += len(obs)
    renorm = sum(1 for o, c in zip(obs, list(num) + fams["exact"] + fams["eq"] + fams["big"]) if o["ok"] and o["e"] != c["e"])
    ctx.notes["cases_renormalised_by_construction"] = renorm
    ctx.notes["t_replay_s"] = round(time.time() - t0, 1)
    t0 = time.time()
    # ---- T3: judge ------------------------------------------------------------------------
    fails, infos, unspec = run_judge(ctx, "impl", obs)
    ctx.cov["traces_validated_against_impl"] += len(obs)
    ctx.cov["unspecified"] += unspec
    report(ctx, fails, byid)
    ctx.notes["t_judge_s"] = round(time.time() - t0, 1)
    corruption_check(ctx, obs, failing=[f["id"] for f in fails])
    nontrivial = sum(1 for o in obs if o["fam"] in ("num", "big") and o["e"]["args"]) + sum(1 for o in obs if o["fam"] == "eq")
    ctx.cov["distinct_nontrivial"] = nontrivial
    per = {}
    for o in obs:
        per[o["fam"] + "/" + o["g"]] = per.get(o["fam"] + "/" + o["g"], 0) + 1
    ctx.notes["cases"] = per
    ctx.notes["relation_to_TypeRef(non-exact numeric roots)"] = infos
    ctx.notes["rejected"] = sum(1 for o in obs if not o["ok"])
    for o in obs:
        if o["fam"] == "num" and o["g"] == "d2" and o["ok"]:
            ctx.sample({"kind": "numeric case", "e": o["e"], "type": o["t"]})
            break
    ctx.sample({"kind": "equality pair", "obs": next(o for o in obs if o["fam"] == "eq" and o["i"] == 28 and o["j"] == 10)})
    ctx.cov["rule"] = (
        "TLC (TypeInferEnum) emits: every binary + - * / over %d leaves (fluents of every bound form x {int, real}, "
        "constants incl. 1/3, 2/3, negatives), %s depth-2 expressions (op(d1, leaf), op(leaf, d1), op(d1, d1), ternary "
        "Plus/Times), %d Boolean / user-typed expressions, all %d ordered pairs of %d typed operands for Equals, %d "
        "expressions with constants beyond 2^53 / 10^30 / the float range.  Every case is built on a fresh Environment; "
        "soundness is judged on the critical-point grid {lo, lo+1, hi-1, hi, 0, 1, -1, 1/3, -1/2, +-far} of every leaf "
        "with exact rationals.  TypeRef coverage: %r non-exact roots." % (
            len(MENUS["quick" if ctx.quick else "thorough"]["l1f"]) + len(MENUS["quick" if ctx.quick else "thorough"]["l1c"]),
            "a seeded sample of the" if ctx.quick else "all",
            len(fams["exact"]),
            len(fams["eq"]),
            int(round(len(fams["eq"]) ** 0.5)),
            len(fams["big"]),
            infos,
        )
    )
    ctx.cov["exhaustive"] = not ctx.quick
    ctx.cov["notes"] = ctx.notes
    ctx.assumptions += [
        "TLC, the CommunityModules Json reader and BigArith (checked by MCBigArith) are trusted",
        "soundness is decided on the critical-point grid, not by an SMT query over the infinite domains; for expressions in "
        "which every fluent occurs once and every divisor is a constant the grid contains the corners where the extrema "
        "are attained, and unbounded directions are decided exactly by the Hull clauses",
        "division by a divisor whose type is the point 0 is outside the property (construction raises ZeroDivisionError)",
        "Equals with an operand of type time: only symmetry is judged (the reference is silent)",
        "integrality is not judged in the big-constant family (BigArith has no division)",
    ]


# ----------------------------------------------------------------------------------------
# ./check C15 --replay FILE   and   ./check C15 --selftest
# ----------------------------------------------------------------------------------------
def replay(ctx, data):
    """Re-run the construction of a replay file on the current tree and judge it again."""
    d = ctx.sub("decl")
    m = MENUS["quick"]
    outs = {k: os.path.join(d, k.lower() + ".ndjson") for k in ("OUT_DECL", "OUT_NUM", "OUT_EXACT", "OUT_EQ", "OUT_BIG")}
    cfg = ENUM_CFG % {k: "{}" for k in m}
    res = tlc.run_tlc("TypeInferEnum", cfg, d, env=outs, workers=1, timeout=3000)
    if res.error:
        raise MachineryError(res.error)
    decl = tlc.read_ndjson(outs["OUT_DECL"])[0]
    o = data["data"]["obs"]
    obs = []
    if o["fam"] == "eq":
        a, b = o["e"]["args"]
        obs.append(observe(decl, {"e": o["e"], "i": 1, "j": 2}, "eq", 0))
        obs.append(observe(decl, {"e": E("eq", [b, a]), "i": 2, "j": 1}, "eq", 1))
    else:
        obs.append(observe(decl, {"e": o["e"], "g": o["g"]}, o["fam"], 0))
    link_mirrors(obs)
    fails, infos, _ = run_judge(ctx, "replay", obs)
    for r in obs:
        print("REPLAY built=%s exc=%s type=%s" % (r["ok"], r["exc"], r["t"]))
    for f in fails:
        print("REPLAY %s|%s|%s (witness value %s)" % (f["clause"], f["feature"], f["qual"], f["witness"]))
    print("replayed %d construction(s): %d clause(s) fail" % (len(obs), len(fails)))
    return 1 if fails else 0


def selftest(ctx):
    """corrupting one recorded field makes the judge reject (the same guard runs inside every check)"""
    decl, fams = enumerate_cases(ctx)
    num = [c for c in fams["num"] if c["g"] in ("leaf", "d1")]
    obs = []
    for fam, cases in (("num", num), ("exact", fams["exact"]), ("eq", fams["eq"]), ("big", fams["big"])):
        for c in cases:
            obs.append(observe(decl, c, fam, len(obs)))
    corruption_check(ctx, obs)
    print("caught  %d corruptions of recorded fields" % ctx.notes["corruptions_rejected"])
    return 0
