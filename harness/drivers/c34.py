"""C34 -- HTN task-network ordering extraction is exact.

T1  spec/HTNOrder.tla: the implementation-shaped layer (ordering() as written: scan with break,
    _build_total_order, TotalOrder's consecutive pairs) satisfies the declarative layer (exactly the
    given precedences; the unique linear extension iff exactly one exists; neither for any other kind
    of temporal constraint) on every network reachable within the bounds (MCHTNOrder).
T2  TLC (HTNOrderEnum) emits every precedence relation (cyclic, redundant, self-loops, duplicated
    statements) over <= 4 (quick) / 5 (thorough) subtasks, and relations mixed with one constraint of
    another kind (delayed, non END-START, non-strict, no container, global, numeric side); each case
    is built on a real TaskNetwork / Method through add_subtask / set_ordered / set_strictly_before /
    add_constraint, and partial_order() / total_order() are recorded.
T3  HTNOrderTrace replays every recorded construction history through the specification's own
    actions and judges each recorded observation with HTNOrder!ClauseA (also seeded incremental
    histories observed after every call).
Python builds objects, calls the API and projects results; every verdict is TLC's.
"""
import gc
import os
import random
import re
import time
from concurrent.futures import ThreadPoolExecutor
from fractions import Fraction

from .. import tlc
from ..common import MachineryError, time_limit, ImplTimeout

MC_CFG = """SPECIFICATION Spec
CONSTANTS N = %(n)d
 MaxCons = %(maxcons)d
 Universe <- %(universe)s
%(view)sINVARIANT DesignOK
INVARIANT ZoneIsChain
INVARIANT PrecAgree
INVARIANT QualAgree
INVARIANT TypeOK
"""

ENUM_CFG = """INIT Init
NEXT EnumNext
CONSTANTS N = %(n)d
 MaxCons = 0
 Universe = {}
 Fam = "%(fam)s"
 Diag = %(diag)s
 Full = %(full)s
 Half = %(half)s
 Lo = %(lo)d
 Hi = %(hi)d
 Step = %(step)d
 Rounds = %(rounds)d
"""

TRACE_CFG = """SPECIFICATION TraceSpec
CONSTANTS N = %(n)d
 MaxCons = 0
 Universe = {}
INVARIANT Verdict
"""

_COV = re.compile(r"^<(\w+) line \d+, col \d+ to line \d+, col \d+ of module (\w+)[^>]*>: (\d+):(\d+)", re.M)

VIAS = "bptlgfo"  # how a precedence is stated through the public API (see _add_prec)


# ----------------------------------------------------------------------------------------
# building real objects from abstract cases (no oracle logic below: build, call, project)
# ----------------------------------------------------------------------------------------
class _World:
    """UP objects shared by all cases of one process (global environment)."""

    def __init__(self):
        import unified_planning as up
        from unified_planning.model.htn import Task, TaskNetwork, Method
        from unified_planning.model.timing import Timepoint, TimepointKind, Timing
        from unified_planning.shortcuts import UserType, Object, get_environment

        self.up = up
        self.em = get_environment().expression_manager
        self.Task, self.TaskNetwork, self.Method = Task, TaskNetwork, Method
        self.Timepoint, self.TimepointKind, self.Timing = Timepoint, TimepointKind, Timing
        self.task = Task("c34_task")
        ut = UserType("C34U")
        self.objs = [self.em.ObjectExp(Object("c34_o%d" % i, ut)) for i in range(4)]
        self.kinds = {
            "start": TimepointKind.START,
            "end": TimepointKind.END,
            "gstart": TimepointKind.GLOBAL_START,
            "gend": TimepointKind.GLOBAL_END,
        }


_WORLD = None


def world():
    global _WORLD
    if _WORLD is None:
        _WORLD = _World()
    return _WORLD


def ident(i):
    return "s%d" % i


def _num(halves):
    f = Fraction(halves, 2)
    return int(f) if f.denominator == 1 else f


def _timing(w, rec):
    if rec["tk"] == "const":
        return _num(rec["d"])
    cont = ident(rec["c"]) if rec["c"] != 0 else None
    return w.Timing(_num(rec["d"]), w.Timepoint(w.kinds[rec["tk"]], container=cont))


def _constraint(w, c):
    """UP expression of a constraint record of HTNOrder's shape."""
    if c["op"] == "nontemp":
        i = c["l"]["d"] % 3
        return w.em.Equals(w.objs[i], w.objs[i + 1])
    l, r = _timing(w, c["l"]), _timing(w, c["r"])
    if c["op"] == "lt":
        return w.em.LT(l, r)
    if c["op"] == "le":
        return w.em.LE(l, r)
    if c["op"] == "eq":
        return w.em.Equals(l, r)
    if c["op"] == "nlt":
        return w.em.Not(w.em.LT(l, r))
    raise MachineryError("unknown constraint op %r" % (c,))


def _add_prec(w, net, st, a, b, via):
    """State 'a ends before b starts' through one of the public entry points."""
    sa, sb = st[a], st[b]
    if via == "b":
        net.set_strictly_before(sa, sb)
    elif via == "p":
        net.set_strictly_before(sa.end, sb.start)
    elif via == "t":
        net.set_strictly_before(w.Timing(0, sa.end), w.Timing(0, sb.start))
    elif via == "l":
        net.add_constraint(w.em.LT(sa.end, sb.start))
    elif via == "g":
        net.add_constraint(w.em.GT(sb.start, sa.end))
    elif via == "f":
        net.add_constraint(w.em.LT(w.Timing(Fraction(0), sa.end), sb.start + 0))
    elif via == "o":
        net.set_ordered(sa, sb)
    else:
        raise MachineryError("unknown via %r" % via)


def _project(call, index):
    """Result of partial_order()/total_order() as [k, v, x] (list / none / exc)."""
    try:
        r = call()
    except ImplTimeout:
        raise
    except Exception as ex:  # an exception is an observation
        return {"k": "exc", "v": [], "x": type(ex).__name__}
    if r is None:
        return {"k": "none", "v": [], "x": ""}
    if not isinstance(r, (list, tuple)):
        return {"k": "exc", "v": [], "x": "returned " + type(r).__name__}
    out = []
    for e in r:
        if isinstance(e, (list, tuple)):
            out.append([index.get(x, 0) for x in e])
        else:
            out.append(index.get(e, 0))
    return {"k": "list", "v": out, "x": ""}


def _observe(nets, index):
    obs = []
    for cls, net in nets:
        po = _project(net.partial_order, index)
        to = _project(net.total_order, index)
        if po["k"] == "list" and any(not isinstance(e, list) or len(e) != 2 for e in po["v"]):
            po = {"k": "exc", "v": [], "x": "malformed precedence list"}
        if to["k"] == "list" and any(isinstance(e, list) for e in to["v"]):
            to = {"k": "exc", "v": [], "x": "malformed order list"}
        obs.append({"cls": cls, "po": po, "to": to})
    return obs


def build_and_observe(plan):
    """Run one construction plan on real objects; returns the ops with observations.

    plan = {"cls": [...], "n": n, "steps": [step...]}; a step is
      {"op":"task","t":i} | {"op":"prec","a":a,"b":b,"v":via} | {"op":"cons","c":record}
      | {"op":"chain","ts":[t1,t2,...]}   (one set_ordered call = several "prec" ops)
      | {"op":"look"}                       (no call, only queries)
    each with "look": bool (observe after the call).
    """
    w = world()
    nets = []
    for cls in plan["cls"]:
        nets.append((cls, w.TaskNetwork() if cls == "tn" else w.Method("c34_m")))
    st = {}
    index = {}
    ops = []
    for s in plan["steps"]:
        if s["op"] == "task":
            for _, net in nets:
                st.setdefault(s["t"], {})[id(net)] = net.add_subtask(w.task, ident=ident(s["t"]))
            index[ident(s["t"])] = s["t"]
            ops.append({"op": "task", "t": s["t"]})
        elif s["op"] == "prec":
            for _, net in nets:
                _add_prec(w, net, {k: v[id(net)] for k, v in st.items()}, s["a"], s["b"], s["v"])
            ops.append({"op": "prec", "a": s["a"], "b": s["b"], "v": s["v"]})
        elif s["op"] == "chain":
            for _, net in nets:
                net.set_ordered(*[st[t][id(net)] for t in s["ts"]])
            for a, b in zip(s["ts"], s["ts"][1:]):
                ops.append({"op": "prec", "a": a, "b": b, "v": "O", "obs": []})
        elif s["op"] == "cons":
            for _, net in nets:
                net.add_constraint(_constraint(w, s["c"]))
            ops.append({"op": "cons", "c": s["c"]})
        elif s["op"] == "look":
            ops.append({"op": "look"})
        else:
            raise MachineryError("unknown step %r" % (s,))
        ops[-1]["obs"] = _observe(nets, index) if s["look"] else []
    return ops


def compress(ops):
    """Re-encode a history observed only after its last call as one HTNOrder!Build macro step."""
    k = 0
    while k < len(ops) and ops[k]["op"] == "task":
        k += 1
    rest = ops[k:]
    if any(o["obs"] for o in ops[:-1]) or any(o["op"] not in ("prec", "cons", "look") for o in rest):
        return ops
    calls = []
    for o in rest:
        if o["op"] == "prec":
            calls.append({"a": o["a"], "b": o["b"], "v": o["v"]})
        elif o["op"] == "cons":
            calls.append({"a": 0, "b": 0, "c": o["c"]})
    return [{"op": "build", "ts": [o["t"] for o in ops[:k]], "calls": calls, "obs": ops[-1]["obs"]}]


def guarded(plan, limit=20):
    """replay under a time limit; returns ("ok", ops) | ("timeout", None) | ("raise", repr)."""
    try:
        with time_limit(limit):
            ops = build_and_observe(plan)
            return ("ok", compress(ops) if plan.get("macro") else ops)
    except ImplTimeout:
        return ("timeout", None)
    except MachineryError:
        raise
    except Exception as ex:
        return ("raise", type(ex).__name__ + ": " + str(ex)[:200])


_TIMEOUTS = None  # multiprocessing.Value shared with the workers: time-outs seen so far (circuit breaker)


def _run_batch(batch):
    """Worker: batch = (kind, salt, items).  kind "case": items = [(id, case)], the plan is derived here
    from the case and a generator seeded by (salt, id); kind "plan": items = [(id, plan)].
    After 6 time-outs overall the remaining cases are skipped (reported, never counted as passed)."""
    kind, salt, items = batch
    out = []
    for tid, x in items:
        if kind == "case":
            rng = random.Random("%d|%d" % (salt, tid))
            small = x["n"] <= 3 or x["fam"] == "devs"
            cls = ["tn", "m"] if small else [rng.choice(["tn", "m"])]
            every = small and (x["fam"] == "rel" or rng.random() < 0.25)
            plan = {"cls": cls, "n": x["n"], "case": x, "macro": not small, "steps": plan_of_case(x, rng, every)}
        else:
            plan = x
        if _TIMEOUTS is not None and _TIMEOUTS.value >= 6:
            out.append((tid, "skipped", None, plan))
            continue
        status, r = guarded(plan)
        if status == "timeout" and _TIMEOUTS is not None:
            with _TIMEOUTS.get_lock():
                _TIMEOUTS.value += 1
        out.append((tid, status, r, None if status == "ok" else plan))
    return out


# ----------------------------------------------------------------------------------------
# construction plans (the order of calls and the API entry points are seeded random choices)
# ----------------------------------------------------------------------------------------
def nontemp_record(i):
    z = {"tk": "const", "c": 0, "d": i}
    return {"op": "nontemp", "l": dict(z), "r": dict(z)}


def plan_of_case(case, rng, every_step):
    """Turn an enumerated case into a sequence of API calls."""
    n = case["n"]
    tasks = list(range(1, n + 1))
    rng.shuffle(tasks)
    items = [("prec", p[0], p[1]) for p in case["p"]]
    items += [("cons", c) for c in case["o"]]
    if case["nt"]:
        items.append(("cons", nontemp_record(rng.randrange(3))))
    rng.shuffle(items)
    if case["dup"]:
        p = case["p"][case["dup"] - 1]
        first = items.index(("prec", p[0], p[1]))
        items.insert(rng.randint(first + 1, len(items)), ("prec", p[0], p[1]))
    steps = [{"op": "task", "t": t, "look": every_step} for t in tasks]
    i = 0
    while i < len(items):
        it = items[i]
        if it[0] == "cons":
            steps.append({"op": "cons", "c": it[1], "look": every_step})
            i += 1
            continue
        # consecutive precedences forming a path may be stated by one set_ordered call
        j = i
        while j + 1 < len(items) and items[j + 1][0] == "prec" and items[j + 1][1] == items[j][2]:
            j += 1
        if j > i and rng.random() < 0.5:
            ts = [items[i][1]] + [items[k][2] for k in range(i, j + 1)]
            steps.append({"op": "chain", "ts": ts, "look": every_step})
            i = j + 1
        else:
            steps.append({"op": "prec", "a": it[1], "b": it[2], "v": rng.choice(VIAS), "look": every_step})
            i += 1
    steps.append({"op": "look", "look": True})
    return steps


def random_plan(rng, nmax, devs):
    """Seeded incremental history: subtasks and constraints interleaved, observed after every call."""
    n = rng.randint(2, nmax)
    perm = list(range(1, n + 1))
    rng.shuffle(perm)
    pos = {t: i for i, t in enumerate(perm)}
    added = []
    pending = list(perm)
    rng.shuffle(pending)
    steps = []
    ncons = rng.randint(4, 14)
    other_at = rng.randrange(ncons) if rng.random() < 0.25 else -1
    back = rng.choice([0.0, 0.0, 0.05, 0.2])
    k = 0
    while pending or k < ncons:
        if pending and (len(added) < 2 or rng.random() < 0.35 or k >= ncons):
            t = pending.pop()
            added.append(t)
            steps.append({"op": "task", "t": t, "look": True})
            continue
        k += 1
        if k - 1 == other_at:
            cands = [d for d in devs if all(x == 0 or x in added for x in (d["l"]["c"], d["r"]["c"]))]
            steps.append({"op": "cons", "c": rng.choice(cands), "look": True})
            continue
        r = rng.random()
        if r < 0.06:
            steps.append({"op": "cons", "c": nontemp_record(rng.randrange(3)), "look": True})
            continue
        a, b = rng.sample(added, 2)
        if (pos[a] > pos[b]) != (rng.random() < back):
            a, b = b, a
        if rng.random() < 0.6 and abs(pos[a] - pos[b]) > 1:  # prefer covering pairs: total orders are reachable
            nb = [t for t in added if pos[t] > pos[a]] if pos[a] < pos[b] else [t for t in added if pos[t] < pos[a]]
            b = min(nb, key=lambda t: abs(pos[t] - pos[a]))
        steps.append({"op": "prec", "a": a, "b": b, "v": rng.choice(VIAS), "look": True})
    return {"cls": ["tn", "m"], "n": n, "steps": steps}


# ----------------------------------------------------------------------------------------
# TLC runs
# ----------------------------------------------------------------------------------------
def t1(ctx, label, cfg, workers):
    d = ctx.sub("t1-" + label)
    res = tlc.run_tlc("MCHTNOrder", MC_CFG % cfg, d, timeout=3000, coverage=True, workers=workers)
    if res.error:
        raise MachineryError(res.error)
    ctx.add_tlc("T1 %s %r" % (label, {k: v for k, v in cfg.items() if k != "view"}), res)
    if res.violated:
        ctx.violation(
            "T1|" + res.violated,
            "the implementation-shaped ordering() layer violates %s (design-level counterexample)" % res.violated,
            {"config": cfg, "trace": [s["vars"] for s in res.trace]},
        )
        return
    cov = {m.group(1): int(m.group(3)) for m in _COV.finditer(res.stdout)}
    for act in ("NextSubtask", "NextConstraint"):
        if cov.get(act, 0) == 0:
            raise MachineryError("vacuous T1 run %s: action %s never taken (%r)" % (label, act, cov))


def enumerate_cases(ctx, jobs, parallel):
    """Run HTNOrderEnum once per job (concurrently: each run is single-threaded)."""

    def one(job):
        i, j = job
        d = ctx.sub("enum-%d" % i)
        out = os.path.join(d, "cases.ndjson")
        cfg = dict(diag="FALSE", full="FALSE", half="FALSE", lo=0, hi=0, step=1, rounds=1)
        cfg.update(j)
        res = tlc.run_tlc("HTNOrderEnum", ENUM_CFG % cfg, d, env={"OUT": out}, workers=1, timeout=3000, heap="3g")
        if res.error:
            raise MachineryError(res.error)
        rows = tlc.read_ndjson(out)
        emitted = [p for p in res.printed if p and p[0] == "EMITTED"]
        if not emitted or emitted[0][1] != len(rows) or not rows:
            raise MachineryError("enumeration %r: %r announced, %d read" % (j, emitted, len(rows)))
        os.remove(out)
        return rows

    t0 = time.time()
    with ThreadPoolExecutor(max_workers=parallel) as ex:
        out = list(ex.map(one, list(enumerate(jobs))))
    ctx.notes["enum_s"] = round(ctx.notes.get("enum_s", 0) + time.time() - t0, 1)
    return out


def _slim(t):
    """What the judge reads of a trace (exception names and API entry points stay in Python)."""

    def ob(o):
        return {"po": {"k": o["po"]["k"], "v": o["po"]["v"]}, "to": {"k": o["to"]["k"], "v": o["to"]["v"]}}

    ops = []
    for o in t["ops"]:
        x = {k: v for k, v in o.items() if k not in ("v", "obs", "calls")}
        if "calls" in o:
            x["calls"] = [{k: v for k, v in c.items() if k != "v"} for c in o["calls"]]
        x["obs"] = [ob(y) for y in o["obs"]]
        ops.append(x)
    return {"id": t["id"], "ops": ops}


def judge(ctx, label, traces, n, workers):
    """HTNOrderTrace on the recorded histories; large batches are split over concurrent TLC runs
    (TLC reads the file and generates the initial states sequentially).  Returns (printed, results)."""
    k = max(1, min(4, len(traces) // 4000))
    size = -(-len(traces) // k)
    parts = [traces[i : i + size] for i in range(0, len(traces), size)]
    d = ctx.sub("judge-%d" % len(ctx.cov["tlc_runs"]))

    def one(arg):
        i, part = arg
        dd = os.path.join(d, "p%d" % i)
        os.makedirs(dd, exist_ok=True)
        path = os.path.join(dd, "traces.ndjson")
        tlc.write_ndjson(path, [_slim(t) for t in part])
        res = tlc.run_tlc(
            "HTNOrderTrace", TRACE_CFG % {"n": n}, dd, env={"TRACES": path}, timeout=3000, workers=max(2, workers // len(parts)), heap="4g"
        )
        os.remove(path)
        if res.error or res.violated:
            raise MachineryError("HTNOrderTrace failed: %s %s" % (res.violated, res.error))
        expected = sum(len(t["ops"]) + 1 for t in part)
        if res.distinct != expected:
            raise MachineryError("trace judge consumed %d states, expected %d" % (res.distinct, expected))
        return res

    with ThreadPoolExecutor(max_workers=len(parts)) as ex:
        results = list(ex.map(one, list(enumerate(parts))))
    return [p for r in results for p in r.printed], results


def other_feature(trace, upto):
    """Input feature for signatures: the shape of the first non-precedence temporal constraint stated so far."""
    cs = []
    for o in trace["ops"][:upto]:
        if o["op"] == "cons":
            cs.append(o["c"])
        elif o["op"] == "build":
            cs += [x["c"] for x in o["calls"] if x["a"] == 0]
    for c in cs:
        if c["op"] != "nontemp":

            def side(t):
                s = t["tk"]
                if t["tk"] in ("start", "end") and t["c"] == 0:
                    s += "(none)"
                if t["d"] != 0 and t["tk"] != "const":
                    s += "+d"
                return s

            return "%s:%s,%s" % (c["op"], side(c["l"]), side(c["r"]))
    return "precedences-only"


def report(ctx, printed, traces, label):
    byid = {t["id"]: t for t in traces}
    for p in printed:
        if p and p[0] == "FAIL":
            t = byid[p[1]]
            ob = t["ops"][p[3] - 1]["obs"][p[4] - 1]
            sig = "%s|%s|%s" % (p[2], ob["cls"], other_feature(t, p[3]))
            if p[2] == "raises":
                sig += "|" + (ob["po"]["x"] or ob["to"]["x"])
            ctx.violation(
                sig,
                "%s: clause %s fails after call %d (%s): partial_order=%r total_order=%r"
                % (label, p[2], p[3], "TaskNetwork" if ob["cls"] == "tn" else "Method", ob["po"], ob["to"]),
                {"trace": t, "clause": p[2], "step": p[3], "obs": p[4]},
            )
        elif p and p[0] == "UNSPEC":
            ctx.cov["unspecified"] += p[2]


def bind(ctx, label, kind, salt, items, n, pool, workers):
    """Replay cases/plans on the real classes (process pool), then let TLC judge the recorded histories."""
    B = 500
    batches = [(kind, salt, items[i : i + B]) for i in range(0, len(items), B)]
    traces = []
    t0 = time.time()
    late = []  # time-outs and skipped cases
    for part in pool.imap(_run_batch, batches):
        for tid, status, r, plan in part:
            if status == "ok":
                traces.append({"id": tid, "ops": r})
            elif status in ("timeout", "skipped"):
                late.append((tid, status, plan))
            else:
                ctx.violation("impl-raises|" + r.split(":")[0], "building a task network raises " + r, {"plan": plan})
    if late:
        # a loaded machine can stall a worker: confirm up to 3 time-outs here with a generous limit
        confirmed = False
        redo = []
        for tid, status, plan in late:
            if status == "timeout" and not confirmed and len(redo) < 3:
                st2, r = guarded(plan, 90)
                redo.append((tid, st2, r, plan))
                confirmed = st2 == "timeout"
        ctx.notes["timeouts_retried"] = ctx.notes.get("timeouts_retried", 0) + len(redo)
        ctx.notes.setdefault("timeout_ids", []).extend([tid for tid, status, _ in late if status == "timeout"][:10])
        if confirmed:
            for tid, status, plan in late:
                if status == "timeout":
                    ctx.violation("impl-nonterminating", "building/querying a task network does not return (20 s, confirmed with 90 s)", {"plan": plan})
            ctx.notes["cases_skipped_after_timeouts"] = ctx.notes.get("cases_skipped_after_timeouts", 0) + sum(1 for x in late if x[1] == "skipped")
        else:
            # spurious: run everything that is still open in this process
            if _TIMEOUTS is not None:
                _TIMEOUTS.value = 0
            done = {tid for tid, _, _, _ in redo}
            redo += [(tid,) + guarded(plan, 90) + (plan,) for tid, status, plan in late if tid not in done]
            for tid, st2, r, plan in redo:
                if st2 == "ok":
                    traces.append({"id": tid, "ops": r})
                elif st2 == "timeout":
                    ctx.violation("impl-nonterminating", "building/querying a task network does not return within 90 s", {"plan": plan})
                else:
                    ctx.violation("impl-raises|" + r.split(":")[0], "building a task network raises " + r, {"plan": plan})
    ctx.notes["replay_s"] = round(ctx.notes.get("replay_s", 0) + time.time() - t0, 1)
    if not traces:
        return
    ctx.cov["evaluations"] += sum(len(o["obs"]) for t in traces for o in t["ops"])
    ctx.cov["distinct_nontrivial"] += sum(1 for t in traces if any(o["op"] in ("prec", "cons") or o.get("calls") for o in t["ops"]))
    t0 = time.time()
    printed, results = judge(ctx, label, traces, n, workers)
    ctx.notes["judge_s"] = round(ctx.notes.get("judge_s", 0) + time.time() - t0, 1)
    for i, res in enumerate(results):
        ctx.add_tlc("trace-%s [%d/%d]" % (label, i + 1, len(results)), res)
    ctx.cov["traces_validated_against_impl"] += len(traces)
    report(ctx, printed, traces, label)
    ctx.sample({"kind": label, "ops": traces[len(traces) // 2]["ops"]})


# ----------------------------------------------------------------------------------------
# judge self-check: corrupted observations must be rejected with the expected clause
# ----------------------------------------------------------------------------------------
def judge_alive(ctx, workers):
    def tr(tid, n, precs, others, po, to):
        ops = [{"op": "task", "t": t, "obs": []} for t in range(1, n + 1)]
        ops += [{"op": "prec", "a": a, "b": b, "v": "b", "obs": []} for a, b in precs]
        ops += [{"op": "cons", "c": c, "obs": []} for c in others]
        ops[-1]["obs"] = [{"cls": "tn", "po": po, "to": to}]
        return {"id": tid, "ops": ops}

    def L(v):
        return {"k": "list", "v": v, "x": ""}

    NONE = {"k": "none", "v": [], "x": ""}
    EXC = {"k": "exc", "v": [], "x": "X"}
    le = {"op": "le", "l": {"tk": "end", "c": 1, "d": 0}, "r": {"tk": "start", "c": 2, "d": 0}}
    fork = [(1, 2), (1, 3)]
    chain = [(1, 2), (2, 3)]
    tri = [(1, 2), (2, 3), (1, 3)]
    expect = {
        1: ("", tr(1, 3, fork, [], L([[1, 2], [1, 3]]), NONE)),
        2: ("partial-order-exact", tr(2, 3, fork, [], L([[1, 2]]), NONE)),
        3: ("partial-order-exact", tr(3, 3, fork, [], L([[1, 2], [1, 3], [2, 3]]), NONE)),
        4: ("total-order-spurious", tr(4, 3, fork, [], L([[1, 3], [1, 2]]), L([1, 2, 3]))),
        5: ("partial-order-missing", tr(5, 3, fork, [], NONE, NONE)),
        6: ("", tr(6, 3, chain, [], L([[1, 2], [2, 3]]), L([1, 2, 3]))),
        7: ("total-order-missing", tr(7, 3, chain, [], L([[1, 2], [2, 3]]), NONE)),
        8: ("total-order-wrong", tr(8, 3, chain, [], L([[1, 2], [2, 3]]), L([1, 3, 2]))),
        9: ("partial-order-exact", tr(9, 3, chain, [], L([[1, 2], [2, 3], [1, 3]]), L([1, 2, 3]))),
        10: ("", tr(10, 3, tri, [], L([[1, 2], [2, 3]]), L([1, 2, 3]))),
        11: ("", tr(11, 3, tri, [], L([[1, 2], [2, 3], [1, 3]]), L([1, 2, 3]))),
        12: ("partial-order-total-equivalent", tr(12, 3, tri, [], L([[1, 2], [1, 3]]), L([1, 2, 3]))),
        13: ("other-kind-partial-order-reported", tr(13, 3, chain, [le], L([[1, 2], [2, 3]]), NONE)),
        14: ("other-kind-total-order-reported", tr(14, 3, chain, [le], NONE, L([1, 2, 3]))),
        15: ("", tr(15, 3, chain, [le], NONE, NONE)),
        16: ("raises", tr(16, 3, fork, [], EXC, NONE)),
        17: ("total-order-spurious", tr(17, 2, [(1, 2), (2, 1)], [], L([[1, 2], [2, 1]]), L([1, 2]))),
        18: ("", tr(18, 2, [(1, 2), (2, 1)], [], L([[2, 1], [1, 2]]), NONE)),
    }
    traces = [t for _, t in expect.values()]
    printed, results = judge(ctx, "alive", traces, 3, workers)
    res = results[0]
    got = {p[1]: p[2] for p in printed if p and p[0] == "FAIL"}
    zone = {p[1] for p in printed if p and p[0] == "UNSPEC"}
    for tid, (clause, _) in expect.items():
        if got.get(tid, "") != clause:
            raise MachineryError("judge self-check: trace %d expected clause %r, judge said %r" % (tid, clause, got.get(tid, "")))
    if zone != {10, 11, 12}:
        raise MachineryError("judge self-check: unspecified zone is %r, expected {10, 11, 12}" % sorted(zone))
    ctx.add_tlc("judge self-check (18 hand-made observations, 11 corrupted)", res)


# ----------------------------------------------------------------------------------------
def run(ctx):
    import multiprocessing

    q = ctx.quick
    W = 8 if q else 16
    salt = ctx.rng.getrandbits(48)
    world()  # import the library before forking
    # ---- T1: design check -------------------------------------------------------------------
    if q:
        t1(ctx, "A", dict(n=3, maxcons=3, universe="UniverseA", view=""), W)
        t1(ctx, "B", dict(n=3, maxcons=20, universe="UniverseB", view="VIEW SetView\n"), W)
    else:
        t1(ctx, "A", dict(n=3, maxcons=4, universe="UniverseA", view=""), W)
        t1(ctx, "B", dict(n=4, maxcons=20, universe="UniverseB", view="VIEW SetView\n"), W)
        t1(ctx, "C", dict(n=5, maxcons=4, universe="UniverseC", view="VIEW SetView\n"), W)
    judge_alive(ctx, W)
    # ---- T2: enumerated networks --------------------------------------------------------------
    jobs = [
        dict(n=0, fam="rel", diag="TRUE", full="TRUE"),
        dict(n=1, fam="rel", diag="TRUE", full="TRUE", hi=1),
        dict(n=2, fam="rel", diag="TRUE", full="TRUE", hi=15),
        dict(n=3, fam="rel", diag="TRUE", half="TRUE", hi=511),
        dict(n=2, fam="mixed", full="TRUE", hi=3),
        dict(n=3, fam="mixed", full="TRUE", hi=63),
        dict(n=6, fam="devs"),
    ]
    if q:
        jobs += [
            dict(n=4, fam="rel", hi=4095),
            dict(n=4, fam="loop", hi=4095),
            dict(n=4, fam="mixed", hi=4095),
        ]
    else:
        jobs += [dict(n=4, fam="rel", diag="TRUE", lo=k * 16384, hi=(k + 1) * 16384 - 1) for k in range(4)]
        jobs += [dict(n=4, fam="mixed", hi=4095, rounds=6)]
        jobs += [dict(n=5, fam="rel", lo=k * 65536, hi=(k + 1) * 65536 - 1) for k in range(16)]
        jobs += [dict(n=5, fam="loop", hi=(1 << 20) - 1, step=16)]
        jobs += [dict(n=5, fam="mixed", hi=(1 << 20) - 1, step=16)]
    small_jobs = [j for j in jobs if j["n"] <= 3 or j["fam"] == "devs"]
    big_jobs = [j for j in jobs if j not in small_jobs]
    par = 6 if q else 8
    ncases = 0
    global _TIMEOUTS
    _TIMEOUTS = multiprocessing.get_context("fork").Value("i", 0)
    # a full collection in a forked worker touches (copies) the whole inherited heap: measured stalls of
    # 10-25 s on a loaded VM; freezing the parent's objects before the fork removes them
    gc.collect()
    gc.freeze()
    pool = multiprocessing.get_context("fork").Pool(6 if q else 12)
    try:
        groups = enumerate_cases(ctx, small_jobs, par)
        devs = [c["o"][0] for j, g in zip(small_jobs, groups) if j["fam"] == "devs" for c in g]
        items = []
        for g in groups:
            for case in g:
                ncases += 1
                items.append((ncases, case))
        bind(ctx, "enumerated networks, <= 3 subtasks (observed after every call)", "case", salt, items, 6, pool, W)
        for w0 in range(0, len(big_jobs), par):
            wave = big_jobs[w0 : w0 + par]
            groups = enumerate_cases(ctx, wave, par)
            byn = {}
            for k, (j, g) in enumerate(zip(wave, groups)):
                for case in g:
                    ncases += 1
                    byn.setdefault(j["n"], []).append((ncases, case))
                groups[k] = None
            for n in sorted(byn):
                fams = sorted({j["fam"] for j in wave if j["n"] == n})
                CH = 160000
                for k in range(0, len(byn[n]), CH):
                    part = byn[n][k : k + CH]
                    label = "enumerated networks, %d subtasks (%s), cases %d..%d" % (n, "/".join(fams), part[0][0], part[-1][0])
                    bind(ctx, label, "case", salt, part, n, pool, W)
                byn[n] = None
        ctx.cov["tlc_runs"].append({"label": "HTNOrderEnum", "runs": len(jobs), "cases": ncases})
        # ---- T3: seeded incremental histories ---------------------------------------------------
        nr = 400 if q else 6000
        plans = []
        for i in range(nr):
            rng = random.Random("%d|r%d" % (salt, i))
            plans.append((100000000 + i, random_plan(rng, 6, devs)))
        bind(ctx, "seeded incremental histories, <= 6 subtasks", "plan", salt, plans, 6, pool, W)
    finally:
        pool.terminate()
        pool.join()
        gc.unfreeze()
    ctx.cov["exhaustive"] = True
    ctx.cov["phase_wall_s"] = dict(ctx.notes)
    ctx.cov["rule"] = (
        "T1: exhaustive BFS of HTNOrder (ordering() as written vs the declarative definitions) over every constraint "
        "list within the stated constants. T2: TLC (HTNOrderEnum) emits every precedence relation incl. self-loops over "
        "0..3 subtasks with every duplicated statement and with/without a non-temporal constraint, every irreflexive "
        "relation over %s, relations plus one self-loop, and relations mixed with one constraint of another kind "
        "(27 deviations per ordered pair: non-strict, equality, negation, start/end swapped, delays incl. 1/2, "
        "container None, global timepoints, numeric side); each case is built on real TaskNetwork/Method objects "
        "(call order and API entry point seeded) and the recorded partial_order()/total_order() are judged by TLC. "
        "T3: %d seeded incremental histories over <= 6 subtasks observed after every call. Non-trivial = a history "
        "with at least one constraint. Unspecified = observations in the zone of DESIGN 7.1 item 9 (unique linear "
        "ordering with redundant precedences), judged by subset + equal transitive closure instead of equality."
        % ("4 subtasks" if q else "4 (with self-loops) and 5 subtasks", nr)
    )
    ctx.assumptions += [
        "TLC and the CommunityModules Json reader are trusted",
        "precedences and other constraints only mention subtasks of the network (constraints on foreign containers are not generated)",
        "partial_order() is compared as a set of pairs (order and repetitions in the returned list are not judged)",
        "conjunctions/disjunctions of temporal atoms are not generated",
    ]


# ----------------------------------------------------------------------------------------
# ./check C34 --replay replay/C34/<hash>.json : rebuild the recorded network on the current tree
# ----------------------------------------------------------------------------------------
def plan_of_trace(trace):
    """The calls of a recorded history (a set_ordered chain is replayed pair by pair)."""
    steps = []
    for o in trace["ops"]:
        look = bool(o["obs"])
        if o["op"] == "build":
            steps += [{"op": "task", "t": t, "look": False} for t in o["ts"]]
            for c in o["calls"]:
                if c["a"] != 0:
                    steps.append({"op": "prec", "a": c["a"], "b": c["b"], "v": c["v"].lower(), "look": False})
                else:
                    steps.append({"op": "cons", "c": c["c"], "look": False})
            steps.append({"op": "look", "look": True})
        elif o["op"] == "prec":
            steps.append({"op": "prec", "a": o["a"], "b": o["b"], "v": o["v"].lower(), "look": look})
        elif o["op"] == "cons":
            steps.append({"op": "cons", "c": o["c"], "look": look})
        elif o["op"] == "task":
            steps.append({"op": "task", "t": o["t"], "look": look})
        else:
            steps.append({"op": "look", "look": look})
    cls = [ob["cls"] for o in trace["ops"] if o["obs"] for ob in o["obs"]]
    return {"cls": sorted(set(cls), reverse=True) or ["tn"], "n": 0, "steps": steps}


def replay(ctx, rec):
    data = rec["data"]
    plan = data["plan"] if "plan" in data else plan_of_trace(data["trace"])
    status, r = guarded(plan, 60)
    if status != "ok":
        print("replay: %s %s" % (status, r))
        return 1
    for i, o in enumerate(r):
        print("call %d: %s" % (i + 1, {k: v for k, v in o.items() if k != "obs"}))
        for ob in o["obs"]:
            print("    %s partial_order=%r total_order=%r" % (ob["cls"], ob["po"], ob["to"]))
    n = max([6] + [o.get("t", 0) for o in r])
    printed, _ = judge(ctx, "replay", [{"id": 1, "ops": r}], n, 4)
    fails = [p for p in printed if p and p[0] == "FAIL"]
    for p in fails:
        print("judge: clause %s violated after call %d (observation %d)" % (p[2], p[3], p[4]))
    if not fails:
        print("judge: no clause violated on the current tree")
    return 1 if fails else 0
