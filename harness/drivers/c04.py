"""C04 -- time-triggered and sequential validation agree on instantaneous plans.

G2 instantaneous problems -> plans (as C03) scheduled at seeded pairwise-distinct rational start
times, listed in shuffled order -> both real validators -> spec/TimeObs.tla (MODE=C04): spec-level
equivalence of UPTimeSem and UPSeqSem on every case (T1), each recorded verdict equals its
specification's verdict, and the two recorded verdicts are equal.
"""
import os
import random
from fractions import Fraction
from multiprocessing import Pool

from .. import tlc, upj, timeobs
from ..common import MachineryError, time_limit, ImplTimeout
from ..gen import Gen
from . import c03

CFG = "SPECIFICATION Spec\nINVARIANT Judge\n"


def worker(job):
    pid, P, L, cap, seed = job
    from unified_planning.engines.plan_validator import SequentialPlanValidator, TimeTriggeredPlanValidator

    rng = random.Random(seed)
    rec = {"pid": pid, "P": P, "keys": upj.keys_of(P), "plans": [], "skip": ""}
    try:
        with time_limit(20):
            problem = upj.build(P)
        if not (SequentialPlanValidator.supports(problem.kind) and TimeTriggeredPlanValidator.supports(problem.kind)):
            rec["skip"] = "unsupported-kind"
            return rec
        with time_limit(60):
            plans = c03._plans(P, problem, rng, L, cap)
    except ImplTimeout:
        rec["skip"] = "timeout"
        return rec
    except Exception as ex:
        rec["skip"] = "build:" + type(ex).__name__
        return rec
    for pl in plans:
        if not pl:
            continue
        # pairwise distinct rational start times (denominators <= 4), in increasing order of the plan...
        times = sorted(rng.sample([Fraction(k, 4) for k in range(0, 40)], len(pl)))
        steps = [{"a": g["a"], "args": g["args"], "t": upj.NV(t), "d": upj.NV(0)} for g, t in zip(pl, times)]
        listed = list(steps)
        if rng.random() < 0.5:
            rng.shuffle(listed)  # ... but listed in arbitrary order
        r = {"steps": listed, "tt": "", "seq": "", "tt_reason": "", "seq_reason": ""}
        r["tt"], r["tt_reason"], _ = timeobs.validate(TimeTriggeredPlanValidator, problem, timeobs.build_tt_plan(problem, listed))
        r["seq"], r["seq_reason"], _ = timeobs.validate(SequentialPlanValidator, problem, timeobs.build_seq_plan(problem, steps))
        rec["plans"].append(r)
    return rec


def judge(ctx, batch, mode, module="TimeObs"):
    d = ctx.sub("judge-" + mode)
    path = os.path.join(d, "batch.ndjson")
    tlc.write_ndjson(path, batch)
    res = tlc.run_tlc(module, CFG, d, env={"BATCH": path, "MODE": mode}, timeout=3000, heap="16g")
    if res.error or res.violated:
        raise MachineryError("%s failed: %s %s" % (module, res.violated, (res.error or "")[-3000:]))
    nplans = sum(len(r["plans"]) for r in batch)
    if res.distinct != nplans:
        raise MachineryError("judge consumed %d of %d plans" % (res.distinct, nplans))
    ctx.add_tlc("%s-%s" % (module, mode), res)
    return res, nplans


def run(ctx):
    q = ctx.quick
    n = 140 if q else 1200
    L = 3 if q else 5
    cap = 60 if q else 150
    g = Gen(ctx.rng)
    corpus = [g.problem() for _ in range(n)]
    jobs = [(i + 1, P, L, cap, ctx.seed * 7919 + i) for i, P in enumerate(corpus)]
    with Pool(14, maxtasksperchild=40) as pool:
        recs = pool.map(worker, jobs, chunksize=2)
    skipped = {}
    for r in recs:
        if r["skip"]:
            skipped[r["skip"]] = skipped.get(r["skip"], 0) + 1
    batch = [r for r in recs if not r["skip"] and r["plans"]]
    if not batch:
        raise MachineryError("no problem could be built")
    res, nplans = judge(ctx, batch, "C04")
    byid = {r["pid"]: r for r in batch}
    for p in res.printed:
        if p and p[0] == "U":
            ctx.cov["unspecified"] += 1
        elif p and p[0] == "FAIL":
            _, pid, pi, clause = p
            r = byid[pid]
            pl = r["plans"][pi - 1]
            ctx.violation(clause, "C04: %s" % clause, {"clause": clause, "problem": r["P"], "plan": pl})
    ctx.cov["evaluations"] = nplans
    ctx.cov["traces_validated_against_impl"] = nplans
    ctx.cov["distinct_nontrivial"] = len({(r["pid"], repr(pl["steps"])) for r in batch for pl in r["plans"] if pl["seq"] == "VALID" or pl["seq_reason"] == "UNSATISFIED_GOALS"})
    ctx.cov["problems_judged"] = len(batch)
    ctx.cov["problems_skipped"] = skipped
    ctx.cov["rule"] = (
        "G2 instantaneous problems; plans as in C03 (length <= %d), each scheduled at seeded pairwise distinct start "
        "times k/4 and listed in shuffled order for the time-triggered validator; one evaluation = one plan validated by "
        "both validators and judged by TLC (spec-level equivalence + both implementations); non-trivial = plans "
        "executable to the end." % L
    )
    ex = next((r for r in batch if any(pl["seq"] == "VALID" for pl in r["plans"])), batch[0])
    ctx.sample({"problem": ex["P"], "plans": [pl for pl in ex["plans"] if pl["seq"] == "VALID"][:2] + ex["plans"][:1]})
    ctx.assumptions += ["TLC, Json reader, harness/upj.py trusted; unspecified zones skipped and counted"]


def replay(ctx, rec):
    from unified_planning.engines.plan_validator import SequentialPlanValidator, TimeTriggeredPlanValidator

    P, pl = rec["data"]["problem"], rec["data"]["plan"]
    problem = upj.build(P)
    r = {"steps": pl["steps"], "tt": "", "seq": "", "tt_reason": "", "seq_reason": ""}
    r["tt"], r["tt_reason"], _ = timeobs.validate(TimeTriggeredPlanValidator, problem, timeobs.build_tt_plan(problem, pl["steps"]))
    if "C04" == "C04":
        steps = sorted(pl["steps"], key=lambda s: timeobs.frac(s["t"]))
        r["seq"], r["seq_reason"], _ = timeobs.validate(SequentialPlanValidator, problem, timeobs.build_seq_plan(problem, steps))
    batch = [{"pid": 1, "P": P, "keys": upj.keys_of(P), "plans": [r]}]
    res, _ = judge(ctx, batch, "C04")
    fails = [p for p in res.printed if p and p[0] == "FAIL"]
    for f in fails:
        print("REPRODUCED property=C04 clause=%s" % f[3])
    if not fails:
        print("replay: no violation on the current tree (tt %s)" % r["tt"])
    return 1 if fails else 0
