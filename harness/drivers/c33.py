"""C33 -- ProblemKind ordering is a lattice consistent with equality and hashing.

T1  spec/ProblemKindLattice.tla (via MCProblemKindLattice): the lattice laws of the declarative
    order (reflexive, transitive, antisymmetric w.r.t. Eq, Union/Inter = lub/glb, hash key,
    upgrading preserves Le, well-formed upgrade tables) for every pair of kinds over a small
    feature universe, third kinds quantified inside the laws.  The version tables are read from
    the real unified_planning.model.problem_kind_versioning module (FEATURES_VERSIONS,
    LATEST_PROBLEM_KIND_VERSION, upgrade_functions_map tabulated on every subset of the
    universe) and handed to TLC as JSON.
T2  TLC (ProblemKindLatticeEnum) emits every kind, every ordered pair (+ every kind paired with
    itself as one object) and the query script of each pair; the scripts are run on real
    ProblemKind objects (fresh objects per query), recording each operand's version, feature set
    and hash before and after every call; thorough tier: also a.union(b) <= c and
    c <= a.intersection(b) for every third kind c of the same version (triples).
T3  TLC (ProblemKindLatticeTrace) judges every recorded step against the specification's query
    actions (result, operands unchanged, equal kinds hash equally) and checks the laws on the
    recorded values themselves.
Cover stage (spec/ProblemKindLatticeUpgrade.tla): the hand-picked universes above are small; the features
    that have an entry in an upgrade table are found by probing the real upgrade functions, and every
    combination of them is checked: UpgradeMonotone / UpgradeWF on the real tables for every covering
    pair of kinds (a, a + one feature), and the same pairs as real ProblemKind objects compared before
    and after upgrading.  Thorough tier: also the interaction universes (features that meet in one
    rule or one result) through T1-T3.
Python builds objects, calls the API and projects observations to integers; every verdict is a
TLA+ clause evaluated by TLC.
"""
import os
import re

from .. import tlc
from ..common import MachineryError, time_limit, ImplTimeout

# Feature universes (generator configuration; the version data of each feature is read from the
# real module).  Each contains deprecated features, features introduced in versions 2 and 3, and
# is closed under the upgrade functions (checked by TLC: UpgradeWF).
UNIVERSES = {
    # quick tier: 6 features, 168 kinds, 28 224 ordered pairs
    "U0": ["CONTINUOUS_NUMBERS", "NUMERIC_FLUENTS", "DISCRETE_TIME", "REAL_FLUENTS", "INT_TYPE_DURATIONS", "PROCESSES"],
    # thorough tier: U0 again with all same-version triples; U2..U5 (5 features, 84-88 kinds) cover the remaining
    # rules of upgrade_1_2; U1 = U0 + a plain version-1 feature (336 kinds, 112 896 pairs)
    "U1": ["NEGATIVE_CONDITIONS", "CONTINUOUS_NUMBERS", "NUMERIC_FLUENTS", "DISCRETE_TIME",
           "REAL_FLUENTS", "INT_TYPE_DURATIONS", "PROCESSES"],
    "U2": ["DISCRETE_NUMBERS", "NUMERIC_FLUENTS", "EQUALITIES", "INT_FLUENTS", "EVENTS"],
    "U3": ["ACTIONS_COST", "NUMERIC_FLUENTS", "INT_NUMBERS_IN_ACTIONS_COST", "REAL_NUMBERS_IN_ACTIONS_COST", "EVENTS"],
    "U4": ["OVERSUBSCRIPTION", "CONTINUOUS_NUMBERS", "INT_NUMBERS_IN_OVERSUBSCRIPTION",
           "REAL_NUMBERS_IN_OVERSUBSCRIPTION", "NON_LINEAR_CONTINUOUS_EFFECTS"],
    "U5": ["CONTINUOUS_TIME", "DISCRETE_NUMBERS", "REAL_TYPE_DURATIONS", "INT_TYPE_DURATIONS", "DECREASE_CONTINUOUS_EFFECTS"],
}

CONST = """CONSTANTS NF <- TabNF
 Latest <- TabLatest
 Added <- TabAdded
 Depr <- TabDepr
 Up <- TabUp
 UpOut <- TabUpOut
 NObj = 2
 FullBounds = %(full)s
"""
ENUM_CONST = " Triples = %(triples)s\n WithBounds = %(bounds)s\n"
MC_CFG = "SPECIFICATION Spec\n" + CONST + ENUM_CONST + """ OperandPairs <- FirstPair
VIEW ViewObjs
INVARIANT LawOrder
INVARIANT LawBounds
INVARIANT LawHash
INVARIANT LawUpgrade
INVARIANT LawTables
%(cross)sPROPERTY QueryPure
PROPERTY RetLaws
"""
ENUM_CFG = "INIT Init\nNEXT EnumNext\n" + CONST + ENUM_CONST
TRACE_CFG = "SPECIFICATION TraceSpec\n" + CONST + " HasRows = %(triples)s\n NBlk = %(nblk)d\nINVARIANT Verdict\n"
NBLK = 64
COVER_CFG = """SPECIFICATION CoverSpec
CONSTANTS NF <- CTabNF
 Latest <- CTabLatest
 Added <- CTabAdded
 Depr <- CTabDepr
 Up <- CTabUp
 UpOut <- CTabUpOut
 CoverSeq <- CTabCoverSeq
 HasObs <- CTabHasObs
 Obs <- CTabObs
 NObj = 2
 FullBounds = FALSE
INVARIANT CoverVerdict
"""
COVER_SIG = {"T1-LawUpgradeCover": "T1|LawUpgradeCover", "T1-LawTables": "T1|LawTables"}
MAX_COVER_FEATURES = 16   # 2^16 subsets per upgrade function: the bound of ProblemKindLatticeTables
MAX_COMPONENT_FEATURES = 6  # a derived universe is replayed on all pairs of kinds: 6 features = 168 kinds

OPNAMES = {1: "==", 2: "<=", 3: "union", 4: "intersection", 5: "a <= a.union(b)", 6: "b <= a.union(b)",
           7: "a.intersection(b) <= a", 8: "a.intersection(b) <= b", 9: "upgrade both, then <="}
CHUNK = 24
FAIL_RE = re.compile(r'^"<<\\"FAIL\\", (\d+), \{(.*)\}>>"$')
ITEM_RE = re.compile(r'<<(\d+), \\"([^"\\]*)\\", \\"([^"\\]*)\\", \\"([^"\\]*)\\">>')


def versioning():
    from unified_planning.model import problem_kind_versioning as V

    return V


def tables(U):
    """Project the real version tables onto the universe U (no interpretation: table look-ups
    and calls of the real upgrade functions only)."""
    V = versioning()
    from unified_planning.model.problem_kind import all_features

    for f in U:
        if f not in all_features:
            raise MachineryError("universe feature %s is not a ProblemKind feature" % f)
    nf = len(U)
    bit = {f: i for i, f in enumerate(U)}
    latest = V.LATEST_PROBLEM_KIND_VERSION
    added = [V.FEATURES_VERSIONS.get(f, (1, None))[0] for f in U]
    depr = [V.FEATURES_VERSIONS.get(f, (1, None))[1] or 0 for f in U]
    up, upx = [], []
    for v in range(1, latest):
        fn = V.upgrade_functions_map[(v, v + 1)]
        row, rowx = [], []
        for m in range(2 ** nf):
            F = {U[i] for i in range(nf) if m >> i & 1}
            with time_limit(5):
                R = fn(F)
            row.append(sorted(bit[f] + 1 for f in R if f in bit))
            rowx.append(sum(1 for f in R if f not in bit))
        up.append(row)
        upx.append(rowx)
    return {"nf": nf, "latest": latest, "added": added, "depr": depr, "up": up, "upx": upx, "names": U}


def upgrade_profile():
    """Which features do the REAL upgrade functions read, write or remove, and which of them meet in one rule
    or one result?  Found by probing upgrade_functions_map (on the empty set, every single feature, every pair
    of features, everything, everything but one feature).  Generator configuration only: it decides which
    features the enumerated kinds are made of, never a verdict."""
    import itertools

    V = versioning()
    from unified_planning.model.problem_kind import all_features

    feats = sorted(all_features)
    latest = V.LATEST_PROBLEM_KIND_VERSION
    added = {f: V.FEATURES_VERSIONS.get(f, (1, None))[0] for f in feats}
    sources, written, removed, links = set(), set(), set(), set()
    touched = {}  # version v -> features the upgrade function of v reads or removes
    calls = 0
    for v in range(1, latest):
        fn = V.upgrade_functions_map[(v, v + 1)]
        av = [f for f in feats if added[f] <= v]
        src, rem = set(), set()
        with time_limit(60):
            base = fn(set())
            single = {f: fn({f}) for f in av}
            full = fn(set(av))
            written |= base | (full - set(av))
            for f in av:
                if single[f] != base | {f} or fn(set(av) - {f}) - {f} != full - {f}:
                    src.add(f)
                if f not in single[f]:
                    rem.add(f)
                written |= single[f] - {f}
            for f, g in itertools.combinations(av, 2):
                r = fn({f, g})
                if r != single[f] | single[g]:  # a rule that needs both, or one that excludes the other
                    src |= {f, g}
                    links.add((f, g))
                    written |= r - {f, g}
                elif ((single[f] - {f}) & (single[g] - {g})) - base:  # two rules that write the same feature
                    links.add((f, g))
            calls += 2 + 2 * len(av) + len(av) * (len(av) - 1) // 2
        touched[v] = src | rem
        sources |= src
        removed |= rem
    deprecated = {f for f in feats if V.FEATURES_VERSIONS.get(f, (1, None))[1] is not None}
    return {"features": feats, "added": added, "latest": latest, "sources": sources, "written": written,
            "removed": removed, "deprecated": deprecated, "links": links, "calls": calls, "touched": touched}


def upgrade_closure(prof, feats):
    """Smallest superset of `feats` that no upgrade function leaves.  Up to 8 features every subset is tried (a
    non-monotone function cannot hide a result); beyond, the empty set, singletons, pairs and the whole set (the
    cover stage tabulates every subset anyway and extends its universe by what it meets)."""
    import itertools

    V = versioning()
    X = set(feats)
    while len(X) <= MAX_COVER_FEATURES:
        Y = set(X)
        for v in range(1, prof["latest"]):
            fn = V.upgrade_functions_map[(v, v + 1)]
            av = sorted(f for f in X if prof["added"].get(f, 1) <= v)
            with time_limit(60):
                if len(av) <= 8:
                    probes = ({av[i] for i in range(len(av)) if m >> i & 1} for m in range(2 ** len(av)))
                else:
                    probes = itertools.chain([set(), set(av)], ({f} for f in av), (set(p) for p in itertools.combinations(av, 2)))
                for S in probes:
                    Y |= fn(S)
        Y &= set(prof["features"])  # a result that is no ProblemKind feature stays outside: UpOut counts it
        if Y == X:
            break
        X = Y
    return X


def order_features(prof, feats):
    return sorted(feats, key=lambda f: (prof["added"].get(f, 1), f))


def derived_universes(prof):
    """([cover universes], [interaction universes]).
    Cover universe: every feature an upgrade function reads, writes or removes (+ every deprecated feature):
    the whole upgrade tables, checked by ProblemKindLatticeUpgrade.  (One universe as long as these are at most
    MAX_COVER_FEATURES features; beyond, the groups of features that meet in one rule or result are kept together
    and packed into several universes: only combinations across groups are lost.)
    Interaction universes: the connected components of `links` (features that meet in one rule or in one
    result), each closed under the upgrade functions: small enough for the all-pairs replay on real objects."""
    cover = upgrade_closure(prof, prof["sources"] | prof["written"] | prof["removed"] | prof["deprecated"])
    comp = {}
    for f, g in sorted(prof["links"]):
        a, b = comp.setdefault(f, {f}), comp.setdefault(g, {g})
        if a is not b:
            a |= b
            for x in b:
                comp[x] = a
    comps = []
    for c in sorted({tuple(sorted(c)) for c in comp.values()}):
        U = upgrade_closure(prof, c)
        if len(U) > MAX_COMPONENT_FEATURES:  # too many kinds for all pairs: one universe per linked pair instead
            comps += [upgrade_closure(prof, p) for p in sorted(prof["links"]) if set(p) <= set(c)]
        else:
            comps.append(U)
    out = []
    for U in comps:
        U = order_features(prof, U)
        if U not in out and len(U) <= MAX_COMPONENT_FEATURES:
            out.append(U)
    covers = [cover]
    if len(cover) > MAX_COVER_FEATURES:
        groups = [set(c) for c in sorted({tuple(sorted(c)) for c in comp.values()})]
        groups += [{f} for f in sorted(cover) if f not in comp and (f in prof["sources"] or f in prof["removed"] or f in prof["deprecated"])]
        covers = []
        for g in groups:
            g = upgrade_closure(prof, g)
            fit = [c for c in covers if len(c | g) <= MAX_COVER_FEATURES]
            if fit:
                fit[0] |= g
            else:
                covers.append(set(g))
    return [order_features(prof, c) for c in covers], out


def pad_universe(prof, U):
    """Add a deprecated / version-1 / version-2.. feature where the universe has none (thorough tier: every
    universe exercises deprecation and every version)."""
    V = versioning()
    U = list(U)
    fv = lambda f: V.FEATURES_VERSIONS.get(f, (1, None))
    wants = [lambda f: fv(f)[1] is not None] + [(lambda f, v=v: fv(f)[0] == v) for v in range(1, prof["latest"] + 1)]
    for want in wants:
        if not any(want(f) for f in U):
            U += [f for f in prof["features"] if want(f) and f not in U][:1]
    return order_features(prof, upgrade_closure(prof, U))


def cover_tables(U, prof, full):
    """The real version tables on the (large) universe U for the cover stage: the upgrade functions tabulated
    on every subset as bit masks, and the features the enumerated kinds of each version are made of."""
    V = versioning()
    nf = len(U)
    bit = {f: i for i, f in enumerate(U)}
    latest = V.LATEST_PROBLEM_KIND_VERSION
    added = [V.FEATURES_VERSIONS.get(f, (1, None))[0] for f in U]
    depr = [V.FEATURES_VERSIONS.get(f, (1, None))[1] or 0 for f in U]
    upm, upx, cover = [], [], []
    outside = set()
    for v in range(1, latest):
        fn = V.upgrade_functions_map[(v, v + 1)]
        row, rowx = [], []
        with time_limit(120):
            for m in range(2 ** nf):
                R = fn({U[i] for i in range(nf) if m >> i & 1})
                row.append(sum(1 << bit[f] for f in R if f in bit))
                out = [f for f in R if f not in bit]
                rowx.append(len(out))
                outside.update(out)
        upm.append(row)
        upx.append(rowx)
        avail = [i + 1 for i in range(nf) if added[i] <= v]
        if full:
            cover.append(avail)
        else:  # features the function of v reads or removes, and features that do not count in v
            touched = prof["touched"][v]
            cover.append([i for i in avail if U[i - 1] in touched or (depr[i - 1] and depr[i - 1] <= v)])
    return {"nf": nf, "latest": latest, "added": added, "depr": depr, "upm": upm, "upx": upx, "cover": cover, "names": U,
            "outside": sorted(outside)}


def cover_observations(U, tab):
    """For every covering pair of the cover stage (kind a = (v, F) over cover[v], b = a plus one feature g): the
    comparisons of the real objects, before and after upgrading both.  Tabulated for the whole case space of the
    specification (nothing is selected here), fresh objects for every query; judged by ProblemKindLatticeUpgrade."""
    from unified_planning.model.problem_kind import ProblemKind as PK

    V = versioning()
    latest = tab["latest"]

    def up(feats, v, w):
        return PK(V.equalize_versions(set(feats), set(), v, w)[0], version=w)

    obs = []
    n = 0
    for v in range(1, latest):
        cov = [U[i - 1] for i in tab["cover"][v - 1]]
        rows = []
        for k in range(2 ** len(cov)):
            F = [cov[j] for j in range(len(cov)) if k >> j & 1]
            row = []
            for j, g in enumerate(cov):
                if k >> j & 1:
                    row.append([])
                    continue
                G = F + [g]
                rec = [0]
                try:
                    with time_limit(5):
                        rec.append(int(PK(F, version=v) <= PK(G, version=v)))
                        rec.append(int(PK(G, version=v) <= PK(F, version=v)))
                        for w in range(v + 1, latest + 1):
                            rec.append(int(up(F, v, w) <= up(G, v, w)))
                            rec.append(int(up(G, v, w) <= up(F, v, w)))
                            rec.append(int(PK(F, version=v) <= up(G, v, w)))
                            rec.append(int(up(G, v, w) <= PK(F, version=v)))
                except MachineryError:
                    raise
                except Exception:
                    rec = [1] + [0] * (2 + 4 * (latest - v))
                n += len(rec) - 1
                row.append(rec)
            rows.append(row)
        obs.append(rows)
    return obs, n


def check_upgrade_tables(ctx, name, U, prof, full, observe, corrupt=None):
    """Cover stage (ProblemKindLatticeUpgrade): UpgradeMonotone (both directions) on every covering pair of kinds
    of one version, UpgradeWF on every kind, over the universe of all features the real upgrade functions touch;
    `observe`: the same pairs as real ProblemKind objects, compared before and after upgrading."""
    if len(U) > MAX_COVER_FEATURES:
        raise MachineryError("the upgrade functions touch %d features: more than the cover stage tabulates" % len(U))
    d = ctx.sub(name)
    while True:
        tab = cover_tables(U, prof, full)
        more = [f for f in tab["outside"] if f in prof["features"]]
        if not more or len(U) + len(more) > MAX_COVER_FEATURES:
            break
        U = order_features(prof, list(U) + more)  # a result the probes did not show: the universe grows
    if not any(r != m for row in tab["upm"] for m, r in enumerate(row)):
        raise MachineryError("cover universe %s: every upgrade function is the identity on it: vacuous" % name)
    if not any(len(c) >= 2 for c in tab["cover"]):
        raise MachineryError("cover universe %s: no version with two features to combine: vacuous" % name)
    tab["hasobs"], tab["obs"], nobs = 0, [], 0
    if observe:
        try:
            tab["obs"], nobs = cover_observations(U, tab)
            tab["hasobs"] = 1
        except ImplTimeout:
            ctx.violation("impl-nonterminating", "a ProblemKind comparison does not return within its time limit", {"universe": U})
    if corrupt is not None:  # --selftest: falsify recorded fields, the judge must object
        corrupt(tab)
    tpath = os.path.join(d, "tables.json")
    tlc.write_json(tpath, tab)
    # TLC evaluates the constant tables once per worker: few workers for the small case space
    res = tlc.run_tlc("ProblemKindLatticeUpgrade", COVER_CFG, os.path.join(d, "t1"), env={"TABLES": tpath}, timeout=3000,
                      workers=(8 if full else 2))
    if res.error or res.violated:
        raise MachineryError("ProblemKindLatticeUpgrade failed: %s %s" % (res.violated, res.error))
    ctx.add_tlc("cover %s (upgrade laws%s on covering pairs of kinds)" % (name, " + real objects" if tab["hasobs"] else ""), res)
    ctx.cov["evaluations"] += sum(len(r) for r in tab["upm"]) + nobs
    expected = [p[1] for p in res.printed if isinstance(p, list) and len(p) == 2 and p[0] == "COVER"]
    nav = [len(c) for c in tab["cover"]]
    if not expected or expected[0] != 1 + sum(2 ** n + n * 2 ** n // 2 for n in nav):
        raise MachineryError("cover stage: TLC counts %r cases for %r features per version" % (expected, nav))
    if res.distinct != expected[0]:
        raise MachineryError("cover stage visited %d states, expected %d" % (res.distinct, expected[0]))
    if tab["hasobs"]:
        ctx.cov["traces_validated_against_impl"] += sum(n * 2 ** n // 2 for n in nav)
    V = versioning()

    def kind(v, m):
        return {"version": v, "features": [U[i] for i in range(len(U)) if m >> i & 1]}

    def upgraded(k):  # witness data only: the real functions applied to the kinds of the failed case
        out, F, v = {}, set(k["features"]), k["version"]
        with time_limit(5):
            while v < tab["latest"]:
                F = V.upgrade_functions_map[(v, v + 1)](F)
                v += 1
                out["to version %d" % v] = sorted(F)
        return out

    fails = sorted(tuple(p[1:]) for p in res.printed if isinstance(p, list) and len(p) == 6 and p[0] == "FAIL")
    detailed = {}
    for v, ma, mb, clause, feat in fails:
        sig = "|".join(x for x in (COVER_SIG.get(clause, clause), feat) if x)
        data = {"universe": U, "universe_name": name, "clause": clause, "cover_case": [v, ma, mb]}
        if detailed.get(sig, 0) < 3:
            detailed[sig] = detailed.get(sig, 0) + 1
            a, b = kind(v, ma), kind(v, mb)
            data.update({"a": a, "b": b, "a_upgraded": upgraded(a), "b_upgraded": upgraded(b),
                         "tables": {k: tab[k] for k in ("added", "depr", "latest", "cover")}})
            if tab["hasobs"] and ma != mb:
                cov = tab["cover"][v - 1]
                k = sum(1 << j for j, i in enumerate(cov) if ma >> (i - 1) & 1)
                j = next(j for j, i in enumerate(cov) if (mb & ~ma) >> (i - 1) & 1)
                data["recorded <<status, a<=b, b<=a, (a_w<=b_w, b_w<=a_w, a<=b_w, b_w<=a : w)>>"] = tab["obs"][v - 1][k][j]
        what = ("the upgrade functions of problem_kind_versioning violate %s on kinds of one version that differ in one feature"
                % clause[3:] if clause.startswith("T1-") else
                "real ProblemKind objects that differ in one feature, compared before and after upgrading: clause %s fails" % clause)
        ctx.violation(sig, "%s (%s)" % (what, feat or "-"), data)
    return {"features": len(U), "kinds_made_of": [[U[i - 1] for i in c] for c in tab["cover"]], "states": res.distinct,
            "failed_clauses": len(fails)}


class Recorder:
    """Runs query scripts on real ProblemKind objects and projects what is observable."""

    def __init__(self, U, kinds):
        from unified_planning.model.problem_kind import ProblemKind

        self.PK = ProblemKind
        self.V = versioning()
        self.U = U
        self.bit = {f: i for i, f in enumerate(U)}
        self.kinds = kinds  # id -> (dv, mask)
        self.states = []  # [version, mask, extras, hash id]
        self.sidx = {}
        self.hids = {}
        self.hvals = []
        self.excs = ["none"]
        self.eidx = {"none": 1}
        self.args = {
            kid: ([U[i] for i in range(len(U)) if m >> i & 1], (None if dv == 0 else dv)) for kid, (dv, m) in kinds.items()
        }

    def mk(self, kid):
        feats, version = self.args[kid]
        return self.PK(feats, version=version)

    def obs(self, k):
        m = 0
        x = 0
        for f in k.features:
            i = self.bit.get(f)
            if i is None:
                x += 1
            else:
                m |= 1 << i
        h = hash(k)
        hid = self.hids.get(h)
        if hid is None:
            hid = self.hids[h] = len(self.hids) + 1
            self.hvals.append(h)
        key = (k.version, m, x, hid)
        sid = self.sidx.get(key)
        if sid is None:
            self.states.append(list(key))
            sid = self.sidx[key] = len(self.states)
        return sid

    def exc(self, name):
        i = self.eidx.get(name)
        if i is None:
            self.excs.append(name)
            i = self.eidx[name] = len(self.excs)
        return i

    def call(self, op, w, A, B):
        if op == 1:
            return A == B
        if op == 2:
            return A <= B
        if op == 3:
            return A.union(B)
        if op == 4:
            return A.intersection(B)
        if op == 5:
            return A <= A.union(B)
        if op == 6:
            return B <= A.union(B)
        if op == 7:
            return A.intersection(B) <= A
        if op == 8:
            return A.intersection(B) <= B
        if op == 9:
            fa = self.V.equalize_versions(set(A.features), set(), A.version, w)[0]
            fb = self.V.equalize_versions(set(B.features), set(), B.version, w)[0]
            return self.PK(fa, version=w) <= self.PK(fb, version=w)
        raise MachineryError("unknown op %r" % op)

    def step(self, op, w, ia, ib, alias):
        A = self.mk(ia)
        B = A if alias else self.mk(ib)
        pa, pb = self.obs(A), self.obs(B)
        try:
            r = self.call(op, w, A, B)
            if r is True or r is False:
                status, res = 0, int(r)
            elif isinstance(r, self.PK):
                status, res = 0, self.obs(r)
            else:
                status, res = 1, self.exc("returned " + type(r).__name__)
        except MachineryError:
            raise
        except Exception as ex:
            status, res = 1, self.exc(type(ex).__name__)
        qa, qb = self.obs(A), self.obs(B)
        return [op, w, pa, pb, qa, qb, status, res]

    def rows(self, ia, ib, group):
        """a.union(b) <= c and c <= a.intersection(b) for every c of the group (fresh objects)."""
        ur = [0] * ((len(group) + CHUNK - 1) // CHUNK)
        ir = list(ur)
        rx = 0
        for t, ic in enumerate(group):
            try:
                r1 = self.mk(ia).union(self.mk(ib)) <= self.mk(ic)
                r2 = self.mk(ic) <= self.mk(ia).intersection(self.mk(ib))
                if r1 is True:
                    ur[t // CHUNK] |= 1 << (t % CHUNK)
                elif r1 is not False:
                    rx += 1
                if r2 is True:
                    ir[t // CHUNK] |= 1 << (t % CHUNK)
                elif r2 is not False:
                    rx += 1
            except Exception:
                rx += 1
        return ur, ir, rx


def decode_state(rec, sid):
    v, m, x, hid = rec.states[sid - 1]
    return {"version": v, "features": [rec.U[i] for i in range(len(rec.U)) if m >> i & 1],
            "features_outside_universe": x, "hash": rec.hvals[hid - 1]}


def describe_kind(U, kinds, kid):
    dv, m = kinds[kid]
    return {"version": (None if dv == 0 else dv), "features": [U[i] for i in range(len(U)) if m >> i & 1]}


def check_universe(ctx, name, U, full, triples, bounds, only=None, coverage=False, corrupt=None, derived=False):
    """T1 + T2 + T3 for one feature universe.  `only` = list of (a, b, al) restricts the replay (--replay).
    `derived`: an interaction universe computed from the upgrade functions (unpadded in the quick tier)."""
    V = versioning()
    d = ctx.sub(name)
    tab = tables(U)
    if derived:
        if not any(r != sorted(i + 1 for i in range(len(U)) if m >> i & 1) for row in tab["up"] for m, r in enumerate(row)):
            raise MachineryError("derived universe %s: every upgrade function is the identity on it: vacuous" % name)
    elif not (any(tab["depr"]) and 2 in tab["added"] and 3 in tab["added"] and 1 in tab["added"]):
        raise MachineryError("universe %s lacks deprecated / version-2 / version-3 features: vacuous" % name)
    tpath = os.path.join(d, "tables.json")
    tlc.write_json(tpath, tab)
    cfgd = {"full": "TRUE" if full else "FALSE", "cross": "INVARIANT LawCross\n" if full else "",
            "triples": "TRUE" if triples else "FALSE", "bounds": "TRUE" if bounds else "FALSE", "nblk": NBLK}
    # ---- G1 + T1 in one TLC run: MCProblemKindLattice extends ProblemKindLatticeEnum ---------
    # G1: TLC enumerates kinds, pairs, scripts.  T1: lattice laws of the specification over the real tables.
    kp, pp, sp = (os.path.join(d, f) for f in ("kinds.ndjson", "pairs.ndjson", "scripts.ndjson"))
    env = {"TABLES": tpath, "KINDS": kp, "PAIRS": pp, "SCRIPTS": sp}
    if only is not None:
        res = tlc.run_tlc("ProblemKindLatticeEnum", ENUM_CFG % cfgd, os.path.join(d, "enum"), env=env, workers=1, timeout=3000)
        if res.error or res.violated:
            raise MachineryError("ProblemKindLatticeEnum failed: %s %s" % (res.violated, res.error))
    else:
        res = tlc.run_tlc("MCProblemKindLattice", MC_CFG % cfgd, os.path.join(d, "t1"), env=env, timeout=3000, coverage=coverage)
        if res.error:
            raise MachineryError(res.error)
    krows = tlc.read_ndjson(kp)
    kinds = {r["id"]: (r["dv"], r["m"]) for r in krows}
    kver = {r["id"]: r["v"] for r in krows}
    nk = len(krows)
    scripts = {r["sc"]: r["ops"] for r in tlc.read_ndjson(sp)}
    pairs = tlc.read_ndjson(pp)
    if len(pairs) != nk * nk + nk:
        raise MachineryError("enumeration emitted %d pairs for %d kinds" % (len(pairs), nk))
    if only is None:
        ctx.add_tlc("T1 %s (%s bounds)" % (name, "full" if full else "representative"), res)
        if res.violated:
            tr = [s["vars"] for s in res.trace]
            ctx.violation("T1|" + res.violated,
                          "the specification instantiated with the real version tables violates %s" % res.violated,
                          {"universe": U, "tables": {k: tab[k] for k in ("added", "depr", "latest")}, "trace": tr})
        elif res.distinct != 1 + nk + nk * nk:
            raise MachineryError("T1 visited %d states, expected %d (every pair of kinds)" % (res.distinct, 1 + nk + nk * nk))
        if coverage and not res.violated:
            for act in ("New", "Query"):
                if res.coverage.get(act, (0, 0))[1] == 0:
                    raise MachineryError("vacuous T1: action %s never taken" % act)
    # ---- T2: run the scripts on real objects ------------------------------------------
    rec = Recorder(U, kinds)
    groups = {}
    for r in krows:
        groups.setdefault(r["v"], []).append(r["id"])
    lem = [[2] * nk for _ in range(nk)]
    eqm = [[2] * nk for _ in range(nk)]
    cases = []
    rowrecs = []
    nsteps = 0
    if only is not None:
        want = set(only)
        pairs = [p for p in pairs if (p["a"], p["b"], p["al"]) in want]
    for n, p in enumerate(pairs):
        ia, ib, al = p["a"], p["b"], p["al"]
        try:
            with time_limit(20 if p["rows"] else 5):
                st = [rec.step(op, w, ia, ib, al == 1) for (op, w) in scripts[p["sc"]]]
                ur, ir, rx = rec.rows(ia, ib, groups[kver[ia]]) if p["rows"] else ([], [], 0)
        except ImplTimeout:
            ctx.violation("impl-nonterminating", "a ProblemKind query does not return within its time limit",
                          {"universe": U, "a": describe_kind(U, kinds, ia), "b": describe_kind(U, kinds, ib)})
            continue
        if not al:
            for s in st:
                if s[6] == 0 and s[0] == 1:
                    eqm[ia - 1][ib - 1] = s[7]
                if s[6] == 0 and s[0] == 2:
                    lem[ia - 1][ib - 1] = s[7]
        rw = 0
        if p["rows"]:
            rowrecs.append({"ur": ur, "ir": ir, "rx": rx})
            rw = len(rowrecs)
        cases.append({"id": n + 1, "a": ia, "b": ib, "al": al, "st": st, "rw": rw})
        nsteps += len(st) + p["rows"]
        ctx.cov["evaluations"] += len(st) + (2 * len(groups[kver[ia]]) if p["rows"] else 0)
    if not cases:
        raise MachineryError("no case was replayed")
    if corrupt is not None:  # --selftest: falsify recorded fields, the judge must object
        corrupt(cases, rec, rowrecs)
    cpath, spath, epath, mpath, rpath = (
        os.path.join(d, f) for f in ("cases.ndjson", "states.ndjson", "excs.ndjson", "matrix.ndjson", "rows.ndjson")
    )
    tlc.write_ndjson(cpath, cases)
    tlc.write_ndjson(rpath, rowrecs)
    tlc.write_ndjson(spath, rec.states)
    tlc.write_ndjson(epath, rec.excs)
    tlc.write_ndjson(mpath, [{"le": lem[i], "eq": eqm[i]} for i in range(nk)])
    # ---- T3: TLC judges -----------------------------------------------------------------
    res = tlc.run_tlc("ProblemKindLatticeTrace", TRACE_CFG % cfgd, os.path.join(d, "judge"),
                      env={"TABLES": tpath, "KINDS": kp, "STATES": spath, "EXCS": epath, "MATRIX": mpath, "CASES": cpath, "ROWS": rpath},
                      timeout=3000)
    if res.error or res.violated:
        raise MachineryError("ProblemKindLatticeTrace failed: %s %s" % (res.violated, res.error))
    expected = nsteps + len(cases) + NBLK
    if res.distinct != expected:
        raise MachineryError("trace judge consumed %d states, expected %d" % (res.distinct, expected))
    ctx.add_tlc("judge %s" % name, res)
    ctx.cov["traces_validated_against_impl"] += len(cases)
    # cross-version == is outside the property statement (QUnspecified)
    ctx.cov["unspecified"] += sum(1 for c in cases if kver[c["a"]] != kver[c["b"]])
    ctx.cov["distinct_nontrivial"] += sum(
        1 for c in cases if c["al"] == 0 and c["a"] != c["b"] and kver[c["a"]] == kver[c["b"]] and lem[c["a"] - 1][c["b"] - 1] == 1
    )
    byid = {c["id"]: c for c in cases}
    nfail = 0
    detailed = {}
    # the judge prints ToString(<<"FAIL", id, {<<step, clause, feature, extra>>, ...}>>) on one line;
    # workers print in any order: sort by case id so that reports are deterministic
    matches = [m for m in map(FAIL_RE.match, res.stdout.splitlines()) if m]
    for m in sorted(matches, key=lambda m: int(m.group(1))):
        line = m.group(0)
        c = byid[int(m.group(1))]
        fails = sorted((int(x[0]),) + x[1:] for x in ITEM_RE.findall(m.group(2)))
        if not fails or len(fails) != m.group(2).count("<<"):
            raise MachineryError("cannot parse judge output line: %s" % line[:300])
        for step, clause, feat, extra in fails:
            sig = "|".join(x for x in (clause, feat, extra) if x)
            nfail += 1
            data = {"universe": U, "universe_name": name, "pair": [c["a"], c["b"], c["al"]], "clause": clause, "step": step}
            query = "a.union(b) <= c / c <= a.intersection(b) for every c of the version"
            if step <= len(c["st"]):
                s = c["st"][step - 1]
                query = OPNAMES[s[0]] + (" (to version %d)" % s[1] if s[0] == 9 else "")
            if detailed.get(sig, 0) < 3:  # full witness for the first occurrences of each signature only
                detailed[sig] = detailed.get(sig, 0) + 1
                data.update({"a": describe_kind(U, kinds, c["a"]), "b": describe_kind(U, kinds, c["b"]),
                             "same_object": bool(c["al"]), "query": query})
                if step <= len(c["st"]):
                    data["a_before"], data["b_before"] = decode_state(rec, s[2]), decode_state(rec, s[3])
                    data["a_after"], data["b_after"] = decode_state(rec, s[4]), decode_state(rec, s[5])
                    if s[6] != 0:
                        data["raised"] = rec.excs[s[7] - 1]
                    elif s[0] in (3, 4):
                        data["result"] = decode_state(rec, s[7])
                    else:
                        data["result"] = bool(s[7])
            ctx.violation(sig, "ProblemKind %s: clause %s fails (%s)" % (query, clause, ", ".join(x for x in (feat, extra) if x) or "-"), data)
    mid = cases[len(cases) // 2]
    ctx.sample({"universe": name, "a": describe_kind(U, kinds, mid["a"]), "b": describe_kind(U, kinds, mid["b"]),
                "steps <<op,w,preA,preB,postA,postB,status,res>>": mid["st"]})
    return {"kinds": nk, "cases": len(cases), "steps": nsteps, "failed_clauses": nfail}


def run(ctx):
    q = ctx.quick
    # (universe, full lub/glb quantification in T1, third-kind rows, compound bound queries)
    plan = ([("U0", False, False, False)] if q
            else [("U0", True, True, True)] + [(u, True, False, True) for u in ("U2", "U3", "U4", "U5")] + [("U1", False, False, False)])
    stats = {}
    for i, (name, full, triples, bounds) in enumerate(plan[:1]):
        stats[name] = check_universe(ctx, name, UNIVERSES[name], full, triples, bounds, coverage=(not q and i == 0))
    # ---- universes derived from the real upgrade functions ------------------------------------------------
    # cover stage: every combination of the features that have an entry in an upgrade table (laws on the real
    # tables + real objects on the covering pairs of kinds); thorough: also with every available feature
    prof = upgrade_profile()
    covers, comps = derived_universes(prof)
    ctx.cov["evaluations"] += prof["calls"]
    for n, cover in enumerate(covers):
        tag = "" if len(covers) == 1 else "-%d" % n
        stats["UT" + tag] = check_upgrade_tables(ctx, "UT" + tag, cover, prof, False, True)
        if not q:
            stats["UTfull" + tag] = check_upgrade_tables(ctx, "UTfull" + tag, cover, prof, True, False)
    for name, full, triples, bounds in plan[1:-1]:
        stats[name] = check_universe(ctx, name, UNIVERSES[name], full, triples, bounds)
    # interaction universes (features that meet in one upgrade rule or one upgrade result): all pairs of kinds on
    # real objects; thorough tier (a universe of 4 features costs a third of the quick tier)
    derived = []
    if not q:
        for n, U in enumerate(comps):
            U = pad_universe(prof, U)
            if len(U) > MAX_COMPONENT_FEATURES or any(set(U) == set(x) for x in list(UNIVERSES.values()) + derived):
                continue
            derived.append(U)
            stats["I%d" % n] = check_universe(ctx, "I%d" % n, U, True, False, True, derived=True)
    for name, full, triples, bounds in plan[1:][-1:]:
        stats[name] = check_universe(ctx, name, UNIVERSES[name], full, triples, bounds)
    ctx.notes["universes"] = stats
    ctx.notes["upgrade_profile"] = {"sources": sorted(prof["sources"]), "written": sorted(prof["written"]),
                                    "removed": sorted(prof["removed"]), "links": sorted(prof["links"]),
                                    "cover_universes": covers, "interaction_universes": comps}
    ctx.cov["rule"] = (
        "T1: every pair of kinds over the universe (all declared versions and version=None), third kinds quantified "
        "inside the laws (%s). T2/T3: every ordered pair of kinds and every kind with itself as one object, emitted by TLC; "
        "queries ==, <=, union, intersection on all pairs, upgrade-then-<= on pairs of one version%s; each on fresh real objects with operand state recorded before and after. "
        "Non-trivial pair: two different kinds of one version with a <= b. Unspecified: == between kinds of different versions. "
        "Universes: %s. Cover stage (UT): universe = every feature the real upgrade functions read, write or remove (%d features, found by probing "
        "them); every kind of a version below the latest made of the features that version's upgrade function reads or removes%s, "
        "paired with the same kind plus one feature: UpgradeMonotone in both directions and UpgradeWF on the real tables, and the real objects "
        "compared before and after upgrading (a<=b, b<=a, a_w<=b_w, b_w<=a_w, a<=b_w, b_w<=a for every later version w)%s." % (
            "quick: lub/glb leastness over one representative per Eq-class, justified by RepOK + EqCongruent" if q
            else "U1: representatives; U0, U2-U5, I*: lub/glb leastness over all kinds of the version, plus the cross-version bound laws",
            "" if q else ", a<=a|b, b<=a|b, a&b<=a, a&b<=b on pairs of one version (not U1); U0: a|b<=c and c<=a&b for every third kind c of the version (all same-version triples, a before b)",
            ", ".join(["%s=%s" % (p[0], UNIVERSES[p[0]]) for p in plan] + ["I*=%s" % U for U in derived]),
            sum(len(c) for c in covers),
            "" if q else " (UTfull: of every available feature, laws only)",
            "" if q else "; I*: interaction universes = features that meet in one upgrade rule or result, closed under the upgrades, padded")
    )
    ctx.cov["exhaustive"] = True
    ctx.assumptions += [
        "TLC and the CommunityModules Json reader are trusted",
        "the version tables (FEATURES_VERSIONS, LATEST_PROBLEM_KIND_VERSION, upgrade functions tabulated on all subsets of the "
        "universe) are read from the real module: the property constrains them only through the laws checked in T1",
        "hash values are renamed injectively to small integers (equality is all the judge uses)",
        "== between kinds of different versions is not judged (the statement is silent); >= , < , > (functools.total_ordering) are out of scope",
        "feature universes of 5-7 features; features outside the universe are counted, never interpreted",
        "cover stage: which features an upgrade function reads / writes / removes is found by probing it (empty set, singletons, pairs, "
        "everything, everything but one); a feature that matters only together with two or more others and only in a proper subset "
        "of all features would stay outside the cover universe (quick) / is still combined in UTfull if it is in the universe",
    ]


def replay(ctx, rep):
    d = rep["data"]
    if "cover_case" in d:  # cover stage: cheap, rerun it as it was (the universe is derived from the code again)
        prof = upgrade_profile()
        name = d.get("universe_name", "UT")
        full = name.startswith("UTfull")
        for cover in derived_universes(prof)[0]:
            if set(d["a"]["features"] if "a" in d else []) <= set(cover):
                check_upgrade_tables(ctx, name, cover, prof, full, not full)
        for sig in sorted({v.sig for v in ctx.violations}):
            print("REPLAY %s" % sig)
        return 1 if any(v.sig == rep["signature"] for v in ctx.violations) else 0
    if "pair" not in d:
        print("replay: this finding is a T1 (design-level) counterexample; rerun ./check C33")
        return 0
    check_universe(ctx, d.get("universe_name", "replay"), d["universe"], False, False, True, only=[tuple(d["pair"])])
    for v in ctx.violations:
        print("REPLAY %s: %s" % (v.sig, v.what))
    return 1 if any(v.sig == rep["signature"] for v in ctx.violations) else 0


def selftest(ctx):
    """Vacuity check of the judge: five recorded fields are falsified (on cases without any finding);
    the judge must reject exactly those, with the expected clauses."""
    U = UNIVERSES["U0"]
    only = [(1, 5, 0), (5, 1, 0), (5, 5, 0), (1, 1, 0)]  # kinds (None, {}) and (None, {DISCRETE_TIME})
    check_universe(ctx, "selftest-clean", U, False, True, True, only=only)
    if ctx.violations:
        print("selftest: unexpected findings on the clean cases: %s" % sorted({v.sig for v in ctx.violations}))
        return 1
    expect = {}

    def corrupt(cases, rec, rowrecs):
        by = {(c["a"], c["b"]): c for c in cases}
        n = len(rec.states)

        def step(pair, op):
            return next(s for s in by[pair]["st"] if s[0] == op)

        step((1, 5), 2)[7] ^= 1  # result of <=
        expect[(1, 5)] = "le|"
        s = step((5, 1), 3)  # result of union: some other recorded state
        s[7] = s[7] % n + 1
        expect[(5, 1)] = "union"
        s = step((5, 5), 1)  # state of the right operand after ==
        s[5] = s[5] % n + 1
        expect[(5, 5)] = "operand-"
        step((1, 1), 1)[7] ^= 1  # result of ==
        expect[(1, 1)] = "eq|"
        rowrecs[by[(5, 5)]["rw"] - 1]["ur"][0] ^= 1  # a.union(b) <= c for the first third kind c
        expect[(5, 5, "rows")] = "le-of-union|"

    check_universe(ctx, "selftest-corrupt", U, False, True, True, only=only, corrupt=corrupt)
    rc = 0
    for pair, prefix in sorted(expect.items(), key=str):
        sigs = sorted({v.sig for v in ctx.violations if tuple(v.data["pair"][:2]) == pair[:2]})
        ok = any(x.startswith(prefix) for x in sigs)
        print("selftest: falsified case %s -> judge reports %s : %s" % (pair, sigs, "ok" if ok else "NOT DETECTED"))
        rc |= 0 if ok else 1
    # cover stage: falsify one recorded comparison and one row of an upgrade table
    del ctx.violations[:]
    prof = upgrade_profile()
    cover = derived_universes(prof)[0][0]
    cexpect = {}

    def ccorrupt(tab):
        c1 = tab["cover"][0]
        one = lambda i: 1 << (i - 1)
        tab["obs"][0][1][1][3] ^= 1  # a = {first cover feature}, g = the second one: a_2 <= b_2
        cexpect[(1, one(c1[0]), one(c1[0]) | one(c1[1]))] = "cover-le-of-upgraded"
        tab["obs"][0][2][0][1] ^= 1  # a = {second}, g = the first: a <= b
        cexpect[(1, one(c1[1]), one(c1[0]) | one(c1[1]))] = "cover-le|same-version"
        m = one(c1[0]) | one(c1[2])  # the upgrade of {first, third} loses everything: not monotone any more
        tab["upm"][0][m] = 0
        cexpect[(1, one(c1[0]), m)] = "T1|LawUpgradeCover"

    check_upgrade_tables(ctx, "selftest-cover", cover, prof, False, True, corrupt=ccorrupt)
    for case, prefix in sorted(cexpect.items()):
        sigs = sorted({v.sig for v in ctx.violations if tuple(v.data["cover_case"]) == case})
        ok = any(x.startswith(prefix) for x in sigs)
        print("selftest: falsified cover case %s -> judge reports %s : %s" % (case, sigs, "ok" if ok else "NOT DETECTED"))
        rc |= 0 if ok else 1
    return rc
