"""C10 -- the computed problem kind reports every feature the problem uses.

spec/UPKinds.tla      Demands(P) / FeaturesOf(P): an independent syntactic feature extractor over the abstract
                      model, one clause per row of the documented "Problem Kinds" table.
spec/UPKindsEnum.tla  G1: TLC enumerates the table of (problem class, feature, syntactic position, variant) cases;
                      instantiate() below builds one minimal problem per case through the public API.
spec/UPKindsJudge.tla T3: TLC reads the recorded (projected problem, problem.kind.features) pairs and reports every
                      demand of Demands(P) that the recorded kind does not honour (one-directional: extra features of
                      the kind are never reported), plus HIT / LOST for the vacuity control of G1.
Inputs: G1 cases; G2 random problems of harness/gen.py (Gen and TGen, every mask, with and without metrics and
trajectory constraints, plus seeded time-model / simulated-effect decorations); the bundled example problems
(classical, numeric, temporal, processes, interpreted functions, hierarchical, scheduling, multi-agent) and the
contingent problem of the documentation.

Python builds objects, calls `problem.kind`, and projects: no feature is decided here.
"""
import os
import re
import warnings
from fractions import Fraction

from .. import tlc, upj
from ..common import MachineryError, time_limit, ImplTimeout, call_limited
from ..upj import E, NV, BV, UNDEF, NONE

JUDGE_CFG = "SPECIFICATION Spec\nINVARIANT Verdict\n"
NO_METRIC = {"kind": "none", "costs": [], "default": E("none"), "expr": E("none"), "goals": [], "tgoals": []}


class Unprojectable(Exception):
    """the abstract model cannot express this problem (counted, never judged)"""


# ----------------------------------------------------------------------------------------
# projection (structure only): UP problem object -> UPJ + class sections read by UPKinds.tla
# ----------------------------------------------------------------------------------------
def px(e):
    """upj.p_expr, extended with time points (HTN / scheduling constraints) and a generic fallback."""
    try:
        return upj.p_expr(e)
    except ValueError:
        pass
    if e.is_timing_exp():
        t = e.timing()
        tp = t.timepoint
        kind = {"START": "start", "END": "end", "GLOBAL_START": "gstart", "GLOBAL_END": "gend"}[tp.kind.name]
        return E("timing-" + kind, name=str(tp.container) if tp.container is not None else "", v=NV(t.delay))
    if e.is_fluent_exp():
        return E("fluent", [px(a) for a in e.args], name=e.fluent().name)
    if e.is_exists() or e.is_forall():
        vs = [{"name": v.name, "type": upj.p_type(v.type)} for v in e.variables()]
        return E("exists" if e.is_exists() else "forall", [px(e.arg(0))], vars_=vs)
    if e.is_dot():
        return E("dot", [px(e.arg(0))], name=e.agent())
    if e.node_type in upj._OPS:
        return E(upj._OPS[e.node_type], [px(a) for a in e.args])
    if e.is_constant() or e.is_parameter_exp() or e.is_variable_exp() or e.is_object_exp():
        return upj.p_expr(e)  # a standard leaf upj refuses: let it raise
    return E("x-" + e.node_type.name.lower(), [px(a) for a in e.args])


def p_effect_k(eff):
    if eff.is_continuous_increase() or eff.is_continuous_decrease():
        fe = eff.fluent
        return {"kind": "cinc" if eff.is_continuous_increase() else "cdec",
                "f": {"name": fe.fluent().name, "args": [px(a) for a in fe.args]},
                "v": px(eff.value), "c": px(eff.condition),
                "forall": [{"name": v.name, "type": upj.p_type(v.type)} for v in eff.forall]}
    return upj.p_effect(eff)


def sim_fluents(se):
    return [f.fluent().name for f in se.fluents]


def p_container(a):
    """action / event / process / activity -> action record with the fields UPKinds reads"""
    from unified_planning.model import InstantaneousAction, DurativeAction
    from unified_planning.model.contingent import SensingAction
    from unified_planning.model.natural_transition import Process, Event

    extra = {"ceffects": [], "simf": [], "sensing": False, "optional": False}
    params = [{"name": p.name, "type": upj.p_type(p.type)} for p in a.parameters]
    if isinstance(a, Process):
        rec = {"name": a.name, "kind": "proc", "params": params, "pre": [px(c) for c in a.preconditions],
               "effects": [p_effect_k(e) for e in a.effects], "conds": [], "dur": NONE, "sim": False}
    elif isinstance(a, (InstantaneousAction, Event)):
        rec = {"name": a.name, "kind": "inst", "params": params, "pre": [px(c) for c in a.preconditions],
               "effects": [p_effect_k(e) for e in a.effects], "conds": [], "dur": NONE,
               "sim": a.simulated_effect is not None}
        if a.simulated_effect is not None:
            extra["simf"] = sim_fluents(a.simulated_effect)
        extra["sensing"] = isinstance(a, SensingAction)
    else:  # DurativeAction, scheduling Activity
        d = a.duration
        conds = [{"iv": upj.p_interval(iv), "c": px(c)} for iv, cl in a.conditions.items() for c in cl]
        effs = [{"t": upj.p_timing(t), "e": p_effect_k(e)} for t, el in a.effects.items() for e in el]
        ses = getattr(a, "simulated_effects", {})
        rec = {"name": a.name, "kind": "dur", "params": params, "pre": [], "effects": effs, "conds": conds,
               "dur": {"lo": px(d.lower), "hi": px(d.upper), "lopen": d.is_left_open(), "ropen": d.is_right_open()},
               "sim": len(ses) > 0}
        for se in ses.values():
            extra["simf"] += sim_fluents(se)
        for iv, el in getattr(a, "continuous_effects", {}).items():
            for e in el:
                extra["ceffects"].append({"iv": upj.p_interval(iv), "e": p_effect_k(e)})
        extra["optional"] = bool(getattr(a, "optional", False))
    rec.update(extra)
    return rec


def p_metric_k(m):
    from unified_planning.model import metrics as M

    if isinstance(m, M.TemporalOversubscription):
        base = dict(NO_METRIC, kind="toversub", tgoals=[])
        for (iv, g), w in m.goals.items():
            base["tgoals"].append({"iv": upj.p_interval(iv), "g": px(g), "w": NV(w)})
        return base
    base = upj.p_metric(m)
    base["tgoals"] = []
    return base


def p_fluent(f, defaults, type_defaults, name=None):
    if f in defaults:
        dv = upj.p_const(defaults[f])
    elif f.type in type_defaults:
        dv = upj.p_const(type_defaults[f.type])
    else:
        dv = UNDEF
    return {"name": name or f.name, "type": upj.p_type(f.type),
            "sig": [{"name": p.name, "type": upj.p_type(p.type)} for p in f.signature], "default": dv}


EMPTY_HTN = {"vars": [], "net": {"subtasks": [], "cons": []}, "methods": []}


def sections(P, cls):
    P.setdefault("events", [])
    P.setdefault("processes", [])
    P.setdefault("metrics", [])
    P.setdefault("time", {"discrete": False, "selfov": False})
    P.setdefault("htn", EMPTY_HTN)
    P.setdefault("agoals", [])
    P.setdefault("cons", [])
    P.setdefault("intconst", False)
    P.setdefault("invforms", [])
    P["class"] = cls
    P["ifuns"] = []  # tables are not needed by the extractor
    P.pop("metric", None)
    return P


def project_problem(problem):
    """Problem / HierarchicalProblem / ContingentProblem"""
    from unified_planning.model import metrics as M
    from unified_planning.model.htn import HierarchicalProblem
    from unified_planning.model.contingent import ContingentProblem

    src = problem
    if any(isinstance(m, M.TemporalOversubscription) for m in problem.quality_metrics):
        src = problem.clone()  # upj.project cannot express this metric: project it separately
        src.clear_quality_metrics()
    try:
        P = upj.project(src)
    except (ValueError, TypeError, AttributeError) as ex:
        raise Unprojectable("%s: %s" % (type(ex).__name__, str(ex)[:80]))
    # how each state invariant is written, in the order of Problem.state_invariants (structure only)
    P["invforms"] = []
    for tc in problem.trajectory_constraints:
        if tc.is_always():
            P["invforms"].append("plain")
        elif tc.is_and():
            P["invforms"] += ["and" for a in tc.args if a.is_always()]
        elif tc.is_forall() and tc.arg(0).is_always():
            P["invforms"].append("forall")
    if len(P["invforms"]) != len(P["invariants"]):
        raise Unprojectable("state invariants and trajectory constraints do not line up")
    P["actions"] = [p_container(a) for a in problem.actions]
    P["events"] = [p_container(a) for a in problem.events]
    P["processes"] = [p_container(a) for a in problem.processes]
    P["metrics"] = [p_metric_k(m) for m in problem.quality_metrics]
    P["time"] = {"discrete": bool(problem.discrete_time), "selfov": bool(problem.self_overlapping)}
    cls = "classical"
    if isinstance(problem, ContingentProblem):
        cls = "contingent"
    if isinstance(problem, HierarchicalProblem):
        cls = "htn"
        tn = problem.task_network
        P["htn"] = {
            "vars": [{"name": v.name, "type": upj.p_type(v.type)} for v in tn.variables],
            "net": {"subtasks": [s.identifier for s in tn.subtasks], "cons": [px(c) for c in tn.constraints]},
            "methods": [{"name": m.name, "params": [{"name": p.name, "type": upj.p_type(p.type)} for p in m.parameters],
                         "pre": [px(c) for c in m.preconditions], "subtasks": [s.identifier for s in m.subtasks],
                         "cons": [px(c) for c in m.constraints]} for m in problem.methods],
        }
    return sections(P, cls)


def _with_ancestors(types):
    out = []
    for t in types:
        while t is not None and t not in out:
            out.append(t)
            t = t.father
    return out


def project_scheduling(problem):
    P = {"name": problem.name or ""}
    # SchedulingProblem.user_types does not list the types that only activity parameters use
    used = list(problem.user_types) + [p.type for a in problem.activities for p in a.parameters if p.type.is_user_type()]
    P["types"] = [{"name": t.name, "parent": t.father.name if t.father is not None else ""} for t in _with_ancestors(used)]
    P["objects"] = [{"name": o.name, "type": o.type.name} for o in problem.all_objects]
    P["fluents"] = [p_fluent(f, problem.fluents_defaults, problem.initial_defaults) for f in problem.fluents]
    P["init"] = [{"f": fe.fluent().name, "args": [upj.p_const(a) for a in fe.args], "v": upj.p_const(v)}
                 for fe, v in problem.explicit_initial_values.items()]
    P["actions"] = [p_container(a) for a in problem.activities]
    P["goals"], P["invariants"], P["traj"] = [], [], []
    P["timed_goals"] = [{"iv": upj.p_interval(iv), "g": px(c)} for iv, c in problem.base_conditions]
    P["timed_effects"] = [{"t": upj.p_timing(t), "e": p_effect_k(e)} for t, e in problem.base_effects]
    P["cons"] = [{"c": px(c), "scoped": len(scope) > 0} for c, scope in problem.base_scoped_constraints]
    for a in problem.activities:
        P["cons"] += [{"c": px(c), "scoped": len(scope) > 0} for c, scope in a.scoped_constraints]
    P["metrics"] = [p_metric_k(m) for m in problem.quality_metrics]
    P["time"] = {"discrete": bool(problem.discrete_time), "selfov": bool(problem.self_overlapping)}
    P["nmetrics"] = len(P["metrics"])
    return sections(P, "scheduling")


def _rename(x, own, agent):
    """qualify agent fluents: `f` of the agent whose container we are in and Dot(a, f) both become "a.f" """
    if isinstance(x, list):
        return [_rename(y, own, agent) for y in x]
    if not isinstance(x, dict):
        return x
    if x.get("op") == "dot":
        inner = x["args"][0]
        return E("fluent", _rename(inner["args"], own, agent), name=x["name"] + "." + inner["name"])
    out = {k: _rename(v, own, agent) for k, v in x.items()}
    if x.get("op") == "fluent" and agent is not None and x["name"] in own:
        out["name"] = agent + "." + x["name"]
    return out


def project_ma(problem):
    P = {"name": problem.name or ""}
    P["types"] = [{"name": t.name, "parent": t.father.name if t.father is not None else ""} for t in problem.user_types]
    P["objects"] = [{"name": o.name, "type": o.type.name} for o in problem.all_objects]
    env = problem.ma_environment
    P["fluents"] = [p_fluent(f, env.fluents_defaults, {}) for f in env.fluents]
    P["actions"], P["agoals"] = [], []
    for ag in problem.agents:
        own = {f.name for f in ag.fluents}
        P["fluents"] += [p_fluent(f, ag.fluents_defaults, {}, name=ag.name + "." + f.name) for f in ag.fluents]
        for a in ag.actions:
            rec = p_container(a)
            for eff in ([e for e in rec["effects"]] if rec["kind"] == "inst" else [te["e"] for te in rec["effects"]]):
                if eff["f"]["name"] in own:
                    eff["f"]["name"] = ag.name + "." + eff["f"]["name"]
            rec = _rename(rec, own, ag.name)
            rec["name"] = ag.name + "." + a.name
            P["actions"].append(rec)
        for pub, gl in ((True, ag.public_goals), (False, ag.private_goals)):
            for g in gl:
                P["agoals"].append({"agent": ag.name, "public": pub, "g": _rename(px(g), own, ag.name)})
    P["init"] = []
    for fe, v in problem.explicit_initial_values.items():
        if fe.is_dot():
            inner = fe.arg(0)
            name = fe.agent() + "." + inner.fluent().name
        else:
            inner, name = fe, fe.fluent().name
        P["init"].append({"f": name, "args": [upj.p_const(a) for a in inner.args], "v": upj.p_const(v)})
    P["goals"] = [_rename(px(g), set(), None) for g in problem.goals]
    P["invariants"], P["traj"], P["timed_goals"], P["timed_effects"] = [], [], [], []
    P["nmetrics"] = 0
    return sections(P, "ma")


def project_k(problem):
    from unified_planning.model import Problem
    from unified_planning.model.multi_agent import MultiAgentProblem
    from unified_planning.model.scheduling import SchedulingProblem

    try:
        if isinstance(problem, SchedulingProblem):
            return project_scheduling(problem)
        if isinstance(problem, MultiAgentProblem):
            return project_ma(problem)
        if isinstance(problem, Problem):
            return project_problem(problem)
    except Unprojectable:
        raise
    except (ValueError, TypeError, AttributeError, KeyError) as ex:
        raise Unprojectable("%s: %s" % (type(ex).__name__, str(ex)[:80]))
    raise Unprojectable("class " + type(problem).__name__)


_TIMEOUTS = 0  # per process: calls of problem.kind that did not return


def observe(rid, problem, src, expect="", epos="", intconst=False, info=None):
    """one record for the judge: projected problem + the kind computed by the real code"""
    P = project_k(problem)
    P["intconst"] = intconst
    rec = {"id": rid, "src": src, "P": P, "kind": [], "raised": "", "expect": expect, "epos": epos, "info": info or {}}
    global _TIMEOUTS
    try:
        with warnings.catch_warnings():
            warnings.simplefilter("ignore")
            if _TIMEOUTS < 2:
                k = call_limited(lambda: problem.kind, limit=20, factor=6)
            else:  # reproducible non-termination: do not wait minutes for every further problem
                with time_limit(10):
                    k = problem.kind
        rec["kind"] = sorted(k.features)
    except ImplTimeout:
        _TIMEOUTS += 1
        rec["raised"] = "timeout"
    except MachineryError:
        raise
    except Exception as ex:
        rec["raised"] = type(ex).__name__
        rec["info"] = dict(rec["info"], exc=repr(ex)[:200])
    return rec


# ----------------------------------------------------------------------------------------
# G1: one minimal problem per enumerated (class, feature, position, variant) case
# ----------------------------------------------------------------------------------------
class Unbuildable(Exception):
    """the public API cannot express the case (counted; every demand label needs at least one HIT)"""


class World:
    """A problem of one class that contains only what the case asks for (pieces are created on first use)."""

    def __init__(self, cls, n):
        import unified_planning.shortcuts as S
        from unified_planning.model.htn import HierarchicalProblem
        from unified_planning.model.contingent import ContingentProblem
        from unified_planning.model.multi_agent import MultiAgentProblem, Agent
        from unified_planning.model.scheduling import SchedulingProblem

        self.S, self.cls, self.n = S, cls, n
        self.fl, self.cont, self.dyn = {}, {}, set()
        self._T = self._Sub = None
        self.objs = {}
        self.agent = None
        self.sensing = False
        self.plain = False
        if cls == "classical":
            self.problem = S.Problem("g1")
        elif cls == "htn":
            self.problem = HierarchicalProblem("g1")
        elif cls == "contingent":
            self.problem = ContingentProblem("g1")
        elif cls == "ma":
            self.problem = MultiAgentProblem("g1")
            self.agent = Agent("ag", self.problem)
        elif cls == "scheduling":
            self.problem = SchedulingProblem("g1")
        else:
            raise MachineryError("unknown class %r" % cls)
        self.method = None
        self.mx = None  # parameter x of the method
        self.netvar = None

    # ---- types, objects -------------------------------------------------------------
    def T(self, objects=True, hier=False):
        S = self.S
        if self._T is None:
            if hier:
                self._Sup = S.UserType("U%d" % self.n)
                self._T = S.UserType("T%d" % self.n, self._Sup)
            else:
                self._T = S.UserType("T%d" % self.n)
        if objects:
            self.obj(1), self.obj(2)
        return self._T

    def obj(self, i):
        if i not in self.objs:
            o = self.S.Object("o%d" % i, self.T(objects=False))
            self.objs[i] = o
            self.problem.add_object(o)
        return self.objs[i]

    # ---- fluents --------------------------------------------------------------------
    def add_fluent(self, f, default=None):
        if self.agent is not None:
            self.agent.add_fluent(f, default_initial_value=default)
        else:
            self.problem.add_fluent(f, default_initial_value=default)
        self.fl[f.name] = f
        return f

    def fluent(self, name):
        """named stock fluents, all with a default value (no undefined initial value unless asked for)"""
        S = self.S
        if name in self.fl:
            return self.fl[name]
        if name in ("p", "p2", "e", "sp"):
            return self.add_fluent(S.Fluent(name), False)
        if name == "q":
            return self.add_fluent(S.Fluent("q", S.BoolType(), x=self.T()), False)
        if name in ("n", "n2", "sn"):
            return self.add_fluent(S.Fluent(name, S.IntType()), 0)
        if name in ("r", "r2", "sr"):
            return self.add_fluent(S.Fluent(name, S.RealType()), Fraction(1, 2))
        if name in ("loc", "so"):
            t = self.T()
            return self.add_fluent(S.Fluent(name, t), self.obj(1))
        raise MachineryError("no stock fluent %r" % name)

    def fx(self, name, *args, dot=False):
        f = self.fluent(name)
        e = f(*args)
        if dot and self.agent is not None:
            e = self.S.Dot(self.agent, e)
        return e

    # ---- containers -------------------------------------------------------------------
    def inst(self, **params):
        from unified_planning.model.contingent import SensingAction

        if "inst" not in self.cont:
            C = SensingAction if ((self.cls == "contingent" and not self.plain) or self.sensing) else self.S.InstantaneousAction
            self.cont["inst"] = C("a", **params)
        return self.cont["inst"]

    def dur(self, **params):
        S = self.S
        if "dur" not in self.cont:
            if self.cls == "scheduling":
                act = self.problem.add_activity("act", duration=2)
                for k, t in params.items():
                    act.add_parameter(k, t)
                self.cont["dur"] = act
            else:
                d = S.DurativeAction("d", **params)
                d.set_fixed_duration(2)
                self.cont["dur"] = d
        return self.cont["dur"]

    def event(self, **params):
        if "event" not in self.cont:
            self.cont["event"] = self.S.Event("ev", **params)
        return self.cont["event"]

    def process(self, **params):
        if "process" not in self.cont:
            self.cont["process"] = self.S.Process("pr", **params)
        return self.cont["process"]

    def make_dynamic(self, name):
        """some effect of the problem changes the stock fluent"""
        S = self.S
        if name in self.dyn:
            return
        self.dyn.add(name)
        f = self.fluent(name)
        val = {"p": True, "p2": True, "e": True, "n": 7, "n2": 7, "r": Fraction(7, 2), "r2": Fraction(7, 2)}.get(name)
        if name == "loc":
            val = self.obj(2)
        if self.cls == "scheduling":
            self.dur().add_effect(self.dur().start, f, val)
        else:
            self.inst().add_effect(f, val)

    # ---- HTN skeleton ----------------------------------------------------------------
    def htn_method(self, param=False):
        """the task `tk` and its method `m` (with a parameter x of the user type only when a case needs one)"""
        from unified_planning.model.htn import Method

        if self.method is None:
            if param:
                t = self.T()
                self.task = self.problem.add_task("tk", x=t)
                self.method = Method("m", x=t)
                self.mx = self.method.parameter("x")
                self.method.set_task(self.task, self.mx)
            else:
                self.task = self.problem.add_task("tk")
                self.method = Method("m")
                self.method.set_task(self.task)
        return self.method

    def task_args(self):
        return (self.obj(1),) if self.mx is not None else ()

    def finish(self):
        S, pb = self.S, self.problem
        if self.cls == "ma":
            for k in ("inst", "dur"):
                if k in self.cont:
                    self.agent.add_action(self.cont[k])
            pb.add_agent(self.agent)
            return pb
        if self.cls == "scheduling":
            return pb
        for k in ("inst", "dur"):
            if k in self.cont:
                pb.add_action(self.cont[k])
        if "event" in self.cont:
            pb.add_event(self.cont["event"])
        if "process" in self.cont:
            pb.add_process(self.cont["process"])
        if self.cls == "htn" and self.method is not None:
            pb.add_method(self.method)
        return pb


COND_POS_DOT = {"goal"}


def cond_expr(w, feat, nested, dot=False, x=None):
    """a Boolean expression that uses the operator of `feat` (top level, or nested inside other operators)"""
    S = w.S
    if x is not None:  # static constraint over the parameter x (HTN constraints may not read fluents)
        o1, o2 = w.obj(1), w.obj(2)
        v = S.Variable("v", w.T())
        top = {
            "NEGATIVE_CONDITIONS": lambda: S.Not(S.Equals(x, o1)),
            "DISJUNCTIVE_CONDITIONS": lambda: S.Or(S.Equals(x, o1), S.Equals(x, o2)),
            "EQUALITIES": lambda: S.Equals(x, o1),
            "EXISTENTIAL_CONDITIONS": lambda: S.Exists(S.Equals(v, x), v),
            "UNIVERSAL_CONDITIONS": lambda: S.Forall(S.Equals(v, x), v),
        }[feat]()
        if not nested:
            return top
        if feat == "EQUALITIES":
            return S.Not(top)
        return S.And(S.Equals(x, o2), top)
    v = S.Variable("v", w.T()) if feat in ("EXISTENTIAL_CONDITIONS", "UNIVERSAL_CONDITIONS") or nested else None
    top = {
        "NEGATIVE_CONDITIONS": lambda: S.Not(w.fx("p", dot=dot)),
        "DISJUNCTIVE_CONDITIONS": lambda: S.Or(w.fx("p", dot=dot), w.fx("p2", dot=dot)),
        "EQUALITIES": lambda: S.Equals(w.fx("loc", dot=dot), w.obj(1)),
        "EXISTENTIAL_CONDITIONS": lambda: S.Exists(w.fx("q", v, dot=dot), v),
        "UNIVERSAL_CONDITIONS": lambda: S.Forall(w.fx("q", v, dot=dot), v),
    }[feat]()
    if not nested:
        return top
    if feat in ("EXISTENTIAL_CONDITIONS", "UNIVERSAL_CONDITIONS"):
        return S.And(w.fx("p2", dot=dot), S.Not(top))
    return S.And(w.fx("p2", dot=dot), S.Exists(S.And(w.fx("q", v, dot=dot), top), v))


def whole(w):
    """[start, end] of the activity of a scheduling world"""
    from unified_planning.model.timing import Timing

    d = w.dur()
    return w.S.ClosedTimeInterval(Timing(0, d.start), Timing(0, d.end))


def interval(S, a=1, b=3):
    return S.ClosedTimeInterval(S.GlobalStartTiming(a), S.GlobalStartTiming(b))


def place_effect(w, pos, fexp, value, cond=True, forall=(), kind="assign"):
    S = w.S
    meth = {"assign": "add_effect", "inc": "add_increase_effect", "dec": "add_decrease_effect"}[kind]
    kw = {"forall": tuple(forall)} if forall else {}
    if pos == "action-effect":
        getattr(w.inst(), meth)(fexp, value, cond, **kw)
    elif pos == "durative-action-effect":
        d = w.dur()
        t = d.end if w.cls == "scheduling" else S.EndTiming()
        getattr(d, meth)(t, fexp, value, cond, **kw)
    elif pos == "event-effect":
        getattr(w.event(), meth)(fexp, value, cond, **kw)
    elif pos == "timed-effect":
        t = S.GlobalStartTiming(5)
        if w.cls == "scheduling":
            if kw:
                raise Unbuildable("scheduling base effects take no forall")
            getattr(w.problem, meth)(t, fexp, value, cond)
        elif kind == "assign":
            w.problem.add_timed_effect(t, fexp, value, cond, **kw)
        else:
            getattr(w.problem, meth)(t, fexp, value, cond, **kw)
    else:
        raise MachineryError("effect position %r" % pos)


def place_cond(w, case, pos, feat, nested, var):
    S, pb = w.S, w.problem
    X = lambda **k: cond_expr(w, feat, nested, **k)
    if pos == "precondition":
        w.inst().add_precondition(X())
    elif pos == "durative-condition":
        d = w.dur()
        if w.cls == "scheduling":
            d.add_condition(whole(w), X())
        else:
            d.add_condition(S.StartTiming(), X())
    elif pos == "event-precondition":
        w.event().add_precondition(X())
    elif pos == "process-precondition":
        w.process().add_precondition(X())
        w.process().add_increase_continuous_effect(w.fluent("r"), 1)
    elif pos.endswith("-effect-condition"):
        place_effect(w, pos[: -len("-condition")], w.fx("e"), True, X())
    elif pos == "goal":
        pb.add_goal(X(dot=True))
    elif pos == "timed-goal":
        if w.cls == "scheduling":
            pb.add_condition(interval(S), X())
        else:
            pb.add_timed_goal(interval(S), X())
    elif pos == "state-invariant":
        pb.add_state_invariant(X())
    elif pos == "trajectory-constraint":
        pb.add_trajectory_constraint(S.Sometime(X()))
    elif pos == "oversubscription-goal":
        pb.add_quality_metric(S.Oversubscription({X(): 3}))
    elif pos == "temporal-oversubscription-goal":
        pb.add_quality_metric(S.TemporalOversubscription({(interval(S), X()): 3}))
    elif pos == "method-precondition":
        w.htn_method().add_precondition(X())
    elif pos == "method-constraint":
        m = w.htn_method(param=True)
        m.add_constraint(X(x=w.mx))
    elif pos == "task-network-constraint":
        x = pb.task_network.add_variable("nv", w.T())
        pb.task_network.add_constraint(X(x=x))
    elif pos == "agent-goal":
        if "private" in var:
            w.agent.add_private_goal(X())
        else:
            w.agent.add_public_goal(X())
    elif pos == "scheduling-constraint":
        if "activity" in var:
            w.dur().add_constraint(X())
        else:
            pb.add_constraint(X())
    else:
        raise MachineryError("condition position %r" % pos)


def make_ifun(w, ret):
    from unified_planning.model import InterpretedFunction
    from collections import OrderedDict

    S = w.S
    if ret == "bool":
        return InterpretedFunction("ib", S.BoolType(), OrderedDict(k=S.IntType()), lambda k: k > 1)
    return InterpretedFunction("ii", S.IntType(), OrderedDict(k=S.IntType()), lambda k: k + 1)


def instantiate(case, n):
    """(class, feature, position, variant) -> problem object built through the public API"""
    S_ = None
    grp, cls, feat, pos, var = case["grp"], case["cls"], case["feat"], case["pos"], case["var"]
    flags = set(var.split("-")) if var else set()
    w = World(cls, n)
    S, pb = w.S, w.problem
    if grp == "cond":
        place_cond(w, case, pos, feat, "nested" in flags, var)
    elif grp == "effect":
        if feat == "CONDITIONAL_EFFECTS":
            place_effect(w, pos, w.fx("e"), True, w.fx("p"))
        elif feat == "FORALL_EFFECTS":
            v = S.Variable("v", w.T())
            place_effect(w, pos, w.fx("q", v), True, True, forall=[v])
        elif feat in ("INCREASE_EFFECTS", "DECREASE_EFFECTS"):
            place_effect(w, pos, w.fx("n"), 1, kind="inc" if feat.startswith("INC") else "dec")
        else:
            inc = feat.startswith("INCREASE")
            if pos == "process-effect":
                c = w.process()
                (c.add_increase_continuous_effect if inc else c.add_decrease_continuous_effect)(w.fluent("r"), 1)
            else:
                c = w.dur()
                iv = S.ClosedTimeInterval(S.StartTiming(), S.EndTiming())
                (c.add_increase_continuous_effect if inc else c.add_decrease_continuous_effect)(iv, w.fluent("r"), 1)
    elif grp == "nonlinear":
        # d r/dt = r2 where r2 is itself changed continuously (in the same container, or in another one)
        rhs = w.fx("r2") if "cross" in flags else w.fx("r")
        if pos.startswith("process-effect"):
            w.process().add_increase_continuous_effect(w.fluent("r"), rhs)
            if "cross" in flags:
                p2 = S.Process("pr2")
                p2.add_increase_continuous_effect(w.fluent("r2"), 1)
                pb.add_process(p2)
        else:
            iv = S.ClosedTimeInterval(S.StartTiming(), S.EndTiming())
            w.dur().add_increase_continuous_effect(iv, w.fluent("r"), rhs)
            if "cross" in flags:
                d2 = S.DurativeAction("d2")
                d2.set_fixed_duration(3)
                d2.add_increase_continuous_effect(iv, w.fluent("r2"), 1)
                pb.add_action(d2)
    elif grp == "assign":
        form = var.split("-")[0]
        static = "static" in flags
        X = feat.rstrip("+").split("_")[-2]  # BOOLEAN / NUMERIC / OBJECT
        epos = pos.rsplit("-", 1)[0]
        if X == "BOOLEAN":
            src, tgt = ("sp" if static else "p"), "e"
        elif X == "NUMERIC":
            src, tgt = ("sn" if static else "n"), "n2"
        else:
            src, tgt = ("so" if static else "loc"), "loc" if static else "so"
            if not static:
                src, tgt = "loc", "so"
        if X == "OBJECT" and static:
            src, tgt = "so", "loc"
        if not static:
            w.make_dynamic(src)
        place_effect(w, epos, w.fx(tgt), w.fx(src), kind=form)
    elif grp == "class":
        # a ContingentProblem is contingent with or without sensing actions; a SensingAction makes any problem contingent
        w.sensing = "sensing" in flags or pos == "sensing-action"
        w.plain = cls == "contingent" and not w.sensing
        a = w.inst()
        a.add_effect(w.fluent("p"), True)
        if w.sensing:
            a.add_observed_fluent(w.fx("p"))
    elif grp == "typing":
        hier = feat == "HIERARCHICAL_TYPING"
        t = w.T(objects=False, hier=hier)
        if var == "object":
            w.obj(1)
        elif var == "fluent-type":
            w.add_fluent(S.Fluent("ft", t))
        elif var == "fluent-parameter":
            w.add_fluent(S.Fluent("fp", S.BoolType(), x=t), False)
        elif var == "action-parameter":
            if cls == "scheduling":
                w.dur(x=t)
            else:
                w.inst(x=t)
        elif var == "durative-action-parameter":
            w.dur(x=t)
        elif var == "event-parameter":
            w.event(x=t)
        elif var == "process-parameter":
            w.process(x=t)
        elif var == "task-parameter":
            pb.add_task("tk2", x=t)
        elif var == "method-parameter":
            from unified_planning.model.htn import Method

            tk = pb.add_task("tk3")
            m = Method("m3", x=t)
            m.set_task(tk)
            pb.add_method(m)
    elif grp == "fluent":
        if feat in ("INT_FLUENTS", "REAL_FLUENTS", "OBJECT_FLUENTS"):
            name = {"INT_FLUENTS": "n", "REAL_FLUENTS": "r", "OBJECT_FLUENTS": "loc"}[feat]
            f = w.fluent(name)
            if var == "used":
                if cls == "scheduling":
                    w.dur().add_condition(whole(w), S.Equals(f, f))
                else:
                    w.inst().add_precondition(S.Equals(f, f))
        elif feat == "BOUNDED_TYPES":
            t = {"int-lo": S.IntType(0, None), "int-hi": S.IntType(None, 9), "int-both": S.IntType(0, 9),
                 "int-both-unused": S.IntType(0, 9), "real-both": S.RealType(0, 9), "real-lo": S.RealType(Fraction(1, 2), None)}[var]
            f = w.add_fluent(S.Fluent("b", t), 1)
            if "unused" not in flags:
                w.make_dynamic("p")
                if cls == "scheduling":
                    w.dur().add_condition(whole(w), S.LE(f, 5))
                else:
                    w.inst().add_precondition(S.LE(f, 5))
        elif feat == "BOOL_FLUENT_PARAMETERS":
            w.add_fluent(S.Fluent("fb", S.BoolType(), k=S.BoolType()), False)
        else:
            w.add_fluent(S.Fluent("fi", S.BoolType(), k=S.IntType(0, 2)), False)
    elif grp == "param":
        t = {"BOOL_ACTION_PARAMETERS": S.BoolType(), "BOUNDED_INT_ACTION_PARAMETERS": S.IntType(0, 3),
             "UNBOUNDED_INT_ACTION_PARAMETERS": S.IntType(0, None), "REAL_ACTION_PARAMETERS": S.RealType(0, 1)}[feat]
        if pos == "event-parameter":
            w.event(k=t)
        elif pos == "process-parameter":
            w.process(k=t)
        elif var in ("durative", "activity"):
            w.dur(k=t)
        else:
            w.inst(k=t)
    elif grp == "time":
        build_time_case(w, feat, pos, var, flags)
    elif grp == "duration":
        build_duration_case(w, feat, pos, var, flags)
    elif grp == "metric":
        build_metric_case(w, feat, pos, var, flags)
    elif grp == "constraint":
        if feat == "STATE_INVARIANTS":
            if var == "in-and":
                pb.add_trajectory_constraint(S.And(S.Always(S.Or(w.fx("p"), w.fx("p2"))), S.Sometime(w.fx("p"))))
            elif var == "in-forall":
                v = S.Variable("v", w.T())
                pb.add_trajectory_constraint(S.Forall(S.Always(w.fx("q", v)), v))
            else:
                pb.add_state_invariant(S.Or(w.fx("p"), w.fx("p2")))
        else:
            a, b = w.fx("p"), w.fx("p2")
            tc = {"sometime": lambda: S.Sometime(a), "amo": lambda: S.AtMostOnce(a), "sbefore": lambda: S.SometimeBefore(a, b),
                  "safter": lambda: S.SometimeAfter(a, b), "in-and": lambda: S.And(S.Sometime(a), S.AtMostOnce(b)),
                  "in-forall": lambda: S.Forall(S.Sometime(w.fx("q", S.Variable("v", w.T()))), S.Variable("v", w.T()))}[var]()
            pb.add_trajectory_constraint(tc)
    elif grp == "init":
        tname, how = var.split("-")
        t = {"int": S.IntType(), "real": S.RealType(), "bool": S.BoolType(), "object": None}[tname]
        val = {"int": 1, "real": Fraction(1, 2), "bool": True}.get(tname)
        if tname == "object":
            t = w.T()
            val = w.obj(1)
        if how == "none":
            w.add_fluent(S.Fluent("u", t))
        else:
            f = w.add_fluent(S.Fluent("u", t, x=w.T()))
            fe = f(w.obj(1))
            if w.agent is not None:
                fe = S.Dot(w.agent, fe)
            pb.set_initial_value(fe, val)
    elif grp == "htn":
        build_htn_case(w, feat, pos, var, flags)
    elif grp == "ma":
        if feat == "AGENT_SPECIFIC_PUBLIC_GOAL":
            w.agent.add_public_goal(w.fx("p"))
        else:
            w.agent.add_private_goal(w.fx("p"))
    elif grp == "sched":
        if feat == "OPTIONAL_ACTIVITIES":
            pb.add_activity("opt", duration=1, optional=True)
        elif var == "base":
            act = pb.add_activity("opt", duration=1, optional=True)
            pb.add_constraint(S.LE(act.end, 10), scope=[act.present])
        else:
            act = pb.add_activity("opt", duration=1, optional=True)
            act.add_constraint(S.LE(act.end, 10))
    elif grp == "sim":
        from unified_planning.model.effect import SimulatedEffect

        se = SimulatedEffect([w.fx("p")], lambda problem, state, actual_params: [S.TRUE()])
        if pos == "event":
            w.event().set_simulated_effect(se)
        elif var == "durative":
            w.dur().set_simulated_effect(S.EndTiming(), se)
        else:
            w.inst().set_simulated_effect(se)
    elif grp == "ifun":
        build_ifun_case(w, feat, pos)
    else:
        raise MachineryError("unknown case group %r" % grp)
    if cls == "htn":
        # every hierarchical problem has a task achieved by a method whose subtask is the action, and an initial task
        m = w.htn_method()
        a = w.inst()
        if grp != "htn":
            consts = {"bool": True, "int": 1, "real": Fraction(1, 2)}
            m.add_subtask(a, *[w.obj(1) if p.type.is_user_type() else consts[upj.p_type(p.type)["k"]] for p in a.parameters])
            pb.task_network.add_subtask(w.task, *w.task_args())
    return w.finish()


def build_time_case(w, feat, pos, var, flags):
    S, pb = w.S, w.problem
    cls = w.cls

    def temporal_piece(kind):
        if kind == "durative-action":
            w.dur()
        elif kind == "timed-effect":
            place_effect(w, "timed-effect", w.fx("p"), True)
        elif kind == "timed-goal":
            if cls == "scheduling":
                pb.add_condition(interval(S), w.fx("p"))
            else:
                pb.add_timed_goal(interval(S), w.fx("p"))

    if feat in ("CONTINUOUS_TIME", "DISCRETE_TIME"):
        if cls == "scheduling":
            pb.add_activity("act", duration=2)
        else:
            temporal_piece(pos)
        pb.discrete_time = feat == "DISCRETE_TIME"
    elif feat == "TIMED_EFFECTS":
        temporal_piece("timed-effect")
    elif feat == "TIMED_GOALS":
        temporal_piece("timed-goal")
    elif feat == "SELF_OVERLAPPING":
        temporal_piece(var)
        pb.self_overlapping = True
    elif feat in ("INTERMEDIATE_CONDITIONS_AND_EFFECTS", "EXTERNAL_CONDITIONS_AND_EFFECTS"):
        d = w.dur()
        start = (lambda k=0: d.start + k if k else d.start) if cls == "scheduling" else (lambda k=0: S.StartTiming(k))
        end = (lambda k=0: (d.end - k if k else d.end)) if cls == "scheduling" else (lambda k=0: S.EndTiming() - k if k else S.EndTiming())
        if cls == "scheduling":
            def tm(base, k):
                from unified_planning.model.timing import Timing

                return Timing(k, base)
            start = lambda k=0: tm(d.start, k)
            end = lambda k=0: tm(d.end, k)
        else:
            from unified_planning.model.timing import Timing, Timepoint, TimepointKind

            start = lambda k=0: Timing(k, Timepoint(TimepointKind.START))
            end = lambda k=0: Timing(k, Timepoint(TimepointKind.END))
        half = Fraction(1, 2)
        table = {  # variant -> (lower, upper) of a condition interval / timing of an effect
            "start-plus": (start(half), end(), start(half)),
            "end-minus": (start(), end(-half), end(-half)),
            "start-plus-upper": (start(), start(1), None),
            "end-minus-lower": (end(-1), end(), None),
            "start-plus-point": (start(1), start(1), None),
            "start-minus": (start(-1), end(), start(-1)),
            "end-plus": (start(), end(1), end(1)),
        }[var]
        if pos == "durative-condition-interval":
            d.add_condition(S.ClosedTimeInterval(table[0], table[1]), w.fx("p"))
        elif pos == "durative-action-effect-timing":
            d.add_effect(table[2], w.fluent("p"), True)
        else:
            d.add_increase_continuous_effect(S.ClosedTimeInterval(table[0], table[1]), w.fluent("r"), 1)
    elif feat == "DURATION_INEQUALITIES":
        d = w.dur()
        if var == "constants":
            d.set_closed_duration_interval(1, 3) if cls != "scheduling" else d.set_duration_bounds(1, 3)
        elif var == "fluent-upper":
            hi = S.Plus(w.fx("sn"), 3)
            d.set_closed_duration_interval(1, hi) if cls != "scheduling" else d.set_duration_bounds(1, hi)
        else:
            if cls == "scheduling":
                raise Unbuildable("activities have closed duration bounds")
            d.set_open_duration_interval(1, 3)
    elif feat == "PROCESSES":
        w.process().add_increase_continuous_effect(w.fluent("r"), 1)
    elif feat == "EVENTS":
        w.event().add_effect(w.fluent("p"), True)
    else:
        raise MachineryError("time feature %r" % feat)


def set_bounds(w, lo, hi):
    d = w.dur()
    if w.cls == "scheduling":
        d.set_duration_bounds(lo, hi)
    else:
        d.set_closed_duration_interval(lo, hi)


def build_duration_case(w, feat, pos, var, flags):
    S = w.S
    lower = "lower" in pos
    if feat.rstrip("+").endswith("FLUENTS_IN_DURATIONS"):
        static = feat.startswith("STATIC")
        name = "sn" if static else "n"
        if not static:
            if w.cls == "scheduling":
                w.problem.add_increase_effect(S.GlobalStartTiming(4), w.fluent("n"), 1)
            else:
                w.make_dynamic("n")
        b = w.fx(name)
        if var == "nested":
            b = S.Plus(S.Times(2, b), 1)
        set_bounds(w, b, 100) if lower else set_bounds(w, 0, b)
    elif feat == "INT_TYPE_DURATIONS+":
        b = S.Div(w.fx("sn"), 2)
        set_bounds(w, b, 100) if lower else set_bounds(w, 0, b)
    else:
        real = feat.startswith("REAL")
        if var == "constant":
            b = Fraction(7, 2) if real else 3
            other_lo, other_hi = (0, 100) if real else (Fraction(1, 2), Fraction(201, 2))
        else:
            b = w.fx("sr") if real else w.fx("sn")
            other_lo, other_hi = (0, 100) if real else (Fraction(1, 2), Fraction(201, 2))
            if real:
                b = S.Plus(b, 3)
        # the other bound has the other sort, so that only this bound demands the feature
        set_bounds(w, b, other_hi) if lower else set_bounds(w, other_lo, b)


def build_metric_case(w, feat, pos, var, flags):
    S, pb = w.S, w.problem
    a = None
    if w.cls != "scheduling":
        a = w.inst()
        a.add_effect(w.fluent("p"), True)
        if w.cls != "htn":
            pb.add_action(a)
            w.cont.pop("inst")
    if "second" in flags:
        pb.add_quality_metric(S.MinimizeSequentialPlanLength() if feat != "PLAN_LENGTH" else S.MinimizeActionCosts({a: 1}))
    if pos == "metric":
        m = {
            "ACTIONS_COST": lambda: S.MinimizeActionCosts({a: 1}),
            "PLAN_LENGTH": lambda: S.MinimizeSequentialPlanLength(),
            "MAKESPAN": lambda: S.MinimizeMakespan(),
            "OVERSUBSCRIPTION": lambda: S.Oversubscription({w.fx("p"): 2}),
            "TEMPORAL_OVERSUBSCRIPTION": lambda: S.TemporalOversubscription({(interval(S), w.fx("p")): 2}),
            "FINAL_VALUE": lambda: (S.MaximizeExpressionOnFinalState if "maximize" in flags else S.MinimizeExpressionOnFinalState)(w.fx("n")),
        }[feat]()
        pb.add_quality_metric(m)
        return
    if pos in ("action-cost", "default-action-cost"):
        if feat.rstrip("+").endswith("FLUENTS_IN_ACTIONS_COST"):
            static = feat.startswith("STATIC")
            if not static:
                a.add_increase_effect(w.fluent("n"), 1)
            c = S.Plus(w.fx("sn" if static else "n"), 1)
        elif feat == "INT_NUMBERS_IN_ACTIONS_COST+":
            c = S.Div(w.fx("sn"), 2)
        else:
            real = feat.startswith("REAL")
            if var == "constant":
                c = Fraction(3, 2) if real else 2
            else:
                c = w.fx("sr") if real else w.fx("sn")
        # the other cost has the other sort, so that only this position demands the feature
        other = 1 if feat.startswith("REAL") else Fraction(1, 2)
        if pos == "action-cost":
            pb.add_quality_metric(S.MinimizeActionCosts({a: c}, default=other))
        else:
            pb.add_quality_metric(S.MinimizeActionCosts({a: other}, default=c))
        return
    gain = Fraction(3, 2) if feat.startswith("REAL") else 2
    if pos == "oversubscription-gain":
        pb.add_quality_metric(S.Oversubscription({w.fx("p"): gain}))
    else:
        pb.add_quality_metric(S.TemporalOversubscription({(interval(S), w.fx("p")): gain}))


def build_htn_case(w, feat, pos, var, flags):
    from unified_planning.model.timing import Timing

    S, pb = w.S, w.problem
    m = w.htn_method(param=(pos == "method-constraint" or feat == "INITIAL_TASK_NETWORK_VARIABLES"))
    a = w.inst()
    a.add_effect(w.fluent("p"), True)
    tn = pb.task_network
    if feat == "METHOD_PRECONDITIONS":
        m.add_subtask(a)
        tn.add_subtask(w.task, *w.task_args())
        m.add_precondition(w.fx("p"))
    elif feat == "TASK_NETWORK_CONSTRAINTS":
        m.add_subtask(a)
        tn.add_subtask(w.task, *w.task_args())
        if pos == "method-constraint":
            m.add_constraint(S.Equals(w.mx, w.obj(1)))
        else:
            tn.add_constraint(S.Equals(w.obj(1), w.obj(2)))
    elif feat == "INITIAL_TASK_NETWORK_VARIABLES":
        m.add_subtask(a)
        x = tn.add_variable("nv", w.T())
        tn.add_subtask(w.task, x)
    else:
        # var: [net|method-]shape; the other network has a single subtask (it is totally ordered)
        parts = var.split("-")
        in_net = parts[0] != "method"
        shape = "-".join(parts[1:]) if parts[0] in ("net", "method") else var
        add_net = lambda: tn.add_subtask(w.task, *w.task_args())
        add_m = lambda: m.add_subtask(a)
        mk, where = (add_net, tn) if in_net else (add_m, m)
        (add_m if in_net else add_net)()
        if shape == "empty":
            return  # the initial task network has no subtask at all
        if shape == "single":
            mk()
            return
        if shape in ("chain", "redundant"):
            s1, s2, s3 = mk(), mk(), mk()
            where.set_ordered(s1, s2, s3)
            if shape == "redundant":
                where.set_strictly_before(s1, s3)
            return
        s1, s2, s3 = mk(), mk(), mk()
        if shape == "unordered":
            pass
        elif shape == "fork":
            where.set_strictly_before(s1, s2)
            where.set_strictly_before(s1, s3)
        elif shape == "cycle":
            where.set_ordered(s1, s2, s3)
            where.set_strictly_before(s3, s1)
        elif shape == "delay":
            where.set_ordered(s1, s2)
            where.set_strictly_before(Timing(2, s2.end), s3.start)
        elif shape == "start-start":
            where.set_ordered(s1, s2)
            where.set_strictly_before(s2.start, s3.start)
        elif shape == "le":
            where.set_ordered(s1, s2)
            where.add_constraint(S.LE(Timing(0, s2.end), Timing(0, s3.start)))
        else:
            raise MachineryError("htn shape %r" % shape)


def build_ifun_case(w, feat, pos):
    S, pb = w.S, w.problem
    fb, fi = make_ifun(w, "bool"), make_ifun(w, "int")
    if feat == "INTERPRETED_FUNCTIONS_IN_CONDITIONS":
        c = fb(w.fx("sn"))
        if pos == "precondition":
            w.inst().add_precondition(c)
        elif pos == "goal":
            pb.add_goal(c)
        elif pos == "durative-condition":
            w.dur().add_condition(S.StartTiming(), c)
        else:
            w.inst().add_effect(w.fluent("e"), True, c)
    elif feat == "INTERPRETED_FUNCTIONS_IN_DURATIONS":
        b = fi(w.fx("sn"))
        d = w.dur()
        d.set_closed_duration_interval(b, 100) if "lower" in pos else d.set_closed_duration_interval(0, b)
    else:
        X = feat.split("_")[3]
        tgt, val = ("e", fb(w.fx("sn"))) if X == "BOOLEAN" else ("n", fi(w.fx("sn")))
        if pos.startswith("action"):
            w.inst().add_effect(w.fluent(tgt), val)
        else:
            w.dur().add_effect(S.EndTiming(), w.fluent(tgt), val)


# ----------------------------------------------------------------------------------------
# judging
# ----------------------------------------------------------------------------------------
def judge(ctx, label, recs):
    """TLC judges the records; returns (fails, unspec, hits, lost) keyed by record id"""
    d = ctx.sub("judge-" + label)
    path = os.path.join(d, "batch.ndjson")
    tlc.write_ndjson(path, [{k: r[k] for k in ("id", "P", "kind", "raised", "expect", "epos")} for r in recs])
    res = tlc.run_tlc("UPKindsJudge", JUDGE_CFG, d, env={"BATCH": path}, timeout=3000, workers=8)
    if res.error or res.violated:
        raise MachineryError("UPKindsJudge failed: %s %s" % (res.violated, (res.error or "")[:1500]))
    if res.distinct != len(recs):
        raise MachineryError("judge consumed %d records, expected %d" % (res.distinct, len(recs)))
    ctx.add_tlc("judge-" + label, res)
    ctx.cov["traces_validated_against_impl"] += len(recs)
    if re.search(r"^<< ", res.stdout, re.M):
        raise MachineryError("TLC wrapped a printed tuple (verdict lines must stay short)")
    fails, unspec, hits, lost = set(), set(), set(), set()
    labels, poss = {}, {}
    for p in res.printed:
        if not p or not isinstance(p, list):
            continue
        if p[0] == "F":
            labels[(p[1], p[2])] = p[3]
        elif p[0] == "P":
            poss[(p[1], p[2])] = p[3]
        elif p[0] == "UNSPEC":
            unspec.add((p[1], p[2]))
        elif p[0] == "HIT":
            hits.add(p[1])
        elif p[0] == "LOST":
            lost.add(p[1])
    for (rid, k), lab in labels.items():
        if k == 0:
            fails.add((rid, lab, "kind"))
        elif (rid, k) not in poss:
            raise MachineryError("verdict line without position: %r" % ((rid, k, lab),))
        else:
            fails.add((rid, "missing-" + lab, poss[(rid, k)]))
    if set(poss) - set(labels):
        raise MachineryError("position line without verdict")
    return fails, unspec, hits, lost


def report(ctx, recs, fails):
    byid = {r["id"]: r for r in recs}
    for rid, clause, pos in sorted(fails):
        r = byid[rid]
        cls = r["P"]["class"]
        ctx.violation(
            "%s|%s|%s" % (cls, clause, pos),
            "%s problem: the computed kind lacks %s although the problem uses it at position `%s`" % (cls, clause[len("missing-"):], pos)
            if clause.startswith("missing-") else "%s problem: problem.kind raises (%s)" % (cls, clause),
            {"clause": clause, "position": pos, "source": r["src"], "info": r["info"], "kind": r["kind"], "problem": r["P"]},
        )


def run_g1(ctx):
    d = ctx.sub("enum")
    out = os.path.join(d, "cases.ndjson")
    res = tlc.run_tlc("UPKindsEnum", "INIT Init\nNEXT Next\n", d, env={"OUT": out}, workers=1, timeout=3000)
    if res.error:
        raise MachineryError(res.error[:2000])
    ctx.add_tlc("enum", res)
    cases = sorted(tlc.read_ndjson(out), key=lambda c: (c["grp"], c["cls"], c["feat"], c["pos"], c["var"]))
    recs, unbuildable = [], []
    for i, c in enumerate(cases):
        try:
            with warnings.catch_warnings():
                warnings.simplefilter("ignore")
                with time_limit(20):
                    problem = instantiate(c, i)
            recs.append(observe(i, problem, "g1", expect=c["feat"], epos=c["pos"], intconst=True, info={"case": c}))
        except (Unbuildable, Unprojectable) as ex:
            unbuildable.append((c, "%s: %s" % (type(ex).__name__, ex)))
        except (MachineryError, ImplTimeout):
            raise
        except Exception as ex:  # the public API refuses the construction
            unbuildable.append((c, "%s: %s" % (type(ex).__name__, str(ex)[:120])))
    ctx.notes["g1_cases"] = len(cases)
    ctx.notes["g1_unbuildable"] = [{"case": c, "why": w_} for c, w_ in unbuildable]
    return recs, cases, unbuildable


def check_g1(recs, cases, unbuildable, hits, lost):
    """vacuity control: every built case exhibits its demand, every demand label has a built case"""
    if lost:
        byid = {r["id"]: r for r in recs}
        raise MachineryError("G1 templates do not exhibit their demand: %r" % [byid[i]["info"]["case"] for i in sorted(lost)][:5])
    if {r["id"] for r in recs} - hits:
        raise MachineryError("G1 records without a HIT / LOST verdict")
    labels_hit = {r["expect"] for r in recs if r["id"] in hits}
    labels_all = {c["feat"] for c in cases}
    if labels_all - labels_hit:
        raise MachineryError("no buildable G1 case for %r (%r)" % (sorted(labels_all - labels_hit), unbuildable[:3]))


# ----------------------------------------------------------------------------------------
# G2: random problems of the shared grammar, every mask
# ----------------------------------------------------------------------------------------
GEN_MASKS = [
    dict(),
    dict(metric="any"),
    dict(traj=True),
    dict(metric="any", traj=True),
    dict(adversarial_names=True, metric="any"),
    dict(objfluents=False),
    dict(numeric=False),
    dict(real=False, bounded=False),
    dict(quantifiers=False, disjunction=False, negation=False, implies=False),
    dict(equality=False, conditional=False, forall_eff=False),
    dict(incdec=False, fluent_assign=False, bool_expr_assign=False),
    dict(invariants=False, undefined=False, hier=False, boolconst=False),
    dict(max_actions=2, max_fluents=3, undefined=True, metric="any"),
]
TGEN_MASKS = [
    dict(),
    dict(metric="any"),
    dict(fixed_durations=True),
    dict(intermediate=False, timed=False),
    dict(fluent_durations=False, inst_actions=False),
    dict(quantifiers=True, objfluents=True, hier=True, undefined=True),
    dict(numeric=False, invariants=False),
    dict(negation=False, disjunction=False, implies=False, equality=False, conditional=False),
]


def g2_worker(job):
    """build one generated UPJ problem with the real library and observe its kind"""
    rid, P, deco, label = job
    import unified_planning as up

    def build():
        problem = upj.build(P, up.environment.Environment())
        if deco.get("discrete"):
            problem.discrete_time = True
        if deco.get("selfov"):
            problem.self_overlapping = True
        return problem

    try:
        with warnings.catch_warnings():
            warnings.simplefilter("ignore")
            problem = call_limited(build, limit=30)
        return observe(rid, problem, "g2", intconst=True, info={"gen": label, "deco": deco, "upj": P})
    except (Unprojectable, ImplTimeout) as ex:
        return {"id": rid, "skip": "%s: %s" % (type(ex).__name__, ex)}
    except MachineryError:
        raise
    except Exception as ex:  # the library refuses the generated description: not a kind question
        return {"id": rid, "skip": "build %s: %s" % (type(ex).__name__, str(ex)[:100])}


def run_g2(ctx, n_gen, n_tgen):
    from multiprocessing import Pool
    from ..gen import Gen, TGen

    jobs = []
    rid = 100000
    for cls, masks, n in ((Gen, GEN_MASKS, n_gen), (TGen, TGEN_MASKS, n_tgen)):
        gens = [(cls(ctx.rng, **m), "%s%r" % (cls.__name__, sorted(m.items()))) for m in masks]
        for i in range(n):
            g, label = gens[i % len(gens)]
            deco = {}
            if cls is TGen and ctx.rng.random() < 0.25:
                deco = {"discrete": ctx.rng.random() < 0.5, "selfov": ctx.rng.random() < 0.5}
            rid += 1
            jobs.append((rid, g.problem(), deco, label))
    with Pool(8, maxtasksperchild=200) as pool:
        out = pool.map(g2_worker, jobs, chunksize=8)
    recs = [r for r in out if "skip" not in r]
    skipped = [r for r in out if "skip" in r]
    if len(skipped) > 0.2 * len(out):
        raise MachineryError("too many generated problems could not be built: %r" % [r["skip"] for r in skipped[:5]])
    ctx.notes["g2_skipped"] = len(skipped)
    return recs, skipped


# ----------------------------------------------------------------------------------------
# corpus: the bundled example problems
# ----------------------------------------------------------------------------------------
def run_corpus(ctx):
    from unified_planning.test.examples import get_example_problems
    from unified_planning.test.examples import multi_agent

    with warnings.catch_warnings():
        warnings.simplefilter("ignore")
        items = sorted(get_example_problems().items()) + sorted(("ma:" + k, v) for k, v in multi_agent.get_example_problems().items())
    recs, skipped = [], []
    for i, (name, tc) in enumerate(items):
        try:
            recs.append(observe(200000 + i, tc.problem, "corpus", intconst=False,
                                info={"example": name, "class": type(tc.problem).__name__}))
        except Unprojectable as ex:
            skipped.append((name, type(tc.problem).__name__, str(ex)))
    ctx.notes["corpus_skipped"] = skipped
    return recs, skipped


def run(ctx):
    q = ctx.quick
    g1, cases, unb = run_g1(ctx)
    ncases = len(cases)
    g2, g2skip = run_g2(ctx, 400 if q else 2000, 300 if q else 1600)
    corpus, cskip = run_corpus(ctx)
    allrecs = g1 + g2 + corpus
    # one TLC run judges every record (JVM start-up dominates small batches)
    fails, unspec, hits, lost = judge(ctx, "all", allrecs)
    check_g1(g1, cases, unb, hits, lost)
    report(ctx, allrecs, fails)
    ctx.cov["evaluations"] += len(allrecs)
    ctx.cov["unspecified"] += len(unspec)
    bycls = {}
    for r in allrecs:
        bycls[r["P"]["class"]] = bycls.get(r["P"]["class"], 0) + 1
    # non-trivial: the recorded kind has at least four features (more than class + typing)
    ctx.cov["distinct_nontrivial"] = len({(tuple(r["kind"]), r["P"]["class"]) for r in allrecs if len(r["kind"]) >= 4})
    ex = next(r for r in g1 if r["info"]["case"]["grp"] == "cond" and r["info"]["case"]["pos"] == "timed-goal")
    ctx.sample({"kind": "G1 case", "case": ex["info"]["case"], "computed_kind": ex["kind"]})
    ctx.sample({"kind": "G2 problem", "generator": g2[0]["info"]["gen"], "computed_kind": g2[0]["kind"]})
    ctx.sample({"kind": "bundled example", "example": corpus[0]["info"]["example"], "computed_kind": corpus[0]["kind"]})
    ctx.cov["exhaustive"] = True
    ctx.cov["rule"] = (
        "G1: every (class, feature, position, variant) case of UPKindsEnum (%d cases, %d not expressible through the public API), one "
        "minimal problem each, HIT-checked by the judge; G2: %d random problems of harness/gen.py (Gen: %d masks, TGen: %d masks, "
        "seeded discrete-time / self-overlapping decorations; %d refused by the model builder); corpus: %d bundled example problems "
        "(%d not expressible in the abstract model: %s). One evaluation = one problem whose computed kind TLC compares with "
        "UPKinds!Demands; problems per class: %r; non-trivial = distinct (class, kind) pairs with at least four features."
        % (ncases, len(unb), len(g2), len(GEN_MASKS), len(TGEN_MASKS), len(g2skip), len(corpus), len(cskip),
           ", ".join(sorted({s[0] for s in cskip})) or "-", bycls)
    )
    ctx.assumptions += [
        "TLC and the CommunityModules Json reader are trusted",
        "the projection (harness/upj.py project + the class sections of harness/drivers/c10.py) is structure-preserving",
        "feature meanings are those of docs/problem_representation.rst (table 'Problem Kinds'); where the table leaves two "
        "readings open the weaker one is demanded (labels ending in '+')",
        "numeric fluents read only by durations / action costs are not required to raise INT_FLUENTS / REAL_FLUENTS (counted as unspecified)",
        "TAMP / SAMP problems, the up_test_cases corpus (not installed) and contingent problems beyond the G1 cases are not covered",
    ]


# ----------------------------------------------------------------------------------------
# replay of one recorded violation, self-test of the judge
# ----------------------------------------------------------------------------------------
def replay(ctx, doc):
    """rebuild the input of a recorded violation, observe the current code again and let TLC judge it"""
    data = doc["data"]
    info, src = data["info"], data["source"]
    if src == "g1":
        with warnings.catch_warnings():
            warnings.simplefilter("ignore")
            problem = instantiate(info["case"], 1)
        rec = observe(1, problem, "g1", expect=info["case"]["feat"], epos=info["case"]["pos"], intconst=True, info=info)
    elif src == "g2":
        rec = g2_worker((1, info["upj"], info["deco"], info["gen"]))
        if "skip" in rec:
            raise MachineryError("cannot rebuild the generated problem: " + rec["skip"])
    else:
        from unified_planning.test.examples import get_example_problems
        from unified_planning.test.examples import multi_agent

        name = info["example"]
        with warnings.catch_warnings():
            warnings.simplefilter("ignore")
            ex = multi_agent.get_example_problems()[name[3:]] if name.startswith("ma:") else get_example_problems()[name]
        rec = observe(1, ex.problem, "corpus", info=info)
    fails, _, _, _ = judge(ctx, "replay", [rec])
    sigs = sorted("%s|%s|%s" % (rec["P"]["class"], c, p) for _, c, p in fails)
    print("computed kind: %s" % rec["kind"])
    for s in sigs:
        print("still violated: %s" % s)
    if doc["signature"] in sigs:
        print("VIOLATION property=C10 reproduced: %s" % doc["signature"])
        return 1
    print("not reproduced: %s" % doc["signature"])
    return 0


def selftest(ctx):
    """the judge rejects a recorded kind from which a used feature has been removed, and accepts the original"""
    case = {"grp": "cond", "cls": "classical", "feat": "NEGATIVE_CONDITIONS", "pos": "timed-goal", "var": "nested"}
    with warnings.catch_warnings():
        warnings.simplefilter("ignore")
        problem = instantiate(case, 1)
    good = observe(1, problem, "g1", expect=case["feat"], epos=case["pos"], intconst=True)
    bad = dict(good, id=2, kind=[f for f in good["kind"] if f != "NEGATIVE_CONDITIONS"])
    fails, _, hits, lost = judge(ctx, "selftest", [good, bad])
    ok = hits == {1, 2} and not lost and (2, "missing-NEGATIVE_CONDITIONS", "timed-goal") in fails and not [f for f in fails if f[0] == 1]
    print("selftest: corrupted record rejected, original accepted" if ok else "selftest FAILED: %r" % sorted(fails))
    return 0 if ok else 2
