"""C25 -- DeltaSTN decides temporal consistency exactly.

T1  spec/DeltaSTN.tla: the implementation-shaped layer (adjacency lists, _is_subsumed,
    incremental Bellman-Ford) satisfies the declarative layer (Floyd-Warshall consistency,
    least non-negative model, independence of copies) for every history within the bounds.
T2  TLC (DeltaSTNEnum) emits every well-formed call history of length L; each is replayed on
    the real DeltaSimpleTemporalNetwork, observations recorded after every call.
T3  DeltaSTNTrace validates every recorded history (exhaustive ones and seeded long random
    ones with rational bounds and several copies) against DeltaSTN's actions and predicates.
"""
import os
from fractions import Fraction
from math import lcm

from .. import tlc
from ..common import MachineryError, time_limit, ImplTimeout

MC_CFG = """SPECIFICATION Spec
CONSTANTS NEv = %(nev)d
 NNet = %(nnet)d
 MaxOps = %(maxops)d
 Bnd <- BndMC
INVARIANT Exact
INVARIANT ModelOK
INVARIANT ConstraintsOK
INVARIANT KnownOK
INVARIANT Terminates
PROPERTY Independent
"""

TRACE_CFG = """SPECIFICATION TraceSpec
CONSTANTS NEv = %(nev)d
 NNet = %(nnet)d
 MaxOps = 100000
 Bnd = {0}
INVARIANT Verdict
"""


def observe(nets, nev, scale=1, only=None):
    obs = []
    for i, stn in enumerate(nets):
        if only is not None and (i + 1) not in only:
            continue
        known = sorted(stn.distances.keys())
        sat = bool(stn.check_stn())
        model = [0] * nev
        for x in known:
            v = stn.get_stn_model(x) * scale
            if isinstance(v, Fraction):
                if v.denominator != 1:
                    raise MachineryError("scaled model value not integral: %r" % v)
                v = int(v)
            model[x - 1] = v
        cons = []
        for x, lst in stn.get_constraints().items():
            for (b, y) in lst:
                bb = b * scale
                cons.append([x, y, int(bb)])
        obs.append({"n": i + 1, "sat": sat, "known": known, "model": model, "cons": sorted(cons)})
    return obs


def replay_history(ops, nev, scale=1, bounds=None):
    """Run one call history on the real class; returns ops with observations.

    ops carry integer (scaled) bounds for the judge; `bounds[i]` optionally gives the real
    (Fraction) bound passed to the implementation."""
    from unified_planning.model.delta_stn import DeltaSimpleTemporalNetwork

    nets = [DeltaSimpleTemporalNetwork()]
    out = []
    for i, o in enumerate(ops):
        o = dict(o)
        if o["op"] == "add":
            b = bounds[i] if bounds is not None else o["b"]
            nets[o["n"] - 1].add(o["x"], o["y"], b)
        elif o["op"] == "copy":
            nets.append(nets[o["n"] - 1].copy_stn())
            if len(nets) != o["m"]:
                raise MachineryError("history numbering of copies is inconsistent")
        elif o["op"] == "touch":
            nets[o["n"] - 1].insert_interval(o["x"], o["y"])
        else:
            raise MachineryError("unknown op %r" % (o,))
        o["obs"] = observe(nets, nev, scale)
        out.append(o)
    return out


def guarded_replay(ctx, ops, nev, scale=1, bounds=None):
    """replay_history under a time limit; a call that does not return (or raises) is a violation."""
    try:
        with time_limit(5):
            return replay_history(ops, nev, scale, bounds)
    except ImplTimeout:
        ctx.violation("impl-nonterminating", "a DeltaSTN call history does not terminate within 5 s", {"ops": ops, "scale": scale})
    except MachineryError:
        raise
    except Exception as ex:
        ctx.violation("impl-raises|" + type(ex).__name__, "a DeltaSTN call raises %s" % type(ex).__name__, {"ops": ops, "scale": scale, "exc": repr(ex)})
    return None


def random_history(rng, nev, nnet, nops):
    """Seeded long history with rational bounds; returns (ops_for_judge, real_bounds, scale)."""
    dens = [1, 1, 2, 3, 4]
    raw = []
    live = 1
    for _ in range(nops):
        r = rng.random()
        if r < 0.08 and live < nnet:
            raw.append(("copy", rng.randint(1, live), live + 1))
            live += 1
        elif r < 0.12:
            x, y = rng.sample(range(1, nev + 1), 2)
            raw.append(("touch", rng.randint(1, live), x, y))
        else:
            x = rng.randint(1, nev)
            y = rng.randint(1, nev)
            # mostly non-negative bounds so that long consistent prefixes exist
            num = rng.randint(-6, 14)
            b = Fraction(num, rng.choice(dens))
            raw.append(("add", rng.randint(1, live), x, y, b))
    scale = 1
    for r in raw:
        if r[0] == "add":
            scale = lcm(scale, r[4].denominator)
    ops, bounds = [], []
    for r in raw:
        if r[0] == "add":
            ops.append({"op": "add", "n": r[1], "x": r[2], "y": r[3], "b": int(r[4] * scale), "m": 0})
            bounds.append(r[4] if r[4].denominator != 1 or rng.random() < 0.5 else int(r[4]))
        elif r[0] == "copy":
            ops.append({"op": "copy", "n": r[1], "x": 0, "y": 0, "b": 0, "m": r[2]})
            bounds.append(None)
        else:
            ops.append({"op": "touch", "n": r[1], "x": r[2], "y": r[3], "b": 0, "m": 0})
            bounds.append(None)
    return ops, bounds, scale


def judge(ctx, label, traces, nev, nnet):
    d = ctx.sub("judge-" + label)
    path = os.path.join(d, "traces.ndjson")
    tlc.write_ndjson(path, traces)
    res = tlc.run_tlc(
        "DeltaSTNTrace", TRACE_CFG % {"nev": nev, "nnet": nnet}, d, env={"TRACES": path}, timeout=3000
    )
    if res.error or res.violated:
        raise MachineryError("DeltaSTNTrace failed: %s %s" % (res.violated, res.error))
    expected = sum(len(t["ops"]) + 1 for t in traces)
    if res.distinct != expected:
        raise MachineryError("trace judge consumed %d states, expected %d" % (res.distinct, expected))
    ctx.add_tlc("trace-" + label, res)
    ctx.cov["traces_validated_against_impl"] += len(traces)
    byid = {t["id"]: t for t in traces}
    for p in res.printed:
        if p and p[0] == "FAIL":
            t = byid[p[1]]
            ctx.violation(
                "%s" % p[2],
                "DeltaSTN history: clause %s fails at call %d" % (p[2], p[3]),
                {"trace": t, "clause": p[2], "step": p[3], "nev": nev, "nnet": nnet},
            )
    return res


def run(ctx):
    q = ctx.quick
    # ---- T1: design check -------------------------------------------------------------
    d = ctx.sub("t1")
    cfgs = [dict(nev=3, nnet=2, maxops=3)] if q else [dict(nev=3, nnet=2, maxops=4), dict(nev=4, nnet=1, maxops=3)]
    for c in cfgs:
        res = tlc.run_tlc("MCDeltaSTN", MC_CFG % c, d, timeout=3000)
        if res.error:
            raise MachineryError(res.error)
        ctx.add_tlc("T1 %r" % (c,), res)
        if res.violated:
            ctx.violation(
                "T1|" + res.violated,
                "the implementation-shaped DeltaSTN layer violates %s (design-level counterexample)" % res.violated,
                {"config": c, "trace": [s["vars"] for s in res.trace]},
            )
    # ---- T2: TLC-enumerated histories replayed on the real class ----------------------
    L = 3 if q else 3
    nev, nnet = 3, 2
    d = ctx.sub("enum")
    out = os.path.join(d, "hist.ndjson")
    res = tlc.run_tlc(
        "DeltaSTNEnum",
        "INIT Init\nNEXT Next\nCONSTANTS NEv = %d\n NNet = %d\n L = %d\n" % (nev, nnet, L),
        d,
        env={"OUT": out},
        workers=1,
        timeout=3000,
    )
    if res.error:
        raise MachineryError(res.error)
    hist = tlc.read_ndjson(out)
    traces = []
    nontrivial = set()
    for i, h in enumerate(hist):
        ops = guarded_replay(ctx, h["ops"], nev)
        if ops is None:
            continue
        traces.append({"id": i, "ops": ops})
        # non-trivial: the history reaches inconsistency, or tightens a constraint, or copies
        if any(not ob["sat"] for o in ops for ob in o["obs"]) or any(o["op"] == "copy" for o in ops):
            nontrivial.add(i)
    ctx.cov["evaluations"] += len(traces)
    ctx.sample({"kind": "enumerated history", "ops": traces[len(traces) // 2]["ops"]})
    judge(ctx, "enum", traces, nev, nnet)
    # ---- T3: seeded long random histories ---------------------------------------------
    nr = 1500 if q else 20000
    nev2, nnet2 = 6, 3
    rtr = []
    for i in range(nr):
        ops, bounds, scale = random_history(ctx.rng, nev2, nnet2, ctx.rng.randint(8, 40))
        rops = guarded_replay(ctx, ops, nev2, scale, bounds)
        if rops is None:
            continue
        rtr.append({"id": 1000000 + i, "ops": rops, "scale": scale})
        if any(not ob["sat"] for o in rops for ob in o["obs"]):
            nontrivial.add(1000000 + i)
    ctx.cov["evaluations"] += len(rtr)
    ctx.sample({"kind": "random history (bounds scaled by %d)" % rtr[0]["scale"], "ops": rtr[0]["ops"][:6]})
    judge(ctx, "random", rtr, nev2, nnet2)
    ctx.cov["distinct_nontrivial"] = len(nontrivial)
    ctx.cov["rule"] = (
        "T1: exhaustive BFS of DeltaSTN within the stated constants. T2: every well-formed call history of "
        "length %d over %d events, bounds -2..2, self-loops, copy and touch, emitted by TLC (DeltaSTNEnum) and "
        "replayed on DeltaSimpleTemporalNetwork; T3: %d seeded random histories (8-40 calls, %d events, %d "
        "networks, rational bounds scaled to integers by the lcm of denominators -- consistency and least "
        "models are scale-invariant). A history is counted non-trivial when it becomes inconsistent or copies a network."
        % (L, nev, nr, nev2, nnet2)
    )
    ctx.cov["exhaustive"] = True
    ctx.assumptions += [
        "TLC and the CommunityModules Json reader are trusted",
        "rational bounds are judged after scaling by the lcm of their denominators",
        "epsilon = 0 (the class default); float bounds are not explored",
    ]


def replay(ctx, rec):
    d = rec["data"]
    if "trace" not in d:
        print("replay: this finding has no recorded history (design-level or non-termination): re-run the check")
        return 0
    t = d["trace"]
    ops = [{k: v for k, v in o.items() if k != "obs"} for o in t["ops"]]
    rops = guarded_replay(ctx, ops, d["nev"], t.get("scale", 1))
    if rops is None:
        return 1
    judge(ctx, "replay", [{"id": 1, "ops": rops, "scale": t.get("scale", 1)}], d["nev"], d["nnet"])
    for v in ctx.violations:
        print("REPRODUCED property=C25 clause=%s" % v.sig)
    if not ctx.violations:
        print("replay: no violation on the current tree")
    return 1 if ctx.violations else 0
