"""C35 -- the simulated execution environment is faithful to its contingent problem.

Generated contingent problems (hidden Boolean ground fluents under oneof / or / unknown constraints,
explicit values, per-fluent and per-type defaults incl. `true`, sensing and ordinary actions) x random
seeds -> real SimulatedExecutionEnvironment driven by seeded action sequences; the hidden initial state
and every later state are read through a sensing action that observes every ground fluent ->
spec/ExecEnvTrace.tla validates each run as a behaviour Pick ; Do* of UPSeqSem.
"""
import os
import random
from multiprocessing import Pool

from .. import tlc, upj, simobs
from ..common import MachineryError, time_limit, ImplTimeout
from ..gen import Gen, ground_actions
from ..upj import E, BV, OV

CFG = "SPECIFICATION Spec\nINVARIANT Verdict\n"


def make_contingent(rng, P):
    """add hidden-fluent constraints and sensing actions to a generated problem (structure only)"""
    keys = upj.keys_of(P)
    bkeys = [k for k in keys if next(f for f in P["fluents"] if f["name"] == k[0])["type"]["k"] == "bool"]
    if len(bkeys) < 2:
        return None
    rng.shuffle(bkeys)
    nh = rng.randint(2, min(5, len(bkeys)))
    hid = bkeys[:nh]

    def lit(k, allow_neg=True):
        return {"f": k[0], "args": k[1], "neg": allow_neg and rng.random() < 0.3}

    H = {"oneof": [], "or": [], "unknown": [], "lits": []}
    pool = list(hid)
    if len(pool) >= 2 and rng.random() < 0.8:
        n = rng.randint(2, min(3, len(pool)))
        H["oneof"].append([lit(k) for k in pool[:n]])
        pool = pool[n:] + ([pool[0]] if rng.random() < 0.3 else [])
    if len(pool) >= 2 and rng.random() < 0.7:
        n = rng.randint(2, min(3, len(pool)))
        H["or"].append([lit(k) for k in pool[:n]])
        pool = pool[n:]
    for k in pool:
        H["unknown"].append({"f": k[0], "args": k[1], "neg": False})
    seen = set()
    for group in H["oneof"] + H["or"] + [[u] for u in H["unknown"]]:
        for l in group:
            kk = (l["f"], tuple(l["args"]))
            if kk not in seen:
                seen.add(kk)
                H["lits"].append({"f": l["f"], "args": l["args"], "neg": False})
    P = dict(P)
    # hidden fluents have no declared initial value
    hidset = {(l["f"], tuple(l["args"])) for l in H["lits"]}
    P["init"] = [i for i in P["init"] if (i["f"], tuple(a["o"] for a in i["args"])) not in hidset]
    # every non-hidden ground fluent gets a declared value: make sure every fluent has a default
    P["hidden"] = H
    acts = list(P["actions"])
    allf = [E("fluent", [E("obj", name=a) for a in k[1]], name=k[0]) for k in keys]
    acts.append({"name": "look", "kind": "sense", "params": [], "pre": [], "effects": [], "conds": [], "dur": upj.NONE, "sim": False, "observed": allf})
    if bkeys and rng.random() < 0.6:
        k = rng.choice(bkeys)
        acts.append({"name": "peek", "kind": "sense", "params": [], "pre": [g for g in P["goals"][:1] if rng.random() < 0.5], "effects": [], "conds": [], "dur": upj.NONE, "sim": False,
                     "observed": [E("fluent", [E("obj", name=a) for a in k[1]], name=k[0])]})
    P["actions"] = acts
    return P


def build_contingent(P):
    from unified_planning.model.contingent.contingent_problem import ContingentProblem

    problem = upj.build(P, problem_cls=ContingentProblem)
    em = problem.environment.expression_manager

    def fe(l):
        f = problem.fluent(l["f"])
        x = em.FluentExp(f, tuple(em.ObjectExp(problem.object(a)) for a in l["args"]))
        return em.Not(x) if l["neg"] else x

    H = P["hidden"]
    for g in H["oneof"]:
        problem.add_oneof_initial_constraint([fe(l) for l in g])
    for g in H["or"]:
        problem.add_or_initial_constraint([fe(l) for l in g])
    for u in H["unknown"]:
        problem.add_unknown_initial_constraint(fe(u))
    return problem


def worker(job):
    tid0, P, nseeds, nsteps, seed = job
    from unified_planning.model.contingent.execution_environment import SimulatedExecutionEnvironment
    from unified_planning.plans import ActionInstance

    rng = random.Random(seed)
    out = []
    keys = upj.keys_of(P)
    try:
        with time_limit(30):
            problem = build_contingent(P)
    except ImplTimeout:
        return [{"skip": "build-timeout"}]
    except Exception as ex:
        return [{"skip": "build:" + type(ex).__name__, "detail": str(ex)[:200]}]
    gas = [g for g in ground_actions(P)]
    look = problem.action("look")
    em = problem.environment.expression_manager

    def observe(env_):
        obs = env_.apply(ActionInstance(look, ()))
        vec = []
        for name, args in keys:
            f = problem.fluent(name)
            x = em.FluentExp(f, tuple(em.ObjectExp(problem.object(a)) for a in args))
            vec.append(upj.p_const(obs[x]) if x in obs else upj.UNDEF)
        return vec

    # the deterministic reading of P for the specification: sensing actions are effect-free actions
    Pspec = dict(P)
    Pspec["actions"] = [dict(a, kind="inst") for a in P["actions"]]
    for s in range(nseeds):
        rec = {"id": tid0 + s, "P": Pspec, "keys": keys, "hidden": P["hidden"], "seed": seed * 100 + s, "steps": [], "s0": [], "skip": ""}
        try:
            with time_limit(60):
                random.seed(rec["seed"])
                env_ = SimulatedExecutionEnvironment(problem)
                rec["s0"] = observe(env_)
                for _ in range(nsteps):
                    g = rng.choice(gas)
                    a = problem.action(g["a"])
                    step = {"a": g["a"], "args": g["args"], "res": "ok", "obs": [], "sensed": "ok"}
                    try:
                        ob = env_.apply(ActionInstance(a, simobs._params(problem, a, g["args"])))
                        # returned observations are the current values of the sensed fluents
                        cur = observe(env_)
                        step["obs"] = cur
                        for fx, v in ob.items():
                            idx = [i for i, (n, ar) in enumerate(keys) if n == fx.fluent().name and [str(z) for z in fx.args] == ar]
                            if not idx or upj.p_const(v) != cur[idx[0]]:
                                step["sensed"] = "wrong-value"
                        want = len(next(x for x in P["actions"] if x["name"] == g["a"]).get("observed", []))
                        if len(ob) != want:
                            step["sensed"] = "wrong-fluents"
                    except ImplTimeout:
                        raise
                    except Exception as ex:
                        step["res"] = type(ex).__name__
                    # TLC integers are 32-bit: a run is recorded up to (not including) the first step after which a
                    # number exceeds simobs.MAG in magnitude (the same bound as the observation graphs of C01-C05)
                    if any(v["k"] == "n" and (abs(v["n"]) > simobs.MAG or v["d"] > simobs.MAG) for v in step["obs"]):
                        break
                    rec["steps"].append(step)
        except ImplTimeout:
            rec["skip"] = "timeout"
        except Exception as ex:
            rec["skip"] = "env:" + type(ex).__name__
            rec["detail"] = str(ex)[:200]
        out.append(rec)
    return out


def run(ctx):
    q = ctx.quick
    n = 120 if q else 1200
    nseeds = 3 if q else 5
    nsteps = 6 if q else 10
    g = Gen(ctx.rng, undefined=False, invariants=False, quantifiers=True, hier=True)
    corpus = []
    while len(corpus) < n:
        P = make_contingent(ctx.rng, g.problem())
        if P is not None:
            corpus.append(P)
    jobs = [(1 + i * nseeds, P, nseeds, nsteps, ctx.seed * 7919 + i) for i, P in enumerate(corpus)]
    with Pool(12, maxtasksperchild=30) as pool:
        res = pool.map(worker, jobs, chunksize=2)
    recs = [r for rs in res for r in rs]
    skipped = {}
    for r in recs:
        if r.get("skip"):
            skipped[r["skip"]] = skipped.get(r["skip"], 0) + 1
    for r in recs:
        if r.get("skip", "").startswith("env:"):
            # building or driving the environment raised: "for every contingent problem and random seed ..."
            ctx.violation("environment-raises-" + r["skip"][4:], "SimulatedExecutionEnvironment raises %s: %s" % (r["skip"][4:], r.get("detail", "")),
                          {"hidden": r["hidden"], "problem": r["P"], "seed": r["seed"], "detail": r.get("detail", "")})
    batch = [r for r in recs if not r.get("skip")]
    if not batch:
        raise MachineryError("no run recorded: %r %r" % (skipped, [r.get("detail") for r in recs[:3]]))
    d = ctx.sub("judge")
    path = os.path.join(d, "batch.ndjson")
    tlc.write_ndjson(path, batch)
    r = tlc.run_tlc("ExecEnvTrace", CFG, d, env={"BATCH": path}, timeout=3000, heap="16g")
    if r.error or r.violated:
        raise MachineryError("ExecEnvTrace failed: %s %s" % (r.violated, (r.error or "")[-3000:]))
    expected = sum(len(t["steps"]) + 2 for t in batch)
    if r.distinct != expected:
        raise MachineryError("judge consumed %d states, expected %d" % (r.distinct, expected))
    ctx.add_tlc("ExecEnvTrace", r)
    byid = {t["id"]: t for t in batch}
    for p in r.printed:
        if p and p[0] == "FAIL":
            t = byid[p[1]]
            ctx.violation(p[2], "execution environment run: %s at step %d" % (p[2], p[3]), {"clause": p[2], "step": p[3], "trace": t})
    ctx.cov["evaluations"] = sum(len(t["steps"]) + 1 for t in batch)
    ctx.cov["traces_validated_against_impl"] = len(batch)
    ctx.cov["distinct_nontrivial"] = sum(1 for t in batch for s in t["steps"] if s["res"] == "ok" and s["obs"] != t["s0"])
    ctx.cov["problems_skipped"] = skipped
    ctx.cov["rule"] = (
        "%d generated contingent problems x %d seeds x %d seeded actions; one evaluation = the picked initial state or one "
        "applied action judged by ExecEnvTrace; non-trivial = applied actions after which the state differs from the "
        "initial one." % (n, nseeds, nsteps)
    )
    ctx.sample({"hidden": batch[0]["hidden"], "s0": batch[0]["s0"], "steps": batch[0]["steps"][:3]})
    ctx.assumptions += ["TLC, Json reader, harness/upj.py trusted", "the state is observed through a sensing action that observes every ground fluent (public API)"]
