"""C16 -- expressions are hash-consed and constructors normalise as documented.

T1  spec/MCExprManager.tla: the id-level machinery of ExprManager (table, argument promotion,
    normalisation on ids, typing through the table) satisfies the declarative reading on terms
    (returned node denotes the documented normal form, distinct nodes <=> distinct terms,
    acceptance is history independent, entries never change) for every construction history
    within the bounds.  A second run with CacheFirst = TRUE (create_node as written: insert,
    then type-check) must be refuted by TLC -- the design-level counterexample of the known defect.
T2  TLC (ExprManagerEnum) emits construction histories (exhaustive "seq" alphabets and the
    "respell" family); each is replayed on a FRESH Environment; after every call the driver
    records the returned node (id, object ordinal, operator, child ids, payload) or the exception
    class and the change of ExpressionManager.expressions; at the end every earlier node is re-read.
T3  ExprManagerTrace validates every recorded history (the enumerated ones and seeded long
    random ones) by taking ExprManager's own actions and comparing the recorded values.
Python holds no oracle: it calls the constructors and projects objects to JSON.
"""
import os
import random
import sys
import time
from fractions import Fraction

from .. import tlc
from ..common import MachineryError, time_limit, ImplTimeout

ALL_CTORS = ["And", "Or", "Not", "Implies", "Iff", "Plus", "Minus", "Times", "Div", "LE", "LT", "GE", "GT", "Equals", "FluentExp", "TRUE", "FALSE"]
ALL_LITS = ["i2", "f2.0", "s2", "q4/2", "q1/2", "f0.5", "s0.5", "s1/2", "s-2/4", "i0", "f1.0", "i-3", "q6/4", "f1.5", "s2.0", "s4/2", "s20e-1", "s-3."]
LEAF_TYPES = {"b": "bool", "c": "bool", "x": "int", "y": "real"}
NARY = ["And", "Or", "Plus", "Times"]
BIN = ["Implies", "Iff", "Minus", "Div", "LE", "LT", "GE", "GT", "Equals"]
WORKERS = 8
LIMIT = 60  # seconds per history (a history takes milliseconds; the limit only stops a looping mutant)
RETRY_LIMIT = 180


def tla_set(xs):
    return "{" + ", ".join('"%s"' % x for x in xs) + "}"


def consts(leaves, lits, ctors, maxar, maxops=0, cachefirst=False):
    return "CONSTANTS Leaves = %s\n Lits = %s\n Ctors = %s\n MaxArity = %d\n MaxOps = %d\n CacheFirst = %s\n" % (
        tla_set(leaves),
        tla_set(lits),
        tla_set(ctors),
        maxar,
        maxops,
        "TRUE" if cachefirst else "FALSE",
    )


MC_PROPS = """INVARIANT IdsInjective
INVARIANT IdsBelowNext
INVARIANT Acyclic
INVARIANT AllTyped
INVARIANT TermsDistinct
INVARIANT NormalForm
INVARIANT AcceptIffWellTyped
INVARIANT RejectRepeatable
INVARIANT HashCons
PROPERTY MCMonotone
PROPERTY RejectKeepsTable
"""


# ----------------------------------------------------------------------------------------
# projection of the real objects (no judgement here)
# ----------------------------------------------------------------------------------------
def pay(p):
    """payload as '<python type>:<text>' (the specification spells canonical payloads the same way)"""
    name = getattr(p, "name", None)
    return "%s:%s" % (type(p).__name__, name if isinstance(name, str) else str(p))


def node_view(n):
    """a node read through its public accessors"""
    if n.is_fluent_exp():
        p = n.fluent()
    elif n.is_constant():
        p = n.constant_value()
    else:
        p = None
    return [n.node_id, n.node_type.name, [a.node_id for a in n.args], pay(p)]


def table_view(em):
    """ExpressionManager.expressions as a set of (id, node type, child ids, payload)"""
    out = set()
    for content, node in em.expressions.items():
        out.add((node.node_id, content.node_type.name, tuple(a.node_id for a in content.args), pay(content.payload)))
    return out


def ent(e):
    return [e[0], e[1], list(e[2]), e[3]]


def literal(tok):
    k, body = tok[0], tok[1:]
    if k == "i":
        return int(body)
    if k == "f":
        return float(body)
    if k == "s":
        return body
    if k == "q":
        n, d = body.split("/")
        return Fraction(int(n), int(d))
    raise MachineryError("unknown literal token %r" % tok)


class Session:
    """One fresh Environment with the leaves of the specification."""

    def __init__(self):
        from unified_planning.environment import Environment
        from unified_planning.model import Fluent

        self.env = Environment()
        self.em = self.env.expression_manager
        tm = self.env.type_manager
        types = {"bool": tm.BoolType(), "int": tm.IntType(), "real": tm.RealType()}
        self.leaf = {n: Fluent(n, types[t], environment=self.env) for n, t in LEAF_TYPES.items()}
        self.results = []  # per call: node or None
        self.objs = []  # distinct Python objects returned so far
        self.snap = table_view(self.em)
        self.init = sorted(self.snap)
        self.ops = []

    def ordinal(self, node):
        for i, o in enumerate(self.objs):
            if o is node:
                return i
        self.objs.append(node)
        return len(self.objs) - 1

    def can_call(self, atoms):
        return all(a[0] != "r" or self.results[a[1] - 1] is not None for a in atoms)

    def call(self, k, atoms):
        args = []
        for a in atoms:
            if a[0] == "r":
                args.append(self.results[a[1] - 1])
            elif a[0] == "l":
                args.append(self.leaf[a[2]])
            elif a[0] == "v":
                args.append(literal(a[2]))
            else:
                raise MachineryError("unknown atom %r" % (a,))
        node = None
        try:
            node = getattr(self.em, k)(*args)
            v = node_view(node)
            r = ["ok", v[0], self.ordinal(node), v[1], v[2], v[3]]
        except Exception as ex:  # an exception is an observation
            node = None
            r = ["exc", 0, 0, type(ex).__name__, [], ""]
        cur = table_view(self.em)
        rec = {
            "k": k,
            "a": [list(a) for a in atoms],
            "r": r,
            "add": [ent(e) for e in sorted(cur - self.snap)],
            "del": [ent(e) for e in sorted(self.snap - cur)],
            "n": len(self.em.expressions),
        }
        self.snap = cur
        self.results.append(node)
        self.ops.append(rec)
        return rec

    def finish(self, tid):
        rr = [node_view(n) if n is not None else [0, "", [], ""] for n in self.results]
        return {"id": tid, "init": [ent(e) for e in self.init], "ops": self.ops, "rr": rr}


def replay_history(tid, ops):
    s = Session()
    for o in ops:
        atoms = [tuple(a) for a in o["a"]]
        if not s.can_call(atoms):
            break  # an argument does not exist: the failed call that should have produced it is on record
        s.call(o["k"], atoms)
    return s.finish(tid)


def random_history(tid, seed, nops):
    """Seeded long history over the whole alphabet; arguments are earlier results (with repetitions),
    fluents and literals; calls are repeated verbatim with probability 0.25."""
    rng = random.Random(seed)
    s = Session()
    raised = set()  # call texts that raised: their later results are not used as arguments
    usable = []  # (call index, 'bool' | 'num')
    texts = []
    leaves = sorted(LEAF_TYPES)

    def atom(kind):
        pool = [u for u in usable if u[1] == kind] if rng.random() < 0.8 else usable
        r = rng.random()
        if pool and r < 0.6:
            return ("r", rng.choice(pool)[0], "")
        if r < 0.85 or kind == "bool":
            ls = [f for f in leaves if (LEAF_TYPES[f] == "bool") == (kind == "bool")] if rng.random() < 0.8 else leaves
            return ("l", 0, rng.choice(ls))
        return ("v", 0, rng.choice(ALL_LITS))

    for _ in range(nops):
        if texts and rng.random() < 0.25:
            k, atoms = rng.choice(texts)
        else:
            k = rng.choice(ALL_CTORS)
            if k in ("TRUE", "FALSE"):
                atoms = ()
            elif k == "FluentExp":
                atoms = (("l", 0, rng.choice(leaves)),)
            else:
                kind = "bool" if k in ("And", "Or", "Not", "Implies", "Iff") else "num"
                ar = 1 if k == "Not" else 2 if k in BIN else rng.choice([0, 1, 2, 2, 3, 4])
                atoms = tuple(atom(kind) for _ in range(ar))
                if k == "Div":
                    # generator hygiene: keep clear of the unspecified zone (fluent-free divisors)
                    d = atoms[1]
                    if d[0] == "v" or (d[0] == "r" and not (s.results[d[1] - 1].get_contained_names() & set(leaves))):
                        atoms = (atoms[0], ("l", 0, rng.choice(["x", "y"])))
        texts.append((k, atoms))
        rec = s.call(k, atoms)
        if rec["r"][0] == "exc":
            raised.add((k, atoms))
        elif (k, atoms) not in raised:
            node = s.results[-1]
            try:
                kind = "bool" if node.type.is_bool_type() else "num"
            except Exception:
                kind = None
            if kind:
                usable.append((len(s.results), kind))
    return s.finish(tid)


def _work(job, limit=None):
    """Runs in a pool process: one history under a time limit."""
    kind, tid, payload = job
    try:
        with time_limit(limit or LIMIT):
            if kind == "replay":
                return ("trace", replay_history(tid, payload))
            return ("trace", random_history(tid, payload[0], payload[1]))
    except ImplTimeout:
        return ("timeout", job)
    except MachineryError as ex:
        return ("machinery", str(ex))
    except Exception as ex:
        return ("crash", {"id": tid, "job": payload, "exc": repr(ex), "cls": type(ex).__name__})


def _work_again(job):
    return _work(job, RETRY_LIMIT)


def run_jobs(ctx, jobs):
    import multiprocessing as mp
    import unified_planning.shortcuts  # noqa: F401
    from unified_planning.environment import get_environment

    # everything an Environment() imports lazily (the engines of the Factory) is imported here, before the
    # fork, so that the pool processes share it and no import can be interrupted by a time limit
    get_environment()

    if not jobs:
        return []
    with mp.get_context("fork").Pool(WORKERS) as pool:
        outs = pool.map(_work, jobs, chunksize=max(1, min(200, len(jobs) // (WORKERS * 4) or 1)))
    late = [i for i, (kind, x) in enumerate(outs) if kind == "timeout"]
    if late:
        # a history takes milliseconds; on an overloaded machine a process can stall for a long time:
        # try the few late ones again, alone, before calling the implementation non-terminating
        with mp.get_context("fork").Pool(min(2, len(late))) as pool:
            again = pool.map(_work_again, [jobs[i] for i in late], chunksize=1)
        for i, o in zip(late, again):
            outs[i] = o
    traces = []
    for kind, x in outs:
        if kind == "trace":
            traces.append(x)
        elif kind == "timeout":
            ctx.violation(
                "impl-nonterminating",
                "a construction history does not terminate within %d s (tried twice)" % RETRY_LIMIT,
                {"id": x[1], "job": x[2]},
            )
        elif kind == "machinery":
            raise MachineryError(x)
        else:
            # only Environment()/Fluent() set-up or the projection can raise here: not a verdict
            raise MachineryError("replay crashed outside the constructor calls: %r" % (x,))
    return traces


# ----------------------------------------------------------------------------------------
# TLC runs
# ----------------------------------------------------------------------------------------
def _enumerate(ctx, label, plans):
    d = ctx.sub("enum-" + label)
    out = os.path.join(d, "hist.ndjson")
    pl = os.path.join(d, "plans.ndjson")
    tlc.write_ndjson(pl, plans)
    cfg = "INIT EInit\nNEXT ENext\n" + consts(["b"], ["i2"], ["And"], 2)
    res = tlc.run_tlc("ExprManagerEnum", cfg, d, env={"OUT": out, "PLANS": pl}, workers=1, timeout=3000)
    if res.error:
        raise MachineryError(res.error)
    hist = tlc.read_ndjson(out)
    emitted = [p for p in res.printed if p and p[0] == "EMITTED"]
    if not emitted or emitted[0][1] != len(hist) or not hist:
        raise MachineryError("enumeration %s: %r histories announced, %d written" % (label, emitted, len(hist)))
    return hist, res


def enumerate_histories(ctx, plans, parallel=False):
    """TLC (ExprManagerEnum) enumerates the histories of all plans; returns {plan name: [history, ...]}.
    One TLC run for all plans, or one run per plan side by side (the enumeration is single-threaded)."""
    if parallel:
        from concurrent.futures import ThreadPoolExecutor

        with ThreadPoolExecutor(len(plans)) as ex:
            outs = list(ex.map(lambda p: _enumerate(ctx, p["name"], [p]), plans))
    else:
        outs = [_enumerate(ctx, "all", plans)]
    by = {p["name"]: [] for p in plans}
    tags = {"spec_rejected": 0, "spec_rejected_twice": 0}
    for hist, res in outs:
        for h in hist:
            by[h["plan"]].append(h["ops"])
            tags["spec_rejected"] += h["nrej"]
            tags["spec_rejected_twice"] += 1 if h["rrep"] else 0
    for name, hs in by.items():
        if not hs:
            raise MachineryError("enumeration plan %s is empty" % name)
        hs.sort(key=lambda ops: repr(ops))  # TLC's set order is deterministic; sorted anyway
    ctx.cov["tlc_runs"].append(
        {"label": "enum", "histories": {k: len(v) for k, v in by.items()}, "wall_s": round(max(r.wall for _, r in outs), 2)}
    )
    if not tags["spec_rejected"] or not tags["spec_rejected_twice"]:
        raise MachineryError("vacuity: the enumeration holds no (repeated) ill-typed attempt: %r" % tags)
    ctx.notes["enumeration_tags"] = tags
    return by


TRACE_CFG = "SPECIFICATION TraceSpec\n" + consts(["b"], ["i2"], ["And"], 2) + "INVARIANT Verdict\n"


def judge(ctx, label, traces, stats):
    if not traces:
        raise MachineryError("no trace to judge for " + label)
    byid = {t["id"]: t for t in traces}
    chunk = 60000
    for c0 in range(0, len(traces), chunk):
        part = traces[c0 : c0 + chunk]
        d = ctx.sub("judge-%s-%d" % (label, c0))
        path = os.path.join(d, "traces.ndjson")
        tlc.write_ndjson(path, part)
        res = tlc.run_tlc("ExprManagerTrace", TRACE_CFG, d, env={"TRACES": path}, timeout=3000, workers=WORKERS)
        if res.error or res.violated:
            raise MachineryError("ExprManagerTrace failed: %s %s" % (res.violated, res.error))
        expected = sum(len(t["ops"]) + 2 for t in part)
        if res.distinct != expected:
            raise MachineryError("trace judge consumed %d states, expected %d" % (res.distinct, expected))
        ctx.add_tlc("trace-%s-%d" % (label, c0), res)
        ctx.cov["traces_validated_against_impl"] += len(part)
        # TLC's workers print in any order: sorted, so that the witness kept per signature is deterministic
        for p in sorted((p for p in res.printed if p and p[0] in ("DEAD", "FAIL")), key=lambda p: (p[0], p[1], p[3] if len(p) > 3 else 0, str(p[2:]))):
            if p[0] == "DEAD":
                stats["dead"].add(p[1])
            if p[0] == "FAIL":
                t = byid[p[1]]
                clause, step = p[2], p[3]
                k = t["ops"][step - 1]["k"] if step >= 1 else "init"
                stats["failed"].add(p[1])
                ctx.violation(
                    "%s|%s" % (clause, k),
                    "construction history: clause %s fails at call %d (%s)" % (clause, step, k),
                    {"trace": t, "clause": clause, "step": step},
                )


def account(traces, stats):
    """evidence counters and vacuity features (shapes of the calls made; no judgement)"""
    feats = stats["features"]
    for t in traces:
        ops = t["ops"]
        stats["calls"] += len(ops)
        texts = {}
        rep = False
        for i, o in enumerate(ops):
            k = o["k"]
            key = (k, tuple(tuple(a) for a in o["a"]))
            exc = o["r"][0] == "exc"
            if key in texts:
                rep = True
                feats.add("repeat")
            texts[key] = exc
            stats["ctors"].add(k)
            if k in NARY and len(o["a"]) < 2:
                feats.add("%s/%d" % (k, len(o["a"])))
            if k in ("GE", "GT"):
                feats.add(k)
            if k == "Not" and o["a"][0][0] == "r" and ops[o["a"][0][1] - 1]["k"] == "Not":
                feats.add("Not(Not)")
            for a in o["a"]:
                if a[0] == "v":
                    feats.add("lit:" + a[2])
            if exc:
                stats["raised"] += 1
        if rep or any(o["r"][0] == "exc" for o in ops):
            stats["nontrivial"] += 1


REQUIRED_FEATURES = (
    ["repeat", "GE", "GT", "Not(Not)"]
    + ["%s/%d" % (k, n) for k in NARY for n in (0, 1)]
    + ["lit:" + v for v in ("i2", "f2.0", "s2", "q4/2", "q1/2", "f0.5")]
)


def t1(ctx):
    q = ctx.quick
    d = ctx.sub("t1")
    if q:
        cfgs = [
            dict(leaves=["b", "x"], lits=["f2.0"], ctors=["And", "Not", "GE", "FluentExp"], maxar=2, maxops=3),
            dict(leaves=["b", "x"], lits=["i2", "q4/2", "q1/2"], ctors=["Or", "Iff", "Plus", "Times", "LT", "Equals", "FluentExp", "TRUE"], maxar=2, maxops=2),
        ]
    else:
        cfgs = [
            dict(leaves=["b", "x"], lits=[], ctors=["And", "Not", "FluentExp"], maxar=2, maxops=4),
            dict(leaves=["b", "c", "x"], lits=["f2.0"], ctors=["And", "Not", "Plus", "GE", "Equals", "FluentExp"], maxar=2, maxops=3),
            dict(leaves=["b", "x"], lits=["q1/2"], ctors=["Or", "Times", "Div", "GT", "Iff", "FluentExp"], maxar=3, maxops=2),
            dict(leaves=["b", "c", "x"], lits=["i2", "f2.0", "q1/2"], ctors=ALL_CTORS, maxar=2, maxops=2),
        ]
    for c in cfgs:
        cfg = "SPECIFICATION MCSpec\n" + consts(c["leaves"], c["lits"], c["ctors"], c["maxar"], c["maxops"]) + MC_PROPS
        res = tlc.run_tlc("MCExprManager", cfg, d, timeout=3000, workers=WORKERS, coverage=False)
        if res.error:
            raise MachineryError(res.error)
        ctx.add_tlc("T1 %r" % (c,), res)
        if res.violated:
            ctx.violation(
                "T1|" + res.violated,
                "the id-level ExprManager layer violates %s (design-level counterexample)" % res.violated,
                {"config": c, "trace": [s["vars"] for s in res.trace]},
            )
    # vacuity: the as-written create_node (insert before type-check) must be refuted
    c = dict(leaves=["b", "x"], lits=["i2"], ctors=["And", "FluentExp"], maxar=2, maxops=4)
    cfg = "SPECIFICATION MCSpec\n" + consts(c["leaves"], c["lits"], c["ctors"], c["maxar"], c["maxops"], cachefirst=True) + "INVARIANT RejectRepeatable\n"
    res = tlc.run_tlc("MCExprManager", cfg, d, timeout=3000, workers=1)  # one worker: deterministic state count
    if res.error:
        raise MachineryError(res.error)
    if res.violated != "RejectRepeatable":
        raise MachineryError("vacuity: the as-written model (CacheFirst) is not refuted by RejectRepeatable")
    ctx.add_tlc("T1 as-written create_node refuted (%d-state counterexample)" % len(res.trace), res)
    ctx.notes["as_written_counterexample"] = [s["vars"] for s in res.trace]


def _dbg(ctx, what):
    if os.environ.get("C16_DEBUG"):
        sys.stderr.write("[C16 %6.1fs] %s\n" % (time.time() - ctx.t0, what))


def run(ctx):
    q = ctx.quick
    stats = {"calls": 0, "raised": 0, "nontrivial": 0, "ctors": set(), "dead": set(), "failed": set(), "features": set()}
    t1(ctx)
    _dbg(ctx, "T1 done")
    # ---- T2: TLC-enumerated histories replayed on fresh environments -----------------------
    def plan(name, mode, L, ctors, leaves, lits, maxar=2, direct=False):
        return dict(name=name, mode=mode, L=L, ctors=ctors, leaves=leaves, lits=lits, maxar=maxar, direct=direct)

    A1 = ["And", "Not", "Implies", "Plus", "Minus", "LE", "GE", "Equals", "FluentExp"]
    A2 = ["Or", "Not", "Iff", "Times", "Div", "LT", "GT", "Equals", "FluentExp"]
    if q:
        plans = [
            # every call of the whole alphabet with direct fluent/literal arguments, made twice, then re-spelt
            plan("respell", "respell", 0, ALL_CTORS, ["b", "x"], ["i2", "f2.0", "q4/2", "q1/2", "s2.0"], direct=True),
            # every history of 3 calls (arguments = earlier results) over two class-representative alphabets
            plan("seq3-A1", "seq", 3, A1, ["b", "x"], ["f2.0", "q1/2"]),
            plan("seq3-A2", "seq", 3, A2, ["b", "x"], ["s2", "q4/2"]),
        ]
    else:
        plans = [
            plan("respell", "respell", 0, ALL_CTORS, ["b", "c", "x"], ["i2", "f2.0", "s2", "q4/2", "q1/2", "f0.5", "i0", "s2.0", "s4/2", "s20e-1"], direct=True),
            plan("seq3-all", "seq", 3, ALL_CTORS, ["b", "c", "x"], ["i2", "f2.0", "q1/2"]),
            plan("seq3-ternary", "seq", 3, ["And", "Or", "Plus", "Times", "Not", "FluentExp"], ["b", "x"], ["f2.0"], maxar=3),
            plan("seq4", "seq", 4, ["And", "Not", "Plus", "GE", "FluentExp"], ["b", "x"], []),
            plan("seq2-direct", "seq", 2, ["And", "Not", "Plus", "Div", "GT", "Equals"], ["b", "x"], ["i2", "q1/2"], direct=True),
        ]
    by = enumerate_histories(ctx, plans, parallel=not q)
    _dbg(ctx, "enumerated %r" % {k: len(v) for k, v in by.items()})
    jobs = []
    tid = 0
    for pl in plans:
        for h in by[pl["name"]]:
            tid += 1
            jobs.append(("replay", tid, h))
    nenum = len(jobs)
    # ---- T3: seeded long random histories over the whole alphabet ----------------------------
    nr = 600 if q else 6000
    jobs += [("random", 10000000 + i, (ctx.rng.getrandbits(48), ctx.rng.randint(8, 40))) for i in range(nr)]
    traces = run_jobs(ctx, jobs)
    _dbg(ctx, "replayed %d histories" % len(traces))
    account(traces, stats)
    ctx.sample({"kind": "enumerated history", "trace": traces[nenum // 2]})
    ctx.sample({"kind": "random history (first 8 calls)", "trace": {"id": traces[-1]["id"], "ops": traces[-1]["ops"][:8]}})
    judge(ctx, "all", traces, stats)
    _dbg(ctx, "judged")
    # ---- evidence ---------------------------------------------------------------------------
    missing = set(ALL_CTORS) - stats["ctors"]
    if missing:
        raise MachineryError("vacuity: constructors never exercised: %s" % sorted(missing))
    nofeat = [f for f in REQUIRED_FEATURES if f not in stats["features"]]
    if nofeat:
        raise MachineryError("vacuity: call shapes never exercised: %s" % nofeat)
    ctx.notes["features"] = sorted(stats["features"])
    ctx.cov["evaluations"] = stats["calls"]
    ctx.cov["distinct_nontrivial"] = stats["nontrivial"]
    ctx.cov["unspecified"] = len(stats["dead"] - stats["failed"])
    ctx.cov["rule"] = (
        "T1: exhaustive BFS of MCExprManager within the stated alphabets/depths, plus the as-written (CacheFirst) model "
        "refuted. T2: TLC-enumerated histories (%s) replayed on a fresh Environment each (%d histories); T3: %d seeded "
        "random histories of 8-40 calls over all 17 constructors, 4 fluents and 18 literal spellings, 25%% verbatim "
        "repetitions. evaluations = constructor calls bound to the implementation; a history is non-trivial when it repeats "
        "a call verbatim or contains a rejected call; unspecified = histories not judged to the end (a later call uses the "
        "result of a call the specification rejects, or a Div with a fluent-free non-constant/zero divisor) without any failure."
        % (", ".join("%s=%d" % (p["name"], len(by[p["name"]])) for p in plans), nenum, nr)
    )
    ctx.cov["exhaustive"] = True
    ctx.assumptions += [
        "TLC and the CommunityModules Json reader are trusted",
        "types are restricted to bool/int/real fluents without parameters; user types, timings, quantifiers and parameters are not explored",
        "node ids are the environment's choice: only freshness and distinctness are required, not consecutiveness",
        "the exception class of a rejected construction is recorded but not judged",
        "Div with a fluent-free divisor other than a non-zero constant is an unspecified zone (the type checker divides interval bounds)",
    ]


# ----------------------------------------------------------------------------------------
# ./check C16 --replay FILE   and   ./check C16 --selftest   (not part of the verdict run)
# ----------------------------------------------------------------------------------------
def replay(ctx, data):
    """Re-run the call history of a replay file on the current tree and judge it again."""
    t = data["data"]["trace"]
    stats = {"dead": set(), "failed": set()}
    traces = run_jobs(ctx, [("replay", t["id"], [{"k": o["k"], "a": o["a"]} for o in t["ops"]])])
    judge(ctx, "replay", traces, stats)
    for v in ctx.violations:
        print("REPLAY %s: %s" % (v.sig, v.what))
    print("replayed %d call(s): %d clause(s) fail" % (len(traces[0]["ops"]), len(ctx.violations)))
    return 1 if ctx.violations else 0


CORRUPTIONS = [
    # (label, function mutating one trace in place, clause expected among the failures)
    ("returned id of a repeated construction", lambda t: t["ops"][1]["r"].__setitem__(1, 99), "same-content-same-node"),
    ("object ordinal of a repeated construction", lambda t: t["ops"][1]["r"].__setitem__(2, 7), "identical-object"),
    ("operator of the returned node (GE kept as GE)", lambda t: t["ops"][0]["r"].__setitem__(3, "GE"), "result-content-normal-form"),
    ("children of the returned node not mirrored", lambda t: t["ops"][0]["r"].__setitem__(4, list(reversed(t["ops"][0]["r"][4]))), "result-content-normal-form"),
    ("payload of the promoted literal 2.0 kept as a Real", lambda t: t["ops"][0]["add"][1].__setitem__(3, "Fraction:2"), "table-extra-node"),
    ("an entry disappears from the table", lambda t: t["ops"][1].__setitem__("del", [t["ops"][0]["add"][0]]), "table-keeps-entries"),
    ("a new node reuses an id", lambda t: (t["ops"][2]["add"][0].__setitem__(0, 3), t["ops"][2]["r"].__setitem__(1, 3)), "new-ids-fresh"),
    ("a node read again at the end has other children", lambda t: t["rr"][0].__setitem__(2, [4, 4]), "node-immutable"),
    ("raw table size grows without a new entry", lambda t: t["ops"][1].__setitem__("n", t["ops"][1]["n"] + 1), "table-count"),
    ("an ill-typed construction returns a node", lambda t: t["ops"][3].__setitem__("r", ["ok", 9, 5, "AND", [3, 4], "NoneType:None"]), "rejects-ill-typed"),
    ("a well-typed construction raises", lambda t: (t["ops"][2].__setitem__("r", ["exc", 0, 0, "UPTypeError", [], ""]), t["ops"][2].__setitem__("add", []), t["ops"][2].__setitem__("n", t["ops"][1]["n"])), "accepts-well-typed"),
]
SELFTEST_HISTORY = [
    {"k": "GE", "a": [["l", 0, "x"], ["v", 0, "f2.0"]]},
    {"k": "LE", "a": [["v", 0, "q4/2"], ["l", 0, "x"]]},
    {"k": "Not", "a": [["r", 1, ""]]},
    {"k": "Or", "a": [["l", 0, "x"], ["r", 3, ""]]},
]


def selftest(ctx):
    """(a) corrupting one recorded field makes the judge reject; (b) one source mutation in a scratch
    copy of the package makes `./check C16` report a VIOLATION."""
    import copy
    import shutil
    import subprocess
    import tempfile

    base = run_jobs(ctx, [("replay", 1, SELFTEST_HISTORY)])[0]
    traces = [base]
    for i, (label, fn, clause) in enumerate(CORRUPTIONS):
        t = copy.deepcopy(base)
        t["id"] = 100 + i
        fn(t)
        traces.append(t)
    stats = {"dead": set(), "failed": set()}
    judge(ctx, "selftest", traces, stats)
    got = {}
    for v in ctx.violations:
        got.setdefault(v.data["trace"]["id"], set()).add(v.data["clause"])
    rc = 0
    # the unchanged trace may only show the known defect (its last call is an ill-typed attempt)
    extra = got.get(1, set()) - {"reject-leaves-table-unchanged"}
    print("unchanged trace: %s" % (sorted(got.get(1, set())) or "accepted"))
    if extra:
        rc = 1
    for i, (label, fn, clause) in enumerate(CORRUPTIONS):
        ok = clause in got.get(100 + i, set())
        print("%-7s corruption '%s' -> %s (expected %s)" % ("caught" if ok else "MISSED", label, sorted(got.get(100 + i, set())), clause))
        rc = rc or (0 if ok else 1)
    # (b) source mutation in a scratch copy
    import unified_planning

    src = os.path.dirname(os.path.abspath(unified_planning.__file__))
    tmp = tempfile.mkdtemp(prefix="c16-selftest-")
    try:
        shutil.copytree(src, os.path.join(tmp, "unified_planning"))
        f = os.path.join(tmp, "unified_planning", "model", "expression.py")
        text = open(f).read()
        old = "return self.create_node(node_type=OperatorKind.LT, args=(right, left))"
        if old not in text:
            raise MachineryError("selftest: mutation anchor not found")
        open(f, "w").write(text.replace(old, "return self.create_node(node_type=OperatorKind.LT, args=(left, right))"))
        root = os.path.dirname(os.path.dirname(os.path.dirname(os.path.abspath(__file__))))
        # the nested run must not leave the mutant's evidence / replay files behind
        evf = os.path.join(root, "evidence", "C16.json")
        saved = open(evf).read() if os.path.exists(evf) else None
        rdir = os.path.join(root, "replay", "C16")
        before = set(os.listdir(rdir)) if os.path.isdir(rdir) else None
        pr = subprocess.run([os.path.join(root, "check"), "C16"], env=dict(os.environ, VERIF_REPO=tmp), stdout=subprocess.PIPE, stderr=subprocess.STDOUT, text=True, timeout=1800)
        hit = pr.returncode == 1 and "VIOLATION property=C16" in pr.stdout
        print("%-7s source mutation 'GT not mirrored' -> exit %d" % ("caught" if hit else "MISSED", pr.returncode))
        if saved is not None:
            open(evf, "w").write(saved)
        elif os.path.exists(evf):
            os.remove(evf)
        if os.path.isdir(rdir):
            for f in os.listdir(rdir):
                if before is None or f not in before:
                    os.remove(os.path.join(rdir, f))
            if not os.listdir(rdir):
                os.rmdir(rdir)
        rc = rc or (0 if hit else 1)
    finally:
        shutil.rmtree(tmp, ignore_errors=True)
    return rc
