"""C31 -- meta-engines return only valid plans and truthful statuses.

Generated problems with interpreted functions in conditions/effects (finite tables), or with an
oversubscription metric, are solved through `interpreted_functions_planning[bfs]` / `oversubscription[bfs]`
(bfs = harness/bfsplanner.py, the exact breadth-first planner the property assumes).  spec/MetaJudge.tla:
the returned plan is judged by UPSeqSem!SeqVerdict on the original problem; TLC explores the whole
(finite) reachable state space to decide solvability and, for SOLVED_OPTIMALLY, maximal gain.
"""
import os
import random
from multiprocessing import Pool

from .. import tlc, upj, simobs
from ..common import MachineryError, time_limit, ImplTimeout, call_limited
from ..gen import Gen

CFG = "SPECIFICATION Spec\nINVARIANT Judge\n"

# finite state spaces: Boolean and object fluents, bounded ints only
# (the meta-engines' supported kinds exclude state invariants and forall effects)
FINITE = dict(real=False, incdec=True, bounded=True, undefined=False, invariants=False, forall_eff=False, max_fluents=4, max_objects=2)


def finite_problem(P):
    """every numeric fluent is a bounded int (so that the reachable state space is finite)"""
    for f in P["fluents"]:
        t = f["type"]
        if t["k"] == "real":
            return False
        if t["k"] == "int" and (t["lo"]["k"] == "none" or t["hi"]["k"] == "none"):
            return False
    return True


def ifun_chains(P, rng, n=8):
    """Generator only: variants of P with a two-step data flow through an interpreted function whose consumer is
    DECLARED BEFORE its producer: action chain_step (first action of the problem) copies the numeric ground fluent y
    (or y + 1) into z, action chain_probe (last action) assigns y := g(constant).  The worker keeps the first variant
    in which the real simulator can run producer then consumer and thereby gives z a value it gets in no shorter way."""
    import copy
    from ..upj import E, NV

    ftype = {f["name"]: f["type"]["k"] for f in P["fluents"]}
    nums = [k for k in upj.keys_of(P) if ftype[k[0]] == "int"]
    names = {a["name"] for a in P["actions"]}
    if len(nums) < 2 or not any(f["name"] == "g" for f in P.get("ifuns", [])) or names & {"chain_step", "chain_probe"}:
        return []

    def fe(k):
        return {"name": k[0], "args": [E("obj", name=a) for a in k[1]]}

    def fx(k):
        return E("fluent", [E("obj", name=a) for a in k[1]], name=k[0])

    def act(name, target, value):
        return {"name": name, "kind": "inst", "params": [], "pre": [], "conds": [], "dur": upj.NONE, "sim": False,
                "effects": [{"kind": "assign", "f": fe(target), "v": value, "c": upj.TRUE_E, "forall": []}]}

    out = []
    for _ in range(n):
        y, z = rng.sample(nums, 2)
        step_v = fx(y) if rng.random() < 0.6 else E("plus", [fx(y), E("const", v=NV(1))])
        Q = copy.deepcopy(P)
        Q["actions"] = [act("chain_step", z, step_v)] + Q["actions"] + \
                       [act("chain_probe", y, E("ifun", [E("const", v=NV(rng.choice([-1, 0, 1, 2, 3, 4])))], name="g"))]
        Q["name"] = "g_chain"
        out.append(Q)
    return out


def _chain_goal(P, rng):
    """goal z = v for a chain variant, when [chain_probe, chain_step] is executable and gives z a value that neither
    the initial state nor chain_step alone gives; None otherwise"""
    from unified_planning.engines.sequential_simulator import UPSequentialSimulator
    from ..upj import E

    try:
        problem = upj.build(P)
        sim = UPSequentialSimulator(problem, error_on_failed_checks=False)
        s0 = sim.get_initial_state()
        s1 = sim.apply(s0, problem.action("chain_probe"), ())
        s2 = sim.apply(s1, problem.action("chain_step"), ()) if s1 is not None else None
        if s2 is None:
            return None
        alt = sim.apply(s0, problem.action("chain_step"), ())
        keys = upj.keys_of(P)
        zt = P["actions"][0]["effects"][0]["f"]
        zi = [i for i, (n_, a_) in enumerate(keys) if n_ == zt["name"] and a_ == [x["name"] for x in zt["args"]]][0]
        v0, v2 = upj.state_vector(s0, problem, keys)[zi], upj.state_vector(s2, problem, keys)[zi]
        va = upj.state_vector(alt, problem, keys)[zi] if alt is not None else None
        if v2 == v0 or v2 == va or v2["k"] != "n":
            return None
        P2 = dict(P)
        P2["goals"] = [E("eq", [E("fluent", zt["args"], name=zt["name"]), E("const", v=v2)])]
        # syntactic/observational tag used only in signatures: is the consumer applicable on the STALE value of y?
        return P2, ("stale-ok" if alt is not None else "stale-inapplicable")
    except Exception:
        return None


def _retarget_goals(P, problem, rng):
    from unified_planning.engines.sequential_simulator import UPSequentialSimulator
    from ..gen import ground_actions
    from ..upj import E

    try:
        sim = UPSequentialSimulator(problem, error_on_failed_checks=False)
        st = sim.get_initial_state()
        gas = ground_actions(P)
        for _ in range(rng.randint(1, 4)):
            rng.shuffle(gas)
            for g in gas[:8]:
                a = problem.action(g["a"])
                ns = sim.apply(st, a, simobs._params(problem, a, g["args"]))
                if ns is not None:
                    st = ns
                    break
        keys = upj.keys_of(P)
        vec = upj.state_vector(st, problem, keys)
        lits = []
        for (name, args), v in zip(keys, vec):
            fe = E("fluent", [E("obj", name=a) for a in args], name=name)
            if v["k"] == "b":
                lits.append(fe if v["b"] else E("not", [fe]))
            elif v["k"] == "n":
                lits.append(E("eq", [fe, E("const", v=v)]))
        if not lits:
            return None
        rng.shuffle(lits)
        P2 = dict(P)
        P2["goals"] = lits[: rng.randint(1, 2)]
        return P2
    except Exception:
        return None


def worker(job):
    pid, P, mode, seed = job
    import unified_planning as up

    chain = ""
    if isinstance(P, list):
        # chain variants (see ifun_chains): keep the first one with a usable chain goal, else the base problem
        base, variants = P[0], P[1:]
        P = base
        try:
            with time_limit(60):
                found = [x for x in (_chain_goal(Q, random.Random(seed)) for Q in variants) if x is not None]
                found.sort(key=lambda x: x[1] != "stale-ok")
                if found:
                    P, chain = found[0]
        except ImplTimeout:
            pass

    rec = {"id": pid, "P": P, "keys": upj.keys_of(P), "mode": mode, "status": "", "has_plan": False, "plan": [], "skip": "", "complete": True,
           "chain": chain}
    try:
        with time_limit(40):
            problem = upj.build(P)
            if seed % 3 != 0 and P["name"] != "g_chain":
                # generator heuristic (not an oracle): aim the hard goals at a state the implementation's
                # simulator reaches by a short random walk, so that most problems are solvable
                P2 = _retarget_goals(P, problem, random.Random(seed))
                if P2 is not None:
                    P = P2
                    rec["P"] = P
                    problem = upj.build(P)
        env = problem.environment
        if "bfs" not in env.factory.engines:
            env.factory.add_engine("bfs", "harness.bfsplanner", "BfsPlanner")
        name = "oversubscription[bfs]" if mode == "oversub" else "interpreted_functions_planning[bfs]"
        try:
            planner = env.factory.OneshotPlanner(name=name)
            if not planner.supports(problem.kind):
                rec["skip"] = "unsupported-kind"
                return rec
        except Exception as ex:
            rec["skip"] = "planner:" + type(ex).__name__
            rec["detail"] = str(ex)[:200]
            return rec
    except ImplTimeout:
        rec["skip"] = "timeout"
        return rec
    except Exception as ex:
        import traceback

        rec["skip"] = "build:" + type(ex).__name__
        rec["detail"] = traceback.format_exc()[-600:]
        return rec
    try:
        def _solve():
            with planner:
                return planner.solve(problem)

        res = call_limited(_solve, 60, 5)
        rec["status"] = res.status.name
        if res.plan is not None:
            rec["has_plan"] = True
            rec["plan"] = [{"a": ai.action.name, "args": [upj.p_const(x) for x in ai.actual_parameters]} for ai in res.plan.actions]
    except ImplTimeout:
        rec["status"] = "X:TIMEOUT"
    except Exception as ex:
        rec["status"] = "X:" + type(ex).__name__
        rec["detail"] = str(ex)[:300]
    return rec


def run(ctx):
    q = ctx.quick
    n = 150 if q else 1200
    g_if = Gen(ctx.rng, ifuns=True, **FINITE)
    g_os = Gen(ctx.rng, metric="any", **FINITE)
    jobs = []
    pid = 0
    tries = 0
    while len(jobs) < n and tries < n * 30:
        tries += 1
        if len(jobs) % 2 == 0:
            P = g_if.problem()
            mode = "ifp"
            vs = ifun_chains(P, ctx.rng) if len(jobs) % 4 == 0 and finite_problem(P) else []
            if vs:
                P = [P] + vs
            elif "'ifun'" not in repr(P["actions"]) + repr(P["goals"]):
                continue
        else:
            P = g_os.problem()
            if P["metric"]["kind"] != "oversub":
                continue
            mode = "oversub"
        if not finite_problem(P[0] if isinstance(P, list) else P):
            continue
        pid += 1
        jobs.append((pid, P, mode, ctx.seed * 7919 + pid))
    with Pool(12, maxtasksperchild=30) as pool:
        recs = pool.map(worker, jobs, chunksize=2)
    skipped = {}
    for r in recs:
        if r["skip"]:
            skipped[r["skip"]] = skipped.get(r["skip"], 0) + 1
    batch = [r for r in recs if not r["skip"]]
    ctx.cov["skip_details"] = sorted({r.get("detail", "")[-200:] for r in recs if r["skip"].startswith("build:Attr")})[:3]
    if not batch:
        raise MachineryError("nothing solved: %r" % skipped)
    for r in batch:
        if r["status"].startswith("X:"):
            import re

            slug = re.sub(r"[^A-Za-z]+", "-", r.get("detail", ""))[:60].strip("-")
            ctx.violation("meta-engine-raises-%s|%s|%s" % (r["status"][2:], r["mode"], slug), "%s raised %s: %s" % (r["mode"], r["status"], r.get("detail", "")),
                          {"problem": r["P"], "mode": r["mode"], "detail": r.get("detail", "")})
    judged = [r for r in batch if not r["status"].startswith("X:")]
    d = ctx.sub("judge")
    path = os.path.join(d, "batch.ndjson")
    tlc.write_ndjson(path, judged)
    res = tlc.run_tlc("MetaJudge", CFG, d, env={"BATCH": path}, timeout=3000, heap="16g")
    if res.error or res.violated:
        raise MachineryError("MetaJudge failed: %s %s" % (res.violated, (res.error or "")[-3000:]))
    if res.distinct < len(judged):
        raise MachineryError("judge visited %d states for %d records" % (res.distinct, len(judged)))
    ctx.add_tlc("MetaJudge", res)
    byid = {r["id"]: r for r in judged}
    seen = set()
    for p in res.printed:
        if p and p[0] == "U":
            ctx.cov["unspecified"] += 1
        elif p and p[0] == "FAIL":
            _, rid, clause = p
            if (rid, clause) in seen:
                continue
            seen.add((rid, clause))
            r = byid[rid]
            ctx.violation("%s|%s%s" % (clause, r["mode"], ("|chain:" + r["chain"]) if r.get("chain") else ""), "C31 %s: %s" % (r["mode"], clause),
                          {"clause": clause, "mode": r["mode"], "status": r["status"], "plan": r["plan"], "problem": r["P"]})
    ctx.cov["evaluations"] = len(judged)
    ctx.cov["traces_validated_against_impl"] = len(judged)
    ctx.cov["distinct_nontrivial"] = sum(1 for r in judged if r["has_plan"] and r["plan"])
    ctx.cov["statuses"] = {}
    for r in judged:
        k = r["mode"] + ":" + r["status"]
        ctx.cov["statuses"][k] = ctx.cov["statuses"].get(k, 0) + 1
    ctx.cov["problems_skipped"] = skipped
    ctx.cov["rule"] = (
        "generated finite-state problems (Boolean/object fluents, bounded ints), half with interpreted functions (finite "
        "tables) in conditions/effects solved by interpreted_functions_planning[bfs], half with an oversubscription metric "
        "solved by oversubscription[bfs]; one evaluation = one solve() judged by TLC (plan validity + exhaustive "
        "reachability for solvability/optimality); non-trivial = a non-empty plan was returned."
    )
    ex = next((r for r in judged if r["has_plan"] and r["plan"]), judged[0])
    ctx.sample({"mode": ex["mode"], "status": ex["status"], "plan": ex["plan"], "problem": ex["P"]})
    ctx.assumptions += ["the harness's breadth-first planner (harness/bfsplanner.py) is the correct underlying planner the property assumes",
                        "TLC, Json reader, harness/upj.py trusted; reachable state spaces are finite (<= a few thousand states)"]
