"""C31 -- meta-engines return only valid plans and truthful statuses.

Generated problems with interpreted functions in conditions/effects (finite tables), or with an
oversubscription metric, are solved through `interpreted_functions_planning[bfs]` / `oversubscription[bfs]`
(bfs = harness/bfsplanner.py, the exact breadth-first planner the property assumes).  spec/MetaJudge.tla:
the returned plan is judged by UPSeqSem!SeqVerdict on the original problem; TLC explores the whole
(finite) reachable state space to decide solvability and, for SOLVED_OPTIMALLY, maximal gain.
"""
import os
import random
from multiprocessing import Pool

from .. import tlc, upj, simobs
from ..common import MachineryError, time_limit, ImplTimeout, call_limited
from ..gen import Gen

CFG = "SPECIFICATION Spec\nINVARIANT Judge\n"

# finite state spaces: Boolean and object fluents, bounded ints only
# (the meta-engines' supported kinds exclude state invariants and forall effects)
FINITE = dict(real=False, incdec=True, bounded=True, undefined=False, invariants=False, forall_eff=False, max_fluents=4, max_objects=2)


def finite_problem(P):
    """every numeric fluent is a bounded int (so that the reachable state space is finite)"""
    for f in P["fluents"]:
        t = f["type"]
        if t["k"] == "real":
            return False
        if t["k"] == "int" and (t["lo"]["k"] == "none" or t["hi"]["k"] == "none"):
            return False
    return True


def _retarget_goals(P, problem, rng):
    from unified_planning.engines.sequential_simulator import UPSequentialSimulator
    from ..gen import ground_actions
    from ..upj import E

    try:
        sim = UPSequentialSimulator(problem, error_on_failed_checks=False)
        st = sim.get_initial_state()
        gas = ground_actions(P)
        for _ in range(rng.randint(1, 4)):
            rng.shuffle(gas)
            for g in gas[:8]:
                a = problem.action(g["a"])
                ns = sim.apply(st, a, simobs._params(problem, a, g["args"]))
                if ns is not None:
                    st = ns
                    break
        keys = upj.keys_of(P)
        vec = upj.state_vector(st, problem, keys)
        lits = []
        for (name, args), v in zip(keys, vec):
            fe = E("fluent", [E("obj", name=a) for a in args], name=name)
            if v["k"] == "b":
                lits.append(fe if v["b"] else E("not", [fe]))
            elif v["k"] == "n":
                lits.append(E("eq", [fe, E("const", v=v)]))
        if not lits:
            return None
        rng.shuffle(lits)
        P2 = dict(P)
        P2["goals"] = lits[: rng.randint(1, 2)]
        return P2
    except Exception:
        return None


def worker(job):
    pid, P, mode, seed = job
    import unified_planning as up

    rec = {"id": pid, "P": P, "keys": upj.keys_of(P), "mode": mode, "status": "", "has_plan": False, "plan": [], "skip": "", "complete": True}
    try:
        with time_limit(40):
            problem = upj.build(P)
            if seed % 3 != 0:
                # generator heuristic (not an oracle): aim the hard goals at a state the implementation's
                # simulator reaches by a short random walk, so that most problems are solvable
                P2 = _retarget_goals(P, problem, random.Random(seed))
                if P2 is not None:
                    P = P2
                    rec["P"] = P
                    problem = upj.build(P)
        env = problem.environment
        if "bfs" not in env.factory.engines:
            env.factory.add_engine("bfs", "harness.bfsplanner", "BfsPlanner")
        name = "oversubscription[bfs]" if mode == "oversub" else "interpreted_functions_planning[bfs]"
        try:
            planner = env.factory.OneshotPlanner(name=name)
            if not planner.supports(problem.kind):
                rec["skip"] = "unsupported-kind"
                return rec
        except Exception as ex:
            rec["skip"] = "planner:" + type(ex).__name__
            rec["detail"] = str(ex)[:200]
            return rec
    except ImplTimeout:
        rec["skip"] = "timeout"
        return rec
    except Exception as ex:
        import traceback

        rec["skip"] = "build:" + type(ex).__name__
        rec["detail"] = traceback.format_exc()[-600:]
        return rec
    try:
        def _solve():
            with planner:
                return planner.solve(problem)

        res = call_limited(_solve, 60, 5)
        rec["status"] = res.status.name
        if res.plan is not None:
            rec["has_plan"] = True
            rec["plan"] = [{"a": ai.action.name, "args": [upj.p_const(x) for x in ai.actual_parameters]} for ai in res.plan.actions]
    except ImplTimeout:
        rec["status"] = "X:TIMEOUT"
    except Exception as ex:
        rec["status"] = "X:" + type(ex).__name__
        rec["detail"] = str(ex)[:300]
    return rec


def run(ctx):
    q = ctx.quick
    n = 150 if q else 1200
    g_if = Gen(ctx.rng, ifuns=True, **FINITE)
    g_os = Gen(ctx.rng, metric="any", **FINITE)
    jobs = []
    pid = 0
    tries = 0
    while len(jobs) < n and tries < n * 30:
        tries += 1
        if len(jobs) % 2 == 0:
            P = g_if.problem()
            if "'ifun'" not in repr(P["actions"]) + repr(P["goals"]):
                continue
            mode = "ifp"
        else:
            P = g_os.problem()
            if P["metric"]["kind"] != "oversub":
                continue
            mode = "oversub"
        if not finite_problem(P):
            continue
        pid += 1
        jobs.append((pid, P, mode, ctx.seed * 7919 + pid))
    with Pool(12, maxtasksperchild=30) as pool:
        recs = pool.map(worker, jobs, chunksize=2)
    skipped = {}
    for r in recs:
        if r["skip"]:
            skipped[r["skip"]] = skipped.get(r["skip"], 0) + 1
    batch = [r for r in recs if not r["skip"]]
    ctx.cov["skip_details"] = sorted({r.get("detail", "")[-200:] for r in recs if r["skip"].startswith("build:Attr")})[:3]
    if not batch:
        raise MachineryError("nothing solved: %r" % skipped)
    for r in batch:
        if r["status"].startswith("X:"):
            ctx.violation("meta-engine-raises-%s|%s" % (r["status"][2:], r["mode"]), "%s raised %s: %s" % (r["mode"], r["status"], r.get("detail", "")),
                          {"problem": r["P"], "mode": r["mode"], "detail": r.get("detail", "")})
    judged = [r for r in batch if not r["status"].startswith("X:")]
    d = ctx.sub("judge")
    path = os.path.join(d, "batch.ndjson")
    tlc.write_ndjson(path, judged)
    res = tlc.run_tlc("MetaJudge", CFG, d, env={"BATCH": path}, timeout=3000, heap="16g")
    if res.error or res.violated:
        raise MachineryError("MetaJudge failed: %s %s" % (res.violated, (res.error or "")[-3000:]))
    if res.distinct < len(judged):
        raise MachineryError("judge visited %d states for %d records" % (res.distinct, len(judged)))
    ctx.add_tlc("MetaJudge", res)
    byid = {r["id"]: r for r in judged}
    seen = set()
    for p in res.printed:
        if p and p[0] == "U":
            ctx.cov["unspecified"] += 1
        elif p and p[0] == "FAIL":
            _, rid, clause = p
            if (rid, clause) in seen:
                continue
            seen.add((rid, clause))
            r = byid[rid]
            ctx.violation("%s|%s" % (clause, r["mode"]), "C31 %s: %s" % (r["mode"], clause),
                          {"clause": clause, "mode": r["mode"], "status": r["status"], "plan": r["plan"], "problem": r["P"]})
    ctx.cov["evaluations"] = len(judged)
    ctx.cov["traces_validated_against_impl"] = len(judged)
    ctx.cov["distinct_nontrivial"] = sum(1 for r in judged if r["has_plan"] and r["plan"])
    ctx.cov["statuses"] = {}
    for r in judged:
        k = r["mode"] + ":" + r["status"]
        ctx.cov["statuses"][k] = ctx.cov["statuses"].get(k, 0) + 1
    ctx.cov["problems_skipped"] = skipped
    ctx.cov["rule"] = (
        "generated finite-state problems (Boolean/object fluents, bounded ints), half with interpreted functions (finite "
        "tables) in conditions/effects solved by interpreted_functions_planning[bfs], half with an oversubscription metric "
        "solved by oversubscription[bfs]; one evaluation = one solve() judged by TLC (plan validity + exhaustive "
        "reachability for solvability/optimality); non-trivial = a non-empty plan was returned."
    )
    ex = next((r for r in judged if r["has_plan"] and r["plan"]), judged[0])
    ctx.sample({"mode": ex["mode"], "status": ex["status"], "plan": ex["plan"], "problem": ex["P"]})
    ctx.assumptions += ["the harness's breadth-first planner (harness/bfsplanner.py) is the correct underlying planner the property assumes",
                        "TLC, Json reader, harness/upj.py trusted; reachable state spaces are finite (<= a few thousand states)"]
