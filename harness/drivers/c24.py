"""C24 -- effect conflict detection is order-independent and exception-safe.

T1  spec/EffectConflicts.tla: the implementation-shaped layer (eff, assigned, incdec, sim, updated in
    the order in which check_conflicting_effects / check_conflicting_simulated_effects test, update
    and raise) against the declarative layer ConflictSpec (a collection conflicts iff some pair does),
    for every history of calls within the bounds.  Configurations:
      as-written (Repaired = FALSE), all invariants   -> TLC finds the exception-safety defect
      as-written, order-independence invariants only  -> runs to completion
      repaired (Repaired = TRUE), all invariants      -> runs to completion
    (one run per bound with -coverage 1: every outcome of the check is a named action and must be taken).
    Which configuration speaks for the code is decided by TLC too: the trace judge checks the recorded
    histories for conformance with the Impl layer under Repaired = FALSE, then (only if that fails)
    under Repaired = TRUE.
T2  TLC (EffectConflictsEnum) emits the table of calls and, per group, every history of length L over
    the group's sub-universe, per container; each history is replayed on a fresh InstantaneousAction /
    DurativeAction / Problem through the public API only.  After every call: returned /
    UPConflictingEffectsException / other exception, the stored effects and simulated effect per time
    point (public getters), and the probe: every candidate call tried on a copy (clone() for the
    actions; for Problem a fresh problem with the same history replayed, because Problem.clone drops
    _fluents_inc_dec -- that is C22's finding).
T3  EffectConflictsTrace judges every recorded history (the enumerated ones and seeded random longer
    ones over two time points) step by step against both layers.

Python holds no oracle: it builds objects from the table TLC emitted, calls the API and projects what
the public getters return to indices of that table.
"""
import multiprocessing
import os
import warnings

from .. import tlc
from ..common import MachineryError, time_limit, ImplTimeout

T1_CFG = """SPECIFICATION Spec
CONSTANTS Level = %(level)d
 NT = %(nt)d
 MaxOps = %(maxops)d
 Repaired = %(rep)s
%(props)s"""
T1_ALL = (
    "INVARIANT VerdictOK\nINVARIANT StoredOK\nINVARIANT BookkeepingOK\nINVARIANT AcceptedConsistent\n"
    "INVARIANT OrderFree\nINVARIANT StoredEffectsOK\nPROPERTY RejectUnchanged\n"
)
T1_ORDER = "INVARIANT OrderFree\nINVARIANT StoredEffectsOK\nINVARIANT AcceptedConsistent\n"
T1_ACTIONS = (
    "Accept",
    "RejectSimEffects",
    "RejectAssignIncDec",
    "RejectAssignSim",
    "RejectAssignAssign",
    "RejectIncDecAssign",
    "RejectIncDecSim",
)

ENUM_CFG = """INIT EnumInit
NEXT EnumNext
CONSTANTS Level = 2
 NT = 2
 MaxOps = 0
 Repaired = FALSE
 Groups <- %(groups)s
"""

TRACE_CFG = """SPECIFICATION TraceSpec
CONSTANTS Level = 2
 NT = 2
 MaxOps = 1000000
 Repaired = %(rep)s
INVARIANT Verdict
"""

CONTAINERS = ("ia", "da", "pb")


# ----------------------------------------------------------------------------------------
# binding of the abstract table to unified_planning objects
# ----------------------------------------------------------------------------------------
class World:
    """Concrete fluents, values, conditions, timings and simulated effects for one table."""

    def __init__(self, table):
        from fractions import Fraction

        import unified_planning as up
        from unified_planning.shortcuts import (
            BoolType,
            EndTiming,
            FALSE,
            Fluent,
            FluentExp,
            GlobalStartTiming,
            Int,
            IntType,
            Object,
            Plus,
            Real,
            RealType,
            StartTiming,
            TRUE,
            UserType,
        )
        from unified_planning.exceptions import UPConflictingEffectsException
        from unified_planning.model.effect import SimulatedEffect

        self.up = up
        self.Conflict = UPConflictingEffectsException
        self.table = table
        self.nt = max(r["t"] for r in table)
        loc = UserType("C24Loc")
        self.obj = Object("c24_o", loc)
        self.fluents = {
            "f": Fluent("c24_f", IntType()),
            "g": Fluent("c24_g", RealType(), x=loc),
            "b": Fluent("c24_b", BoolType()),
            "h": Fluent("c24_h", IntType()),
            "cnd": Fluent("c24_cnd", BoolType()),
        }
        h = FluentExp(self.fluents["h"])
        self.fl = {
            "f": FluentExp(self.fluents["f"]),
            "g": FluentExp(self.fluents["g"], [self.obj]),
            "b": FluentExp(self.fluents["b"]),
        }
        num = {1: Int(1), 2: Int(2), 3: Real(Fraction(1)), 4: Plus(h, 1), 5: Plus(1, h)}
        self.val = {("f", v): num[v] for v in (1, 2, 4, 5)}
        self.val.update({("g", v): num[v] for v in (1, 2, 3, 4, 5)})
        self.val.update({("b", 1): TRUE(), ("b", 2): FALSE()})
        self.cond = {False: TRUE(), True: FluentExp(self.fluents["cnd"])}
        self.timing = {
            "da": {1: StartTiming(), 2: EndTiming()},
            "pb": {1: GlobalStartTiming(5), 2: GlobalStartTiming(10)},
        }

        def fun(problem, state, actual_params):
            return []

        self.sims = {}
        with warnings.catch_warnings():
            warnings.simplefilter("ignore")
            for r in table:
                if r["k"] == "sim" and r["s"] not in self.sims:
                    self.sims[r["s"]] = SimulatedEffect([self.fl[x] for x in r["sf"]], fun)
        # projection of stored effects back to table indices
        self.index = {(r["k"], r["fl"], r["v"], r["c"], r["t"]): r["idx"] for r in table if r["k"] != "sim"}
        self.kindname = {"assign": "ASSIGN", "inc": "INCREASE", "dec": "DECREASE"}
        self.rev = {}
        for r in table:
            if r["k"] != "sim":
                key = (self.kindname[r["k"]], self.fl[r["fl"]], self.val[(r["fl"], r["v"])], self.cond[r["c"]])
                self.rev[key] = (r["k"], r["fl"], r["v"], r["c"])
        self.offered = {cn: [r for r in table if r[cn]] for cn in CONTAINERS}
        self.probes = {cn: [r for r in table if r[cn] and r["probe"]] for cn in CONTAINERS}

    def new(self, cn):
        m = self.up.model
        if cn == "ia":
            return m.InstantaneousAction("c24_a")
        if cn == "da":
            return m.DurativeAction("c24_d")
        p = m.Problem("c24_p")
        for k in ("f", "g", "b", "h", "cnd"):
            p.add_fluent(self.fluents[k])
        p.add_object(self.obj)
        return p

    def call(self, cn, obj, r):
        """Perform the public call of table row r; returns (code, exception class name)."""
        try:
            if r["k"] == "sim":
                if cn == "ia":
                    obj.set_simulated_effect(self.sims[r["s"]])
                else:
                    obj.set_simulated_effect(self.timing[cn][r["t"]], self.sims[r["s"]])
            else:
                fl, val, cond = self.fl[r["fl"]], self.val[(r["fl"], r["v"])], self.cond[r["c"]]
                if r["k"] == "assign":
                    name = "add_timed_effect" if cn == "pb" else "add_effect"
                else:
                    name = "add_increase_effect" if r["k"] == "inc" else "add_decrease_effect"
                if cn == "ia":
                    getattr(obj, name)(fl, val, cond)
                else:
                    getattr(obj, name)(self.timing[cn][r["t"]], fl, val, cond)
            return 0, ""
        except self.Conflict:
            return 1, "UPConflictingEffectsException"
        except Exception as ex:  # an observation, not a crash
            return 2, type(ex).__name__

    def _idx(self, e, t):
        key = (e.kind.name, e.fluent, e.value, e.condition)
        a = self.rev.get(key)
        if a is None or e.forall:
            return 0
        return self.index.get(a + (t,), 0)

    def _simid(self, se):
        if se is None:
            return 0
        for s, o in self.sims.items():
            if o is se:
                return s
        return 99

    def observe(self, cn, obj):
        """Stored effects / simulated effect per time point, through the public getters."""
        st = [[] for _ in range(self.nt)]
        sm = [0] * self.nt
        if cn == "ia":
            st[0] = [self._idx(e, 1) for e in obj.effects]
            sm[0] = self._simid(obj.simulated_effect)
            return st, sm
        effs = obj.effects if cn == "da" else obj.timed_effects
        known = {}
        for t in range(1, self.nt + 1):
            known[self.timing[cn][t]] = t
        for tm, lst in effs.items():
            t = known.get(tm)
            if t is None:
                st[0] += [0] * len(lst)  # effects stored under a time point nobody used
            else:
                st[t - 1] = [self._idx(e, t) for e in lst]
        if cn == "da":
            for tm, se in obj.simulated_effects.items():
                t = known.get(tm)
                if t is None:
                    sm[0] = 99
                else:
                    sm[t - 1] = self._simid(se)
        return st, sm

    def probe(self, cn, obj, done, nt):
        """Try every candidate call (time points 1..nt) on a copy of the container; `done` = rows called so far."""
        out = []
        for r in self.probes[cn]:
            if r["t"] > nt:
                continue
            if cn == "pb":
                c = self.new(cn)
                for d in done:
                    self.call(cn, c, d)
            else:
                c = obj.clone()
            out.append([r["idx"], self.call(cn, c, r)[0]])
        return out

    def replay(self, cn, idxs, nt, probe_every, probe_init):
        obj = self.new(cn)
        st, sm = self.observe(cn, obj)
        init = {"st": st, "sm": sm, "pr": self.probe(cn, obj, [], nt) if probe_init else []}
        ops, done, excs = [], [], []
        for n, i in enumerate(idxs):
            r = self.table[i - 1]
            code, exc = self.call(cn, obj, r)
            done.append(r)
            st, sm = self.observe(cn, obj)
            pr = self.probe(cn, obj, done, nt) if (probe_every or n == len(idxs) - 1) else []
            ops.append({"i": i, "r": code, "st": st, "sm": sm, "pr": pr})
            excs.append(exc)
        return {"c": cn, "nt": nt, "init": init, "ops": ops}, excs


_CONFIRMED = multiprocessing.get_context("fork").Value("i", 0)  # confirmed non-terminations (shared with forked workers)


def limited_replay(W, cn, idxs, nt, probe_every, probe_init):
    """One history under a time limit.  The limit is wall-clock time, and a starved process on a busy
    machine can lose 10 s without running at all: a history that times out is run once more with a
    long limit before it is called non-terminating (a real loop in the library fails both)."""
    if _CONFIRMED.value >= 2:
        return ("skipped", None)  # the library loops: two confirmed cases are enough, do not wait for thousands
    for limit in (10, 60):
        try:
            with time_limit(limit):
                return W.replay(cn, idxs, nt, probe_every, probe_init)
        except ImplTimeout:
            pass
    with _CONFIRMED.get_lock():
        _CONFIRMED.value += 1
    return ("timeout", None)


def guarded_replay(ctx, W, cn, idxs, nt, probe_every, probe_init):
    """A history that does not come back is a violation."""
    r = limited_replay(W, cn, idxs, nt, probe_every, probe_init)
    if r[0] == "skipped":
        return None, None
    if r[0] == "timeout":
        ctx.violation(
            "impl-nonterminating",
            "an effect-insertion history does not terminate (10 s, then 60 s)",
            {"c": cn, "nt": nt, "ops": idxs},
        )
        return None, None
    return r


_POOL_WORLD = None


def _pool_job(chunk):
    out = []
    for cn, idxs, nt, every, pinit in chunk:
        out.append(limited_replay(_POOL_WORLD, cn, idxs, nt, every, pinit))
    return out


def replay_all(ctx, W, jobs):
    """Replay every job (in order).  Large batches are spread over forked worker processes; the
    result does not depend on how (each history runs on its own fresh container)."""
    global _POOL_WORLD
    if len(jobs) < 30000:
        return [guarded_replay(ctx, W, *j) for j in jobs]
    _POOL_WORLD = W
    chunks = [jobs[i : i + 500] for i in range(0, len(jobs), 500)]
    with multiprocessing.get_context("fork").Pool(8) as pool:
        parts = pool.map(_pool_job, chunks)
    out = []
    for chunk, part in zip(chunks, parts):
        for (cn, idxs, nt, every, pinit), r in zip(chunk, part):
            if r[0] == "skipped":
                out.append((None, None))
            elif r[0] == "timeout":
                ctx.violation(
                    "impl-nonterminating",
                    "an effect-insertion history does not terminate (10 s, then 60 s)",
                    {"c": cn, "nt": nt, "ops": idxs},
                )
                out.append((None, None))
            else:
                out.append(r)
    return out


# ----------------------------------------------------------------------------------------
# TLC runs
# ----------------------------------------------------------------------------------------
def enumerate_histories(ctx, groups):
    """groups: name of the group list defined in EffectConflictsEnum (GroupsQuick / GroupsThorough / GroupsNone)."""
    d = ctx.sub("enum")
    out, tab = os.path.join(d, "hist.ndjson"), os.path.join(d, "table.ndjson")
    res = tlc.run_tlc(
        "EffectConflictsEnum", ENUM_CFG % {"groups": groups}, d, env={"OUT": out, "TABLE": tab}, workers=1, timeout=3000
    )
    if res.error or res.violated:
        raise MachineryError("EffectConflictsEnum failed: %s %s" % (res.violated, res.error))
    table = tlc.read_ndjson(tab)
    hist = tlc.read_ndjson(out)
    emitted = [p for p in res.printed if p and p[0] == "EMITTED"]
    if not emitted or emitted[0][1] != len(table) or emitted[0][2] != len(hist):
        raise MachineryError("enumeration incomplete: %r vs %d rows, %d histories" % (emitted, len(table), len(hist)))
    for i, r in enumerate(table):
        if r["idx"] != i + 1:
            raise MachineryError("table rows out of order")
    hist.sort(key=lambda h: (h["g"], h["c"], h["ops"]))
    return table, tab, hist


def printed_values(stdout, prefix):
    """PrintT values starting with `prefix`, also when TLC wrapped them over several lines."""
    out, buf, depth = [], None, 0
    for line in stdout.splitlines():
        if buf is None:
            if not line.startswith(prefix):
                continue
            buf, depth = "", 0
        buf += line.strip() + " "
        depth += line.count("<<") - line.count(">>")
        if depth <= 0:
            out.append(tlc.parse_value(buf))
            buf = None
    if buf is not None:
        raise MachineryError("unterminated value in TLC output: %r" % buf[:200])
    return out


def judge(ctx, label, tabpath, traces, repaired, batch=40000):
    """Returns {trace id: [[class, clause, step, feature], ...]} for the failing traces."""
    fails = {}
    for b0 in range(0, len(traces), batch):
        part = traces[b0 : b0 + batch]
        d = ctx.sub("judge-%s-%s-%d" % (label, "rep" if repaired else "asis", b0 // batch))
        path = os.path.join(d, "traces.ndjson")
        tlc.write_ndjson(path, part)
        cfg = TRACE_CFG % {"rep": "TRUE" if repaired else "FALSE"}
        res = tlc.run_tlc(
            "EffectConflictsTrace", cfg, d, env={"TRACES": path, "TABLE": tabpath}, workers=8 if ctx.quick else 16, timeout=3000
        )
        if res.error or res.violated:
            raise MachineryError("EffectConflictsTrace failed: %s %s" % (res.violated, res.error))
        expected = sum(len(t["ops"]) + 1 for t in part)
        if res.distinct != expected:
            raise MachineryError("trace judge consumed %d states, expected %d" % (res.distinct, expected))
        ctx.add_tlc("trace-%s-%d Repaired=%s" % (label, b0 // batch, repaired), res)
        nfail = 0
        for p in printed_values(res.stdout, '<<"FAIL"'):
            fails.setdefault(p[1], []).append(p[2:6])
            nfail += 1
        if nfail != res.stdout.count('"FAIL"'):
            raise MachineryError("could not parse every FAIL line of the trace judge")
        os.remove(path)
    for tid, bad in fails.items():
        for b in bad:
            if b[0] == "M":
                raise MachineryError("malformed record in trace %r: %r" % (tid, b))
    return fails


def t1(ctx, cfgs):
    """Design-level checks; returns a list of result records (verdicts are routed by run())."""
    out = []
    d = ctx.sub("t1")
    for c in cfgs:
        for rep, props, name in c["runs"]:
            cover = c.get("cover") == name
            res = tlc.run_tlc(
                "MCEffectConflicts",
                T1_CFG % {"level": c["level"], "nt": c["nt"], "maxops": c["maxops"], "rep": rep, "props": props},
                d,
                workers=1 if name == "as-written" else (8 if ctx.quick else 16),  # 1 worker: deterministic counterexample
                coverage=cover,
                timeout=3000,
            )
            if res.error:
                raise MachineryError(res.error)
            label = "T1 %s Level=%d NT=%d MaxOps=%d" % (name, c["level"], c["nt"], c["maxops"])
            ctx.add_tlc(label, res)
            if cover and not res.violated:
                missing = [a for a in T1_ACTIONS if res.coverage.get(a, (0, 0))[1] == 0]
                if missing:
                    raise MachineryError("vacuous T1 run, actions never taken: %s" % missing)
            why = ""
            if res.violated and res.trace:
                why = res.trace[-1]["vars"].get("last", {}).get("why", "")
            out.append(
                {
                    "name": name,
                    "label": label,
                    "config": {k: c[k] for k in ("level", "nt", "maxops")},
                    "violated": res.violated,
                    "why": why,
                    "trace": [
                        {k: s["vars"].get(k) for k in ("last", "eff", "assigned", "incdec", "sim")} for s in res.trace
                    ],
                }
            )
    return out


# ----------------------------------------------------------------------------------------
def random_history(rng, W, cn):
    n = rng.randint(4, 9)
    rows = W.offered[cn]
    # half of the calls come from a small pool so that repetitions and conflicts are frequent
    pool = [rng.choice(rows)["idx"] for _ in range(4)]
    return [rng.choice(pool) if rng.random() < 0.5 else rng.choice(rows)["idx"] for _ in range(n)]


def describe(table, idxs):
    return [{k: table[i - 1][k] for k in ("k", "fl", "v", "c", "s", "t")} for i in idxs]


def report(ctx, fails, byid, excnames, table):
    """Turn class S / O failures into violations (signature: clause|feature)."""
    for tid in sorted(fails):
        t = byid[tid]
        for cls, clause, step, feature in fails[tid]:
            if cls not in ("S", "O"):
                continue
            sig = "%s|%s" % (clause, feature)
            if clause == "exception-class" and feature != "probe" and step >= 1:
                sig = "%s|%s" % (clause, excnames[tid][step - 1])
            idxs = [o["i"] for o in t["ops"]]
            ctx.violation(
                sig,
                "%s history of %d calls: clause %s fails at call %d (%s)" % (t["c"], len(idxs), clause, step, feature),
                {
                    "c": t["c"],
                    "nt": t["nt"],
                    "ops": idxs,
                    "calls": describe(table, idxs),
                    "clause": clause,
                    "step": step,
                    "feature": feature,
                    "trace": t,
                },
            )


def run(ctx):
    q = ctx.quick
    # ---- T2: TLC-enumerated histories replayed on the real containers -------------------
    table, tabpath, hist = enumerate_histories(ctx, "GroupsQuick" if q else "GroupsThorough")
    W = World(table)
    # probes after every call, except in the largest groups of the thorough tier (after the last call)
    final_only = set() if q else {"core-L4"}
    todo = [(h["g"], h["c"], h["ops"], h["nt"], h["g"] not in final_only) for h in hist]
    nrand = 600 if q else 6000
    for i in range(nrand):
        cn = CONTAINERS[i % 3]
        todo.append(("random", cn, random_history(ctx.rng, W, cn), 2, True))
    traces, excnames, pergroup = [], {}, {}
    nontrivial = rejected_then_more = 0
    seen_init = set()
    jobs = []
    for g, cn, idxs, nt, every in todo:
        jobs.append((cn, idxs, nt, every, (cn, nt) not in seen_init))  # the fresh container is probed once
        seen_init.add((cn, nt))
    results = replay_all(ctx, W, jobs)
    for (g, cn, idxs, nt, every), (t, excs) in zip(todo, results):
        if t is None:
            continue
        t["id"] = len(traces)
        excnames[t["id"]] = excs
        traces.append(t)
        pergroup[g] = pergroup.get(g, 0) + 1
        rs = [o["r"] for o in t["ops"]]
        if any(rs):
            nontrivial += 1
            if any(rs[:-1]):
                rejected_then_more += 1
    ctx.cov["evaluations"] += len(todo)  # histories attempted on the real containers
    ctx.cov["traces_validated_against_impl"] += len(traces)
    for t in traces[len(traces) // 2 : len(traces) // 2 + 1] + traces[-1:]:
        ctx.sample({"container": t["c"], "calls": describe(table, [o["i"] for o in t["ops"]]), "raised": [o["r"] for o in t["ops"]]})
    # ---- T3: TLC judges; which Impl configuration does the code conform to? --------------
    def nonconforming(f):
        return sum(1 for bad in f.values() if any(b[0] == "I" for b in bad))

    fails = judge(ctx, "all", tabpath, traces, False) if traces else {}
    conforms = "as-written"
    if nonconforming(fails):
        fails_rep = judge(ctx, "all", tabpath, traces, True)
        if nonconforming(fails_rep) == 0:
            conforms, fails = "repaired", fails_rep
        else:
            conforms = "neither"
            if nonconforming(fails_rep) < nonconforming(fails):
                fails = fails_rep
    ctx.notes["impl_layer_conformance"] = conforms
    byid = {t["id"]: t for t in traces}
    report(ctx, fails, byid, excnames, table)
    if conforms == "neither":
        for tid in sorted(fails):
            for cls, clause, step, feature in fails[tid]:
                if cls == "I":
                    t = byid[tid]
                    idxs = [o["i"] for o in t["ops"]]
                    ctx.violation(
                        "impl-model|" + clause,
                        "the code's conflict bookkeeping matches neither the as-written nor the repaired Impl layer "
                        "(%s at call %d): the T1 results do not transfer to this code" % (clause, step),
                        {"c": t["c"], "nt": t["nt"], "ops": idxs, "calls": describe(table, idxs), "trace": t},
                    )
    # ---- T1: design check ----------------------------------------------------------------
    runs = [("FALSE", T1_ALL, "as-written"), ("FALSE", T1_ORDER, "as-written-order"), ("TRUE", T1_ALL, "repaired")]
    if q:
        cfgs = [
            dict(level=2, nt=1, maxops=3, runs=[runs[0], runs[2]]),
            dict(level=1, nt=2, maxops=3, runs=[runs[1]], cover="as-written-order"),
        ]
    else:
        cfgs = [
            dict(level=2, nt=1, maxops=4, runs=[runs[0], runs[2]]),
            dict(level=1, nt=1, maxops=4, runs=[runs[1]], cover="as-written-order"),
            dict(level=1, nt=2, maxops=3, runs=[runs[2]]),
        ]
    t1res = t1(ctx, cfgs)
    ctx.notes["t1"] = [{k: r[k] for k in ("label", "violated", "why")} for r in t1res]
    binding = {"as-written": ("as-written", "as-written-order"), "repaired": ("repaired",), "neither": ()}[conforms]
    for r in t1res:
        if r["name"] == "repaired" and r["violated"] and conforms != "repaired":
            raise MachineryError("the repaired configuration violates %s: the documented repair is wrong" % r["violated"])
        if r["violated"] and r["name"] in binding:
            ctx.violation(
                "T1|%s|%s" % (r["violated"], r["why"]),
                "the implementation-shaped layer (%s) violates %s (design-level counterexample, last call outcome %s)"
                % (r["name"], r["violated"], r["why"]),
                {"config": r["config"], "trace": r["trace"]},
            )
    # ---- evidence ------------------------------------------------------------------------
    ctx.cov["distinct_nontrivial"] = nontrivial
    ctx.cov["histories_continuing_after_a_rejection"] = rejected_then_more
    ctx.cov["traces_per_group"] = pergroup
    ctx.cov["histories_not_replayed"] = len(todo) - len(traces)  # non-terminating ones and those skipped after two of them
    ctx.cov["impl_layer_conformance"] = conforms
    ctx.cov["t1"] = ctx.notes["t1"]
    ctx.cov["rule"] = (
        "T1: exhaustive BFS of EffectConflicts within the stated constants (both Repaired settings). "
        "T2: every sequence of L calls over the group's sub-universe of the TLC-emitted table, per container, replayed "
        "on fresh objects (groups and trace counts in traces_per_group; full = 33 calls per time point, core = 14); "
        "T3: plus %d seeded random histories of 4-9 calls over two time points; every record judged against both layers. "
        "A history is counted non-trivial when at least one call was rejected." % nrand
    )
    ctx.cov["exhaustive"] = True
    ctx.assumptions += [
        "TLC and the CommunityModules Json reader are trusted",
        "abstract values: Int 1, Int 2, Real 1, h+1, 1+h; fluents: one integer, one real (with an object argument), one Boolean",
        "Problem probes are taken on a fresh problem with the same history replayed (Problem.clone is C22's subject)",
        "forall effects, continuous effects, Event/Process/SensingAction containers are not explored",
    ]


# ----------------------------------------------------------------------------------------
def selftest(ctx):
    """Binding demonstration: corrupt one recorded field per trace; the judge must reject each."""
    import copy

    table, tabpath, hist = enumerate_histories(ctx, "GroupsQuick")
    W = World(table)
    hist = [h for h in hist if h["g"] == "full-L2"]
    traces, expect = [], {}
    for n, h in enumerate(hist[:: max(1, len(hist) // 60)]):
        t, _ = limited_replay(W, h["c"], h["ops"], h["nt"], True, True)
        if t == "timeout":
            raise MachineryError("selftest history does not terminate")
        good = copy.deepcopy(t)
        good["id"] = 4 * n
        traces.append(good)
        a = copy.deepcopy(t)
        a["id"] = 4 * n + 1
        a["ops"][-1]["r"] = 1 - min(a["ops"][-1]["r"], 1)  # flip the raise verdict of the last call
        traces.append(a)
        expect[a["id"]] = "r"
        b = copy.deepcopy(t)
        b["id"] = 4 * n + 2
        b["ops"][-1]["pr"][0][1] = 1 - min(b["ops"][-1]["pr"][0][1], 1)  # flip one probe answer
        traces.append(b)
        expect[b["id"]] = "pr"
        c = copy.deepcopy(t)
        c["id"] = 4 * n + 3
        c["ops"][-1]["st"][0] = c["ops"][-1]["st"][0] + [1]  # one more stored effect than there is
        traces.append(c)
        expect[c["id"]] = "st"
    fails = judge(ctx, "self", tabpath, traces, False)
    missed = [i for i in expect if not any(b[0] in ("S", "O") for b in fails.get(i, []))]
    print("selftest: %d corrupted traces, %d rejected, %d missed" % (len(expect), len(expect) - len(missed), len(missed)))
    return 1 if missed else 0


def replay(ctx, data):
    """./check C24 --replay FILE : re-run one reported history and judge it again."""
    d = data["data"]
    if "ops" not in d:
        print("this replay file holds a design-level (T1) counterexample; see its 'trace'")
        return 0
    table, tabpath, _ = enumerate_histories(ctx, "GroupsNone")
    W = World(table)
    t, excs = limited_replay(W, d["c"], d["ops"], d["nt"], True, True)
    if t == "timeout":
        print("the history does not terminate")
        return 1
    t["id"] = 0
    for o, e in zip(t["ops"], excs):
        print(describe(table, [o["i"]])[0], "->", o["r"], e, "stored", o["st"], "sim", o["sm"])
    fails = judge(ctx, "replay", tabpath, [t], False)
    print("judge:", fails.get(0, "conforms"))
    return 1 if any(b[0] in ("S", "O") for b in fails.get(0, [])) else 0
