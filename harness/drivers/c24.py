"""C24 -- effect conflict detection is order-independent and exception-safe.

T1  spec/EffectConflicts.tla: the implementation-shaped layer (eff, assigned, incdec, sim, updated in
    the order in which check_conflicting_effects / check_conflicting_simulated_effects test, update
    and raise) against the declarative layer ConflictSpec (a collection conflicts iff some pair does),
    for every history of calls within the bounds.  Three configurations per bound:
      as-written (Repaired = FALSE), all invariants   -> TLC finds the exception-safety defect
      as-written, order-independence invariants only  -> runs to completion
      repaired (Repaired = TRUE), all invariants      -> runs to completion (with -coverage)
    Which configuration speaks for the code is decided by TLC too: the trace judge checks the recorded
    histories for conformance with the Impl layer under Repaired = FALSE, then (only if that fails)
    under Repaired = TRUE.
T2  TLC (EffectConflictsEnum) emits the table of calls and every history of length L over it, per
    container; each history is replayed on a fresh InstantaneousAction / DurativeAction / Problem through
    the public API only.  After every call: returned / UPConflictingEffectsException / other exception,
    the stored effects and simulated effect per time point (public getters), and the probe: every
    candidate call tried on a copy (clone() for the actions; for Problem a fresh problem with the
    same history replayed, because Problem.clone drops _fluents_inc_dec -- that is C22's finding).
T3  EffectConflictsTrace judges every recorded history (the enumerated ones and seeded random longer
    ones over two time points) step by step against both layers.

Python holds no oracle: it builds objects from the table TLC emitted, calls the API and projects what
the public getters return to indices of that table.
"""
import os
import warnings

from .. import tlc
from ..common import MachineryError, time_limit, ImplTimeout

T1_CFG = """SPECIFICATION Spec
CONSTANTS Level = %(level)d
 NT = %(nt)d
 MaxOps = %(maxops)d
 Repaired = %(rep)s
%(props)s"""
T1_ALL = (
    "INVARIANT VerdictOK\nINVARIANT StoredOK\nINVARIANT BookkeepingOK\nINVARIANT AcceptedConsistent\n"
    "INVARIANT OrderFree\nINVARIANT StoredEffectsOK\nPROPERTY RejectUnchanged\n"
)
T1_ORDER = "INVARIANT OrderFree\nINVARIANT StoredEffectsOK\nINVARIANT AcceptedConsistent\n"
T1_ACTIONS = (
    "Accept",
    "RejectSimEffects",
    "RejectAssignIncDec",
    "RejectAssignSim",
    "RejectAssignAssign",
    "RejectIncDecAssign",
    "RejectIncDecSim",
)

ENUM_CFG = """INIT EnumInit
NEXT EnumNext
CONSTANTS Level = %(level)d
 NT = %(nt)d
 MaxOps = 0
 Repaired = FALSE
 L = %(L)d
 CSet = {%(cset)s}
"""

TRACE_CFG = """SPECIFICATION TraceSpec
CONSTANTS Level = %(level)d
 NT = %(nt)d
 MaxOps = 1000000
 Repaired = %(rep)s
INVARIANT Verdict
"""

CONTAINERS = ("ia", "da", "pb")


# ----------------------------------------------------------------------------------------
# binding of the abstract table to unified_planning objects
# ----------------------------------------------------------------------------------------
class World:
    """Concrete fluents, values, conditions, timings and simulated effects for one table."""

    def __init__(self, table):
        from fractions import Fraction

        import unified_planning as up
        from unified_planning.shortcuts import (
            BoolType,
            EndTiming,
            FALSE,
            Fluent,
            FluentExp,
            GlobalStartTiming,
            Int,
            IntType,
            Object,
            Plus,
            Real,
            RealType,
            StartTiming,
            TRUE,
            UserType,
        )
        from unified_planning.exceptions import UPConflictingEffectsException
        from unified_planning.model.effect import SimulatedEffect

        self.up = up
        self.Conflict = UPConflictingEffectsException
        self.table = table
        self.nt = max(r["t"] for r in table)
        loc = UserType("C24Loc")
        self.obj = Object("c24_o", loc)
        self.fluents = {
            "f": Fluent("c24_f", IntType()),
            "g": Fluent("c24_g", RealType(), x=loc),
            "b": Fluent("c24_b", BoolType()),
            "h": Fluent("c24_h", IntType()),
            "cnd": Fluent("c24_cnd", BoolType()),
        }
        h = FluentExp(self.fluents["h"])
        self.fl = {
            "f": FluentExp(self.fluents["f"]),
            "g": FluentExp(self.fluents["g"], [self.obj]),
            "b": FluentExp(self.fluents["b"]),
        }
        num = {1: Int(1), 2: Int(2), 3: Real(Fraction(1)), 4: Plus(h, 1), 5: Plus(1, h)}
        self.val = {("f", v): num[v] for v in (1, 2, 4, 5)}
        self.val.update({("g", v): num[v] for v in (1, 2, 3, 4, 5)})
        self.val.update({("b", 1): TRUE(), ("b", 2): FALSE()})
        self.cond = {False: TRUE(), True: FluentExp(self.fluents["cnd"])}
        self.timing = {
            "da": {1: StartTiming(), 2: EndTiming()},
            "pb": {1: GlobalStartTiming(5), 2: GlobalStartTiming(10)},
        }

        def fun(problem, state, actual_params):
            return []

        self.sims = {}
        with warnings.catch_warnings():
            warnings.simplefilter("ignore")
            for r in table:
                if r["k"] == "sim" and r["s"] not in self.sims:
                    self.sims[r["s"]] = SimulatedEffect([self.fl[x] for x in r["sf"]], fun)
        # projection of stored effects back to table indices
        self.index = {(r["k"], r["fl"], r["v"], r["c"], r["t"]): r["idx"] for r in table if r["k"] != "sim"}
        self.kindname = {"assign": "ASSIGN", "inc": "INCREASE", "dec": "DECREASE"}
        self.rev = {}
        for r in table:
            if r["k"] != "sim":
                key = (self.kindname[r["k"]], self.fl[r["fl"]], self.val[(r["fl"], r["v"])], self.cond[r["c"]])
                self.rev[key] = (r["k"], r["fl"], r["v"], r["c"])
        self.offered = {cn: [r for r in table if r[cn]] for cn in CONTAINERS}
        self.probes = {cn: [r for r in table if r[cn] and r["probe"]] for cn in CONTAINERS}

    def new(self, cn):
        m = self.up.model
        if cn == "ia":
            return m.InstantaneousAction("c24_a")
        if cn == "da":
            return m.DurativeAction("c24_d")
        p = m.Problem("c24_p")
        for k in ("f", "g", "b", "h", "cnd"):
            p.add_fluent(self.fluents[k])
        p.add_object(self.obj)
        return p

    def call(self, cn, obj, r):
        """Perform the public call of table row r; returns (code, exception class name)."""
        try:
            if r["k"] == "sim":
                if cn == "ia":
                    obj.set_simulated_effect(self.sims[r["s"]])
                else:
                    obj.set_simulated_effect(self.timing[cn][r["t"]], self.sims[r["s"]])
            else:
                fl, val, cond = self.fl[r["fl"]], self.val[(r["fl"], r["v"])], self.cond[r["c"]]
                if r["k"] == "assign":
                    name = "add_timed_effect" if cn == "pb" else "add_effect"
                else:
                    name = "add_increase_effect" if r["k"] == "inc" else "add_decrease_effect"
                if cn == "ia":
                    getattr(obj, name)(fl, val, cond)
                else:
                    getattr(obj, name)(self.timing[cn][r["t"]], fl, val, cond)
            return 0, ""
        except self.Conflict:
            return 1, "UPConflictingEffectsException"
        except Exception as ex:  # an observation, not a crash
            return 2, type(ex).__name__

    def _idx(self, e, t):
        key = (e.kind.name, e.fluent, e.value, e.condition)
        a = self.rev.get(key)
        if a is None or e.forall:
            return 0
        return self.index.get(a + (t,), 0)

    def _simid(self, se):
        if se is None:
            return 0
        for s, o in self.sims.items():
            if o is se:
                return s
        return 99

    def observe(self, cn, obj):
        """Stored effects / simulated effect per time point, through the public getters."""
        st = [[] for _ in range(self.nt)]
        sm = [0] * self.nt
        if cn == "ia":
            st[0] = [self._idx(e, 1) for e in obj.effects]
            sm[0] = self._simid(obj.simulated_effect)
            return st, sm
        effs = obj.effects if cn == "da" else obj.timed_effects
        known = {}
        for t in range(1, self.nt + 1):
            known[self.timing[cn][t]] = t
        for tm, lst in effs.items():
            t = known.get(tm)
            if t is None:
                st[0] += [0] * len(lst)  # effects stored under a time point nobody used
            else:
                st[t - 1] = [self._idx(e, t) for e in lst]
        if cn == "da":
            for tm, se in obj.simulated_effects.items():
                t = known.get(tm)
                if t is None:
                    sm[0] = 99
                else:
                    sm[t - 1] = self._simid(se)
        return st, sm

    def probe(self, cn, obj, done):
        """Try every candidate call on a copy of the container; `done` = rows called so far."""
        out = []
        for r in self.probes[cn]:
            if cn == "pb":
                c = self.new(cn)
                for d in done:
                    self.call(cn, c, d)
            else:
                c = obj.clone()
            out.append([r["idx"], self.call(cn, c, r)[0]])
        return out

    def replay(self, cn, idxs, probe_every):
        obj = self.new(cn)
        st, sm = self.observe(cn, obj)
        init = {"st": st, "sm": sm, "pr": self.probe(cn, obj, [])}
        ops, done, excs = [], [], []
        for n, i in enumerate(idxs):
            r = self.table[i - 1]
            code, exc = self.call(cn, obj, r)
            done.append(r)
            st, sm = self.observe(cn, obj)
            pr = self.probe(cn, obj, done) if (probe_every or n == len(idxs) - 1) else []
            ops.append({"i": i, "r": code, "st": st, "sm": sm, "pr": pr})
            excs.append(exc)
        return {"c": cn, "init": init, "ops": ops}, excs


def guarded_replay(ctx, W, cn, idxs, probe_every, meta):
    """One history under a time limit; a history that does not come back is a violation."""
    try:
        with time_limit(10):
            return W.replay(cn, idxs, probe_every)
    except ImplTimeout:
        ctx.violation(
            "impl-nonterminating", "an effect-insertion history does not terminate within 10 s", dict(meta, c=cn, ops=idxs)
        )
    return None, None


# ----------------------------------------------------------------------------------------
# TLC runs
# ----------------------------------------------------------------------------------------
def enumerate_histories(ctx, label, level, nt, L, cset):
    d = ctx.sub("enum-" + label)
    out, tab = os.path.join(d, "hist.ndjson"), os.path.join(d, "table.ndjson")
    cfg = ENUM_CFG % {"level": level, "nt": nt, "L": L, "cset": ", ".join('"%s"' % c for c in cset)}
    res = tlc.run_tlc("EffectConflictsEnum", cfg, d, env={"OUT": out, "TABLE": tab}, workers=1, timeout=3000)
    if res.error or res.violated:
        raise MachineryError("EffectConflictsEnum failed: %s %s" % (res.violated, res.error))
    table = tlc.read_ndjson(tab)
    hist = tlc.read_ndjson(out)
    emitted = [p for p in res.printed if p and p[0] == "EMITTED"]
    if not emitted or emitted[0][1] != len(table) or emitted[0][2] != len(hist):
        raise MachineryError("enumeration incomplete: %r vs %d rows, %d histories" % (emitted, len(table), len(hist)))
    for i, r in enumerate(table):
        if r["idx"] != i + 1:
            raise MachineryError("table rows out of order")
    return table, tab, hist


def judge(ctx, label, level, nt, tabpath, traces, repaired):
    """Returns {trace id: [[class, clause, step, feature], ...]} for the failing traces."""
    d = ctx.sub("judge-%s-%s" % (label, "rep" if repaired else "asis"))
    path = os.path.join(d, "traces.ndjson")
    tlc.write_ndjson(path, traces)
    cfg = TRACE_CFG % {"level": level, "nt": nt, "rep": "TRUE" if repaired else "FALSE"}
    res = tlc.run_tlc("EffectConflictsTrace", cfg, d, env={"TRACES": path, "TABLE": tabpath}, timeout=3000)
    if res.error or res.violated:
        raise MachineryError("EffectConflictsTrace failed: %s %s" % (res.violated, res.error))
    expected = sum(len(t["ops"]) + 1 for t in traces)
    if res.distinct != expected:
        raise MachineryError("trace judge consumed %d states, expected %d" % (res.distinct, expected))
    ctx.add_tlc("trace-%s Repaired=%s" % (label, repaired), res)
    fails = {}
    for p in res.printed:
        if p and p[0] == "FAIL":
            fails[p[1]] = p[2]
    for tid, bad in fails.items():
        for b in bad:
            if b[0] == "M":
                raise MachineryError("malformed record in trace %r: %r" % (tid, b))
    return fails


def t1(ctx, cfgs):
    """Design-level checks; returns a list of result records (verdicts are routed by run())."""
    out = []
    d = ctx.sub("t1")
    for c in cfgs:
        for rep, props, name in c["runs"]:
            cover = name == "repaired"
            res = tlc.run_tlc(
                "MCEffectConflicts",
                T1_CFG % {"level": c["level"], "nt": c["nt"], "maxops": c["maxops"], "rep": rep, "props": props},
                d,
                workers=1 if name == "as-written" else 16,  # deterministic counterexample
                coverage=cover,
                timeout=3000,
            )
            if res.error:
                raise MachineryError(res.error)
            label = "T1 %s Level=%d NT=%d MaxOps=%d" % (name, c["level"], c["nt"], c["maxops"])
            ctx.add_tlc(label, res)
            if cover and not res.violated:
                missing = [a for a in T1_ACTIONS if res.coverage.get(a, (0, 0))[1] == 0]
                if missing:
                    raise MachineryError("vacuous T1 run, actions never taken: %s" % missing)
            why = ""
            if res.violated and res.trace:
                why = res.trace[-1]["vars"].get("last", {}).get("why", "")
            out.append(
                {
                    "name": name,
                    "label": label,
                    "config": {k: c[k] for k in ("level", "nt", "maxops")},
                    "violated": res.violated,
                    "why": why,
                    "trace": [
                        {k: s["vars"].get(k) for k in ("last", "eff", "assigned", "incdec", "sim")} for s in res.trace
                    ],
                }
            )
    return out


# ----------------------------------------------------------------------------------------
def random_history(rng, W, cn):
    n = rng.randint(4, 9)
    rows = W.offered[cn]
    # a few calls drawn from a small pool so that repetitions and conflicts are frequent, the rest uniform
    pool = [rng.choice(rows)["idx"] for _ in range(4)]
    return [rng.choice(pool) if rng.random() < 0.5 else rng.choice(rows)["idx"] for _ in range(n)]


def report(ctx, fails, byid, excnames, groupmeta):
    """Turn class S / O failures into violations (signature: clause|feature)."""
    for tid in sorted(fails):
        t = byid[tid]
        for cls, clause, step, feature in fails[tid]:
            if cls not in ("S", "O"):
                continue
            sig = "%s|%s" % (clause, feature)
            if clause == "exception-class" and step >= 1:
                sig = "%s|%s" % (clause, excnames[tid][step - 1])
            calls = [groupmeta["table"][o["i"] - 1] for o in t["ops"]]
            ctx.violation(
                sig,
                "%s history of %d calls: clause %s fails at call %d (%s)" % (t["c"], len(t["ops"]), clause, step, feature),
                {
                    "level": groupmeta["level"],
                    "nt": groupmeta["nt"],
                    "c": t["c"],
                    "ops": [o["i"] for o in t["ops"]],
                    "calls": [{k: r[k] for k in ("k", "fl", "v", "c", "s", "t")} for r in calls],
                    "clause": clause,
                    "step": step,
                    "feature": feature,
                    "trace": t,
                },
            )


def run(ctx):
    q = ctx.quick
    # ---- T2: TLC-enumerated histories replayed on the real containers -------------------
    if q:
        groups = [
            dict(label="full-L2", level=2, nt=1, L=2, cset=CONTAINERS, every=True, random=0),
            dict(label="core-L3", level=1, nt=1, L=3, cset=CONTAINERS, every=True, random=0),
            dict(label="full-2tp-L2", level=2, nt=2, L=2, cset=("da", "pb"), every=True, random=1500),
        ]
    else:
        groups = [
            dict(label="full-L3", level=2, nt=1, L=3, cset=CONTAINERS, every=True, random=0),
            dict(label="core-L4", level=1, nt=1, L=4, cset=CONTAINERS, every=False, random=0),
            dict(label="full-2tp-L2", level=2, nt=2, L=2, cset=("da", "pb"), every=True, random=20000),
            dict(label="core-2tp-L3", level=1, nt=2, L=3, cset=("da", "pb"), every=True, random=0),
        ]
    nid = 0
    nontrivial = 0
    rejected_then_more = 0
    for g in groups:
        table, tabpath, hist = enumerate_histories(ctx, g["label"], g["level"], g["nt"], g["L"], g["cset"])
        W = World(table)
        g["table"], g["tabpath"] = table, tabpath
        traces, excnames = [], {}
        todo = [(h["c"], h["ops"], g["every"]) for h in hist]
        for i in range(g["random"]):
            cn = CONTAINERS[i % 3]
            todo.append((cn, random_history(ctx.rng, W, cn), True))
        for cn, idxs, every in todo:
            t, excs = guarded_replay(ctx, W, cn, idxs, every, {"level": g["level"], "nt": g["nt"]})
            if t is None:
                continue
            t["id"] = nid
            excnames[nid] = excs
            nid += 1
            traces.append(t)
            rs = [o["r"] for o in t["ops"]]
            if any(rs):
                nontrivial += 1
                if any(rs[:-1]):
                    rejected_then_more += 1
        g["traces"], g["excnames"] = traces, excnames
        ctx.cov["evaluations"] += len(traces)
        ctx.cov["traces_validated_against_impl"] += len(traces)
        if traces:
            mid = traces[len(traces) // 2]
            ctx.sample(
                {
                    "kind": "history %s on %s" % (g["label"], mid["c"]),
                    "calls": [{k: table[o["i"] - 1][k] for k in ("k", "fl", "v", "c", "s", "t")} for o in mid["ops"]],
                    "raised": [o["r"] for o in mid["ops"]],
                }
            )
    # ---- T3: TLC judges; which Impl configuration does the code conform to? --------------
    fails_asis = {g["label"]: judge(ctx, g["label"], g["level"], g["nt"], g["tabpath"], g["traces"], False) for g in groups}
    nonconf_asis = sum(1 for f in fails_asis.values() for bad in f.values() if any(b[0] == "I" for b in bad))
    conforms = "as-written"
    fails = fails_asis
    if nonconf_asis:
        fails_rep = {g["label"]: judge(ctx, g["label"], g["level"], g["nt"], g["tabpath"], g["traces"], True) for g in groups}
        nonconf_rep = sum(1 for f in fails_rep.values() for bad in f.values() if any(b[0] == "I" for b in bad))
        if nonconf_rep == 0:
            conforms, fails = "repaired", fails_rep
        else:
            conforms = "neither"
            if nonconf_rep < nonconf_asis:
                fails = fails_rep
    ctx.notes["impl_layer_conformance"] = conforms
    for g in groups:
        byid = {t["id"]: t for t in g["traces"]}
        report(ctx, fails[g["label"]], byid, g["excnames"], g)
        if conforms == "neither":
            for tid in sorted(fails[g["label"]]):
                for cls, clause, step, feature in fails[g["label"]][tid]:
                    if cls == "I":
                        t = byid[tid]
                        ctx.violation(
                            "impl-model|" + clause,
                            "the code's conflict bookkeeping matches neither the as-written nor the repaired Impl layer "
                            "(%s at call %d): the T1 results do not transfer to this code" % (clause, step),
                            {"level": g["level"], "nt": g["nt"], "c": t["c"], "ops": [o["i"] for o in t["ops"]], "trace": t},
                        )
    # ---- T1: design check ----------------------------------------------------------------
    runs = [("FALSE", T1_ALL, "as-written"), ("FALSE", T1_ORDER, "as-written-order"), ("TRUE", T1_ALL, "repaired")]
    if q:
        cfgs = [
            dict(level=2, nt=1, maxops=3, runs=runs),
            dict(level=1, nt=2, maxops=3, runs=runs[1:]),
        ]
    else:
        cfgs = [
            dict(level=2, nt=1, maxops=4, runs=runs),
            dict(level=1, nt=1, maxops=5, runs=runs[1:]),
            dict(level=1, nt=2, maxops=4, runs=runs[1:]),
        ]
    t1res = t1(ctx, cfgs)
    ctx.notes["t1"] = [{k: r[k] for k in ("label", "violated", "why")} for r in t1res]
    binding = {"as-written": ("as-written", "as-written-order"), "repaired": ("repaired",), "neither": ()}[conforms]
    for r in t1res:
        if r["name"] == "repaired" and r["violated"] and conforms != "repaired":
            raise MachineryError("the repaired configuration violates %s: the documented repair is wrong" % r["violated"])
        if r["violated"] and r["name"] in binding:
            ctx.violation(
                "T1|%s|%s" % (r["violated"], r["why"]),
                "the implementation-shaped layer (%s) violates %s (design-level counterexample, last call outcome %s)"
                % (r["name"], r["violated"], r["why"]),
                {"config": r["config"], "trace": r["trace"]},
            )
    # ---- evidence ------------------------------------------------------------------------
    ctx.cov["distinct_nontrivial"] = nontrivial
    ctx.cov["histories_continuing_after_a_rejection"] = rejected_then_more
    ctx.cov["rule"] = (
        "T1: exhaustive BFS of EffectConflicts within the stated constants (both Repaired settings). "
        "T2: every sequence of L calls over the TLC-emitted table (%s), per container, replayed on fresh objects; "
        "T3: plus seeded random histories of 4-9 calls over two time points; every record judged against both layers. "
        "A history is counted non-trivial when at least one call was rejected."
        % "; ".join("%s: Level %d, %d time point(s), L=%d, %d traces" % (g["label"], g["level"], g["nt"], g["L"], len(g["traces"])) for g in groups)
    )
    ctx.cov["exhaustive"] = True
    ctx.assumptions += [
        "TLC and the CommunityModules Json reader are trusted",
        "abstract values: Int 1, Int 2, Real 1, h+1, 1+h; fluents: one integer, one real (with an object argument), one Boolean",
        "Problem probes are taken on a fresh problem with the same history replayed (Problem.clone is C22's subject)",
        "forall effects, continuous effects, Event/Process/SensingAction containers are not explored",
    ]


# ----------------------------------------------------------------------------------------
def selftest(ctx):
    """Binding demonstration: corrupt one recorded field per trace; the judge must reject each."""
    table, tabpath, hist = enumerate_histories(ctx, "self", 1, 1, 2, CONTAINERS)
    W = World(table)
    base = []
    for h in hist[:: max(1, len(hist) // 60)]:
        t, _ = W.replay(h["c"], h["ops"], True)
        base.append(t)
    import copy

    traces, expect = [], {}
    for n, t in enumerate(base):
        good = copy.deepcopy(t)
        good["id"] = 3 * n
        traces.append(good)
        a = copy.deepcopy(t)
        a["id"] = 3 * n + 1
        a["ops"][-1]["r"] = 1 - min(a["ops"][-1]["r"], 1)  # flip the raise verdict of the last call
        traces.append(a)
        expect[a["id"]] = "r"
        b = copy.deepcopy(t)
        b["id"] = 3 * n + 2
        b["ops"][-1]["pr"][0][1] = 1 - min(b["ops"][-1]["pr"][0][1], 1)  # flip one probe answer
        traces.append(b)
        expect[b["id"]] = "pr"
    fails = judge(ctx, "self", 1, 1, tabpath, traces, False)
    missed = [i for i in expect if not any(b[0] in ("S", "O") for b in fails.get(i, []))]
    print("selftest: %d corrupted traces, %d rejected, %d missed" % (len(expect), len(expect) - len(missed), len(missed)))
    return 1 if missed else 0


def replay(ctx, data):
    """./check C24 --replay FILE : re-run one reported history and judge it again."""
    d = data["data"]
    if "ops" not in d:
        print("this replay file holds a design-level (T1) counterexample; see its 'trace'")
        return 0
    table, tabpath, _ = enumerate_histories(ctx, "replay", d["level"], d["nt"], 0, ())
    W = World(table)
    t, excs = W.replay(d["c"], d["ops"], True)
    t["id"] = 0
    for o, e in zip(t["ops"], excs):
        print(table[o["i"] - 1], "->", o["r"], e, "stored", o["st"], "sim", o["sm"])
    fails = judge(ctx, "replay", d["level"], d["nt"], tabpath, [t], False)
    print("judge:", fails.get(0, "conforms"))
    return 1 if any(b[0] in ("S", "O") for b in fails.get(0, [])) else 0
