"""C38 -- Writer renamings are valid, injective and invertible.

T1  spec/RenamerImpl.tla models the naming mechanisms as written in the pinned tree (PDDL: _get_pddl_name /
    _get_mangled_name with the module-level keyword set as a variable; ANML: the pre-pass and
    _get_anml_name) over a universe of adversarial names and the REAL keyword sets; TLC checks that the
    repaired design (per-writer keyword copy, anchored ANML regex) satisfies every clause of
    Renamer!Failures, and looks for counterexamples of the as-written design (recorded in the evidence;
    the verdict on the real code comes from T2/T3).
T2  TLC (RenamerEnum) emits every problem skeleton of the universes; each is built as a real problem and
    written by PDDLWriter / ANMLWriter on first use, and by PDDLWriter after a writer for a temporal problem
    with a trajectory constraint.  One universe is about user types and PDDL's root type `object` (case
    variants and mangled forms of `object` as the only type, next to a second type, in a type hierarchy).
T3  Seeded G2 problems (harness/gen.py, classical / temporal / trajectory constraints / metrics) whose
    identifiers are replaced through a seeded substitution by adversarial ones (case variants, keywords of
    both languages, symbols, unicode, leading digits, mangled forms, empty-ish names), written on first use
    and after another problem (2-step histories).
First use = freshly reloaded writer modules; a sample is also run in new processes and compared.
Every recorded naming (look-ups item -> name -> item, names harvested from the emitted text) is judged by
TLC (RenamerJudge: Renamer's own actions and clauses).  Python builds, calls, tokenizes and projects; it
decides nothing.  ./check C38 --selftest corrupts recorded fields; --replay FILE reruns a recorded input.
"""
import copy
import json
import os
import re

from .. import tlc
from ..common import MachineryError, time_limit, ImplTimeout

NWORK = 6  # worker processes (a history costs 2-20 ms; forking and copy-on-write cost more than they save beyond a few workers)
BATCH = 25000  # traces per judge run
LIMIT = 30  # seconds per library call; a time-out is retried once in a new process with 10 x LIMIT


def cp(s):
    return [ord(c) for c in s]


def uncp(a):
    return "".join(chr(c) for c in a)


# ----------------------------------------------------------------------------------------
# first use: every history starts from the writer modules' initial state.  mode "fresh": a new process
# (forked from one in which no writer was ever constructed); mode "reload": importlib.reload of the two
# writer modules in a long-lived worker (much cheaper).  A sample of problems is run in both modes and
# TLC compares the names (HistoryIndependent), so "reload = fresh process" is itself checked.
# ----------------------------------------------------------------------------------------
def _fresh(fn, arg):
    r, w = os.pipe()
    pid = os.fork()
    if pid == 0:
        try:
            os.close(r)
            try:
                out = fn(arg)
            except BaseException as ex:  # noqa
                out = {"crash": "%s: %s" % (type(ex).__name__, str(ex)[:500])}
            with os.fdopen(w, "wb") as fh:
                fh.write(json.dumps(out).encode())
        finally:
            os._exit(0)
    os.close(w)
    with os.fdopen(r, "rb") as fh:
        data = fh.read()
    os.waitpid(pid, 0)
    if not data:
        return {"crash": "no output from the child process"}
    return json.loads(data)


_ABORT = None  # shared by the pool workers: number of time-outs so far (a looping implementation must not
MAXLATE = 40   # cost LIMIT seconds for every one of thousands of histories)


def _late(r):
    return "ops" in r and any(o["status"] == "timeout" for o in r["ops"])


def _guarded(fn, task):
    if _ABORT is not None and _ABORT.value >= MAXLATE:
        return {"skipped": True}
    r = fn(task)
    if _ABORT is not None and _late(r):
        with _ABORT.get_lock():
            _ABORT.value += 1
    return r


def _task(task):
    if task["kind"] == "kw":
        return _fresh(_read_keywords, None)
    return _guarded(lambda t: _fresh(_history, t), task)


def _chunk(tasks):
    out = []
    for t in tasks:
        try:
            out.append(_guarded(lambda x: _history(x, reload=True), t))
        except BaseException as ex:  # noqa
            out.append({"crash": "%s: %s" % (type(ex).__name__, str(ex)[:500])})
    return out


def _read_keywords(_):
    import unified_planning.io.pddl_writer as pw
    import unified_planning.io.anml_writer as aw

    return {
        "general": [cp(x) for x in sorted(pw.GENERAL_PDDL_KEYWORDS)],
        "temporal": [cp(x) for x in sorted(pw.TEMPORAL_PDDL_KEYWORDS)],
        "pddl3": [cp(x) for x in sorted(pw.PDDL3_KEYWORDS)],
        "plus": [cp(x) for x in sorted(pw.PDDL_PLUS_KEYWORDS)],
        "contingent": [cp(x) for x in sorted(pw.CONTINGENT_PDDL_KEYWORDS)],
        "anml": [cp(x) for x in sorted(aw.ANML_KEYWORDS)],
    }


def _warm():
    """import everything the children need BEFORE forking (no writer is constructed here)"""
    import unified_planning as up
    import unified_planning.shortcuts  # noqa
    import unified_planning.io  # noqa
    import unified_planning.io.pddl_writer  # noqa
    import unified_planning.io.anml_writer  # noqa
    from .. import upj, gen  # noqa

    up.environment.get_environment()
    _module_code(unified_planning.io.pddl_writer)
    _module_code(unified_planning.io.anml_writer)


def run_tasks(tasks):
    """results in task order.  The parent process never constructs a writer."""
    import multiprocessing as mp

    global _ABORT
    if not tasks:
        return []
    _warm()
    # the children are forked: keep the collector from touching (= copying, page by page) everything the parent has
    # allocated so far.  Measured on 3 000 small histories: 121 CPU-s with 14 workers, 11 CPU-s with 4 + freeze.
    import gc

    gc.collect()
    gc.freeze()
    ctxm = mp.get_context("fork")
    _ABORT = ctxm.Value("i", 0)
    res = [None] * len(tasks)
    fr = [i for i, t in enumerate(tasks) if t["kind"] == "kw" or t.get("mode") == "fresh"]
    rl = [i for i, t in enumerate(tasks) if not (t["kind"] == "kw" or t.get("mode") == "fresh")]
    if fr:
        with ctxm.Pool(NWORK) as pool:
            for i, r in zip(fr, pool.map(_task, [tasks[i] for i in fr], chunksize=4)):
                res[i] = r
    if rl:
        size = max(1, min(64, len(rl) // (NWORK * 4) + 1))
        chunks = [rl[k:k + size] for k in range(0, len(rl), size)]
        with ctxm.Pool(NWORK) as pool:
            for idx, rs in zip(chunks, pool.map(_chunk, [[tasks[i] for i in c] for c in chunks], chunksize=1)):
                for i, r in zip(idx, rs):
                    res[i] = r
    # A time-out on a busy machine is not a verdict.  The first few are retried in new processes with a much
    # longer limit: if one of them still does not return, that is reported (and the rest is left aside);
    # if they all return, the machine was busy and everything left over is run again with the long limit.
    _ABORT = None
    late = [i for i, r in enumerate(res) if _late(r)]
    rest = [i for i, r in enumerate(res) if r.get("skipped")]
    if late or rest:
        def again(idx):
            redo = []
            for i in idx:
                t = dict(tasks[i])
                t["limit"] = 10 * LIMIT
                redo.append(t)
            with ctxm.Pool(NWORK) as pool:
                for i, r in zip(idx, pool.map(_task, redo, chunksize=1)):
                    res[i] = r

        again(late[:NWORK])
        if any(_late(res[i]) for i in late[:NWORK]):
            for i in late[NWORK:]:
                res[i] = {"skipped": True}
        else:
            again(late[NWORK:] + rest)
    gc.unfreeze()
    return res


# ----------------------------------------------------------------------------------------
# child side: build, write, look up, harvest (projection only)
# ----------------------------------------------------------------------------------------
def _feats(problem):
    from unified_planning.model import DurativeAction

    f = []
    if any(isinstance(a, DurativeAction) for a in problem.actions):
        f.append("temporal")
    if len(problem.trajectory_constraints) > 0:
        f.append("traj")
    return f


def _qvars_of_expr(e, acc):
    stack = [e]
    while stack:
        x = stack.pop()
        if x.is_forall() or x.is_exists():
            for v in x.variables():
                acc.append(v)
        stack.extend(x.args)


def _qvars_of_effect(ef, acc):
    for v in ef.forall:
        acc.append(v)
    _qvars_of_expr(ef.condition, acc)
    _qvars_of_expr(ef.value, acc)
    _qvars_of_expr(ef.fluent, acc)


def _qvars_of_action(a):
    from unified_planning.model import DurativeAction

    acc = []
    if isinstance(a, DurativeAction):
        for cl in a.conditions.values():
            for c in cl:
                _qvars_of_expr(c, acc)
        for el in a.effects.values():
            for e in el:
                _qvars_of_effect(e, acc)
    else:
        for c in a.preconditions:
            _qvars_of_expr(c, acc)
        for e in a.effects:
            _qvars_of_effect(e, acc)
    return acc


def _qvars_top(problem):
    acc = []
    for g in problem.goals:
        _qvars_of_expr(g, acc)
    for c in problem.trajectory_constraints:
        _qvars_of_expr(c, acc)
    for gl in problem.timed_goals.values():
        for g in gl:
            _qvars_of_expr(g, acc)
    for el in problem.timed_effects.values():
        for e in el:
            _qvars_of_effect(e, acc)
    return acc


class _Items:
    """model elements in a fixed order, identified up to the library's own equality"""

    def __init__(self):
        self.index = {}
        self.items = []

    def add(self, kind, obj, name):
        key = (kind, obj)
        if key not in self.index:
            self.items.append({"kind": kind, "orig": cp(name), "named": False, "name": [], "back": 0, "fresh": []})
            self.index[key] = len(self.items)
        return self.index[key]

    def find(self, obj):
        for kind in ("type", "object", "fluent", "action", "param", "qvar"):
            i = self.index.get((kind, obj))
            if i is not None:
                return i
        return 0


def _sec(sec, items):
    """a namespace; what the section names mean is stated in spec/Renamer.tla (SecVar, SecMulti, SecFree, SecMust)"""
    return {"sec": sec, "items": items}


def _collect(problem):
    """items and namespaces of a problem: types, objects, fluents (predicates and functions), actions,
    the signature of every fluent, the parameters of every action, parameters + quantified variables of
    every action (one scope), quantified variables of the problem-level conditions"""
    it = _Items()
    spaces = []
    spaces.append(_sec("types", [it.add("type", t, t.name) for t in problem.user_types]))
    spaces.append(_sec("objects", [it.add("object", o, o.name) for o in problem.all_objects]))
    spaces.append(_sec("fluents", [it.add("fluent", f, f.name) for f in problem.fluents]))
    # (an action whose preconditions are trivially false is omitted by the PDDL writer: may stay unnamed)
    spaces.append(_sec("actions", [it.add("action", a, a.name) for a in problem.actions]))
    for f in problem.fluents:
        spaces.append(_sec("signature", [it.add("param", p, p.name) for p in f.signature]))
    for a in problem.actions:
        ps = [it.add("param", p, p.name) for p in a.parameters]
        spaces.append(_sec("parameters", ps))
        qs = [it.add("qvar", v, v.name) for v in _qvars_of_action(a)]
        spaces.append(_sec("scope", sorted(set(ps + qs))))
    qs = [it.add("qvar", v, v.name) for v in _qvars_top(problem)]
    spaces.append(_sec("top", sorted(set(qs))))
    spaces.append(_sec("files", []))
    return it, spaces


# ---- PDDL text: s-expressions -----------------------------------------------------------
def _sexpr(text):
    toks = re.findall(r"\(|\)|[^\s()]+", text)
    pos = 0

    def rd():
        nonlocal pos
        out = []
        while pos < len(toks):
            t = toks[pos]
            pos += 1
            if t == "(":
                out.append(rd())
            elif t == ")":
                return out
            else:
                out.append(t)
        return out

    return rd()


def _typed_decl(lst):
    """declared names of a typed list  a b - t c - u  (the names after '-' are references)"""
    out = []
    skip = False
    for x in lst:
        if skip:
            skip = False
            continue
        if x == "-":
            skip = True
        elif isinstance(x, str):
            out.append(x)
    return out


def _quant_decls(tree, acc):
    if isinstance(tree, list):
        if len(tree) >= 2 and tree[0] in ("forall", "exists") and isinstance(tree[1], list):
            acc.extend(_typed_decl(tree[1]))
        for x in tree:
            _quant_decls(x, acc)


def _uniq(xs):
    out = []
    for x in xs:
        if x not in out:
            out.append(x)
    return out


def harvest_pddl(dom, prob, problem):
    """names declared in the emitted text, one list per namespace of _collect (same order)"""
    d = _sexpr(dom)
    p = _sexpr(prob)
    if len(d) != 1 or len(p) != 1 or not d[0] or d[0][0] != "define" or p[0][0] != "define":
        return None
    d, p = d[0], p[0]
    sect = {"types": [], "objects": [], "fluents": [], "actions": [], "files": []}
    sigs, acts = [], []
    for x in d[1:]:
        if not isinstance(x, list) or not x:
            return None
        h = x[0]
        if h == "domain":
            sect["files"] += [y for y in x[1:] if isinstance(y, str)]
        elif h == ":types":
            sect["types"] += _typed_decl(x[1:])
        elif h == ":constants":
            sect["objects"] += _typed_decl(x[1:])
        elif h in (":predicates", ":functions"):
            for f in x[1:]:
                if isinstance(f, list) and f and isinstance(f[0], str):
                    sect["fluents"].append(f[0])
                    sigs.append((f[0], _typed_decl(f[1:])))
        elif h in (":action", ":durative-action", ":process", ":event"):
            name = x[1] if len(x) > 1 and isinstance(x[1], str) else ""
            sect["actions"].append(name)
            params = []
            for i, y in enumerate(x):
                if y == ":parameters" and i + 1 < len(x) and isinstance(x[i + 1], list):
                    params = _typed_decl(x[i + 1])
            qd = []
            _quant_decls(x[2:], qd)
            acts.append((name, params, qd))
    top = []
    for x in p[1:]:
        if not isinstance(x, list) or not x:
            return None
        if x[0] == "problem":
            sect["files"] += [y for y in x[1:] if isinstance(y, str)]
        elif x[0] == ":objects":
            sect["objects"] += _typed_decl(x[1:])
        elif x[0] in (":goal", ":constraints", ":init"):
            _quant_decls(x, top)
    if len(problem.fluents) > len(sigs):
        return None
    return {"sect": sect, "sigs": sigs, "acts": acts, "top": _uniq(top)}


def align_pddl(h, problem, spaces, owner_of):
    """harvested names per namespace of _collect (same order).  Signatures are paired by declaration order
    (predicates first, then functions); an action block is paired with the action its name looks up to
    (the writer omits actions whose preconditions are trivially false)"""
    sect = h["sect"]
    text = [sect["types"], sect["objects"], sect["fluents"], sect["actions"]]
    bools = [f for f in problem.fluents if f.type.is_bool_type()]
    nums = [f for f in problem.fluents if not f.type.is_bool_type()]
    order = {f: k for k, f in enumerate(bools + nums)}
    for f in problem.fluents:
        text.append(h["sigs"][order[f]][1])
    blocks = {}
    for name, params, qd in h["acts"]:
        a = owner_of(name)
        if a is None or a in blocks:
            return None
        blocks[a] = (params, qd)
    for a in problem.actions:
        params, qd = blocks.pop(a, ([], []))
        text.append(params)
        text.append(_uniq(params + qd))
    if blocks:
        return None
    text.append(h["top"])
    text.append(sect["files"])
    return text


def observe_pddl(problem, limit):
    import unified_planning.io.pddl_writer as pw
    from unified_planning.exceptions import UPException

    with time_limit(limit):
        w = pw.PDDLWriter(problem)
        dom = w.get_domain()
        prob = w.get_problem()
    it, spaces = _collect(problem)
    for (kind, obj), i in it.index.items():
        rec = it.items[i - 1]
        try:
            with time_limit(5):
                n = w.get_pddl_name(obj)
        except UPException:
            continue
        if not isinstance(n, str):
            continue
        rec["named"] = True
        rec["name"] = cp(n)
        try:
            with time_limit(5):
                back = w.get_item_named(n)
            rec["back"] = it.find(back)
        except UPException:
            rec["back"] = 0
    def owner_of(name):
        try:
            with time_limit(5):
                a = w.get_item_named(name)
        except UPException:
            return None
        return a if ("action", a) in it.index else None

    h = harvest_pddl(dom, prob, problem)
    text = align_pddl(h, problem, spaces, owner_of) if h is not None else None
    if text is None or len(text) != len(spaces):
        return {"status": "harvest", "out": [dom, prob]}
    tback = []
    for s, names in enumerate(text):
        if spaces[s]["sec"] == "files":
            continue
        for n in _uniq(names):
            e = {"s": s + 1, "n": cp(n), "ok": False, "rn": []}
            try:
                with time_limit(5):
                    obj = w.get_item_named(n)
                    rn = w.get_pddl_name(obj)
                e["ok"] = True
                e["rn"] = cp(rn) if isinstance(rn, str) else []
            except UPException:
                pass
            tback.append(e)
    return {"status": "ok", "items": it.items, "spaces": spaces, "text": [{"names": [cp(n) for n in t]} for t in text],
            "tback": tback, "out": [dom, prob]}


# ---- ANML text: declarations, line by line ----------------------------------------------
_QUANT = r"(?<![A-Za-z0-9_])(?:forall|exists) ?\(([^()]*)\)"
_NUMTYPE = re.compile(r"^(integer|float) [\[(][^\])]*[\])] ")


def _strip_type(s, tnames):
    """remove the leading type reference of  '<type> <name>' ; tnames: harvested user type names"""
    if s.startswith("boolean "):
        return s[len("boolean "):]
    m = _NUMTYPE.match(s)
    if m:
        return s[m.end():]
    for b in ("integer ", "float "):
        if s.startswith(b):
            return s[len(b):]
    for t in sorted(tnames, key=len, reverse=True):
        if s.startswith(t + " "):
            return s[len(t) + 1:]
    return None


def _split_params(s, tnames):
    s = s.strip()
    if s == "":
        return []
    out = []
    for part in s.split(", "):
        n = _strip_type(part, tnames)
        if n is None:
            return None
        out.append(n)
    return out


def harvest_anml(text):
    types, fluents, actions, instances, top = [], [], [], [], []
    cur = None
    for line in text.split("\n"):
        if cur is None and line.startswith("type "):
            body = line[len("type "):]
            if not body.endswith(";"):
                return None
            body = body[:-1]
            types.append(body.split(" < ")[0])
    for line in text.split("\n"):
        if cur is not None:
            if line == "};":
                cur = None
                continue
            for m in re.finditer(_QUANT, line):
                ps = _split_params(m.group(1), types)
                if ps is None:
                    return None
                cur["qvars"] += ps
            continue
        m = re.match(r"^(fluent|constant) (.*);$", line)
        if m:
            rest = _strip_type(m.group(2), types)
            if rest is None:
                return None
            if rest.endswith(")") and "(" in rest:
                name, ps = rest[:-1].split("(", 1)
                ps = _split_params(ps, types)
                if ps is None:
                    return None
            else:
                name, ps = rest, []
            fluents.append({"name": name, "params": ps})
            continue
        m = re.match(r"^action (.*)\((.*)\) (?:::\(\"InstantaneousAction\"\))?\{$", line)
        if m:
            ps = _split_params(m.group(2), types)
            if ps is None:
                return None
            cur = {"name": m.group(1), "params": ps, "qvars": []}
            actions.append(cur)
            continue
        if line.startswith("instance "):
            rest = _strip_type(line[len("instance "):-1], types)
            if rest is None or not line.endswith(";"):
                return None
            instances.append(rest.split(", "))
            continue
        if line.startswith("type "):
            continue
        for m in re.finditer(_QUANT, line):
            ps = _split_params(m.group(1), types)
            if ps is None:
                return None
            top += ps
    return {"types": types, "fluents": fluents, "actions": actions, "instances": instances, "top": top}


def observe_anml(problem, limit):
    import unified_planning.io.anml_writer as aw

    with time_limit(limit):
        text = aw.ANMLWriter(problem).get_problem()
    h = harvest_anml(text)
    bad = {"status": "harvest", "out": [text]}
    if h is None:
        return bad
    items = []

    def add(kind, orig, name):
        items.append({"kind": kind, "orig": cp(orig), "named": True, "name": cp(name), "back": len(items) + 1, "fresh": []})
        return len(items)

    uts = list(problem.user_types)
    fls = list(problem.fluents)
    acs = list(problem.actions)
    if len(h["types"]) != len(uts) or len(h["fluents"]) != len(fls) or len(h["actions"]) != len(acs):
        return bad
    glob = [add("type", t.name, n) for t, n in zip(uts, h["types"])]
    inst = []
    for t in uts:
        objs = [o for o in problem.objects(t) if o.type == t]
        if objs:
            inst.append(objs)
    if len(inst) != len(h["instances"]) or any(len(a) != len(b) for a, b in zip(inst, h["instances"])):
        return bad
    glob += [add("fluent", f.name, d["name"]) for f, d in zip(fls, h["fluents"])]
    glob += [add("action", a.name, d["name"]) for a, d in zip(acs, h["actions"])]
    for objs, names in zip(inst, h["instances"]):
        glob += [add("object", o.name, n) for o, n in zip(objs, names)]
    # ANML has one scope of identifiers: inside a declaration its parameters / quantified variables
    # live together with every global name
    spaces = [_sec("global", list(glob))]
    for f, d in zip(fls, h["fluents"]):
        if len(d["params"]) != len(f.signature):
            return bad
        ps = [add("param", p.name, n) for p, n in zip(f.signature, d["params"])]
        spaces.append(_sec("signature", glob + ps))
    for a, d in zip(acs, h["actions"]):
        if len(d["params"]) != len(a.parameters):
            return bad
        ps = [add("param", p.name, n) for p, n in zip(a.parameters, d["params"])]
        known = {v.name for v in _qvars_of_action(a)}
        qs = [add("qvar", n if n in known else "", n) for n in _uniq(d["qvars"])]
        spaces.append(_sec("scope", glob + ps + qs))
    known = {v.name for v in _qvars_top(problem)}
    qs = [add("qvar", n if n in known else "", n) for n in _uniq(h["top"])]
    spaces.append(_sec("top", glob + qs))
    return {"status": "ok", "items": items, "spaces": spaces, "text": [], "tback": [], "out": [text]}


def _use_writer(lang, P, observe, limit):
    """construct a writer for UPJ problem P and let it write; `observe`: record the naming"""
    from .. import upj
    from unified_planning.exceptions import UPException

    rec = {"feats": [], "hasfresh": False, "items": [], "spaces": [], "text": [], "tback": [], "status": "ok", "exc": ""}
    try:
        with time_limit(limit):
            problem = upj.build(P)
    except ImplTimeout:
        rec["status"] = "timeout"
        return rec
    except Exception as ex:
        rec["status"] = "build"
        rec["exc"] = "%s: %s" % (type(ex).__name__, str(ex)[:200])
        return rec
    rec["feats"] = _feats(problem)
    try:
        if lang == "pddl":
            o = observe_pddl(problem, limit)
        else:
            o = observe_anml(problem, limit)
    except ImplTimeout:
        rec["status"] = "timeout"
        return rec
    except (UPException, NotImplementedError) as ex:
        # the writer declines the problem (unsupported feature): nothing is named
        rec["status"] = "refused"
        rec["exc"] = "%s: %s" % (type(ex).__name__, str(ex)[:200])
        return rec
    except Exception as ex:
        rec["status"] = "raises"
        rec["exc"] = "%s: %s" % (type(ex).__name__, str(ex)[:300])
        return rec
    if not observe:
        return rec
    rec.update(o)
    return rec


_CODE = {}  # module name -> code object of the writer module (compiled once, in the parent, by _warm)


def _module_code(mod):
    if mod.__name__ not in _CODE:
        _CODE[mod.__name__] = mod.__spec__.loader.get_code(mod.__name__)
    return _CODE[mod.__name__]


def _reload(mod):
    """what importlib.reload does -- execute the module's code again in the module's namespace -- without
    compiling the source again for every history (9/10 of the cost of a history: ./check runs without
    byte-code files).  That "reloaded = new process" is itself checked on the sample run in both modes."""
    exec(_module_code(mod), mod.__dict__)


def _history(task, reload=False):
    import unified_planning.io.pddl_writer as pw
    import unified_planning.io.anml_writer as aw

    if reload:
        _reload(pw)
        _reload(aw)

    out = {"id": task["id"], "lang": task["lang"], "kwlen0": len(pw.GENERAL_PDDL_KEYWORDS), "ops": []}
    for st in task["steps"]:
        rec = _use_writer(task["lang"], st["P"], st["op"] == "write", task.get("limit", LIMIT))
        rec["op"] = st["op"]
        out["ops"].append(rec)
    return out


# ----------------------------------------------------------------------------------------
# parent side: inputs
# ----------------------------------------------------------------------------------------
# symbols that keep the line / s-expression structure of the emitted text intact even when a writer
# emits them verbatim (no parentheses, braces, commas, semicolons, line breaks)
THEMES = {
    "case": ["robot", "Robot", "ROBOT", "rOBOT", "robot_0", "Robot_0", "ROBOT_0", "robot_", "robot_1", "robot_0_0", "x", "X"],
    "symbols": ["a-b", "a_b", "a b", "a.b", "a?b", "x?", "?x", "a_b_0", "A-B", "A_B", "a--b", "a__b", "a\tb", "a'b", "a/b",
                "a+b", "a:b", "a#b", "a!", "a@b", "a=b", "a<b", "a*"],
    "digits": ["1a", "1A", "o_1a", "f_1a", "a_1a", "x_1a", "p_1a", "_1a", "1", "0", "o_1", "o_1a_0", "007", "x_1", "9-9"],
    "unicode": ["é", "É", "e", "aé", "aÉ", "é_", "ß", "ẞ", "İ", "ı", "K",
                "k", "Ω", "名前", "á", "x__", "o__", "f__", "a__", "x_", "o_", "f_", "a_", "\U0001f600"],
    "emptyish": ["", " ", "_", "__", "-", "--", "?", "??", "x", "x_", "o_", "f_", "a_", "x__", "o__", "o_-", "x_-", "  "],
    "mangled": ["x", "x_0", "x_1", "x_0_0", "X", "X_0", "object", "object_", "Object", "OBJECT", "object_0", "a", "a_", "a__",
                "a_0", "a__0", "o_a", "total-cost", "total_cost", "Total-Cost"],
    # PDDL's predefined root type: reserved in the type namespace as soon as there is a second user type
    "roottype": ["object", "Object", "OBJECT", "objecT", "object_", "Object_", "OBJECT_0", "object_0", "object__0"],
}


def keyword_theme(rng, kw):
    ks = rng.sample(kw, 4)
    out = []
    for k in ks:
        out += [k, k.upper(), k.capitalize(), k + "_", k + "__", k + "_0", k.upper() + "_"]
    return out


def pick_pool(rng, kw_pddl, kw_anml):
    ths = rng.sample(["case", "symbols", "digits", "unicode", "emptyish", "mangled", "roottype", "kwp", "kwp", "kwa", "kwt"], rng.choice([1, 1, 2]))
    pool = []
    for t in ths:
        if t == "kwp":
            pool += keyword_theme(rng, kw_pddl)
        elif t == "kwa":
            pool += keyword_theme(rng, kw_anml)
        elif t == "kwt":
            # the keywords that only some language fragments reserve
            pool += keyword_theme(rng, ["start", "end", "at", "over", "all", "duration", "condition", "always", "sometime",
                                        "within", "at-most-once", "preference", "process", "event", "observe", "unknown"])
        else:
            pool += THEMES[t]
    pool = _uniq(pool)
    rng.shuffle(pool)
    return pool[: rng.choice([6, 8, 10, 14])], ths


def rename_upj(P0, rng, pool, pname=None):
    """the generated problem with its identifiers replaced through a seeded substitution"""
    P = json.loads(json.dumps(P0))  # (not deepcopy: the generator may share sub-expression objects, each is renamed once)
    p_sub = rng.choice([0.5, 0.7, 0.85, 1.0])
    glob = {}
    used = set()
    free = list(pool)

    def fresh_global(old, is_type):
        if rng.random() < p_sub:
            for k, c in enumerate(free):
                if c not in used and not (is_type and c == ""):
                    del free[k]
                    used.add(c)
                    return c
        if old in used:
            k = 0
            while "%s_%d" % (old, k) in used:
                k += 1
            old = "%s_%d" % (old, k)
        used.add(old)
        return old

    for t in P["types"]:
        glob[t["name"]] = fresh_global(t["name"], True)
    for grp in ("objects", "fluents", "actions"):
        for x in P[grp]:
            glob[x["name"]] = fresh_global(x["name"], False)
    vmap = {}

    def local(old, taken):
        if rng.random() < p_sub:
            cands = [c for c in pool if c not in taken]
            if cands:
                c = rng.choice(cands)
                taken.add(c)
                return c
        n = old
        k = 0
        while n in taken:
            n = "%s_%d" % (old, k)
            k += 1
        taken.add(n)
        return n

    def var(old):
        if old not in vmap:
            vmap[old] = local(old, set(vmap.values()))
        return vmap[old]

    def r_type(t):
        if t["k"] == "user":
            t["name"] = glob[t["name"]]

    def r_val(v):
        if v["k"] == "o":
            v["o"] = glob[v["o"]]

    def r_expr(e, pm):
        op = e["op"]
        if op in ("obj", "fluent"):
            e["name"] = glob[e["name"]]
        elif op == "param":
            e["name"] = pm[e["name"]]
        elif op == "var":
            e["name"] = var(e["name"])
        elif op == "const":
            r_val(e["v"])
        for v in e["vars"]:
            v["name"] = var(v["name"])
            r_type(v["type"])
        for a in e["args"]:
            r_expr(a, pm)

    def r_eff(ef, pm):
        ef["f"]["name"] = glob[ef["f"]["name"]]
        for a in ef["f"]["args"]:
            r_expr(a, pm)
        r_expr(ef["v"], pm)
        r_expr(ef["c"], pm)
        for v in ef["forall"]:
            v["name"] = var(v["name"])
            r_type(v["type"])

    for t in P["types"]:
        t["name"] = glob[t["name"]]
        if t["parent"] != "":
            t["parent"] = glob[t["parent"]]
    for o in P["objects"]:
        o["name"] = glob[o["name"]]
        o["type"] = glob[o["type"]]
    for f in P["fluents"]:
        f["name"] = glob[f["name"]]
        r_type(f["type"])
        taken = set()
        for p in f["sig"]:
            p["name"] = local(p["name"], taken)
            r_type(p["type"])
        r_val(f["default"])
    for i in P["init"]:
        i["f"] = glob[i["f"]]
        for a in i["args"]:
            r_val(a)
        r_val(i["v"])
    for a in P["actions"]:
        a["name"] = glob[a["name"]]
        pm, taken = {}, set()
        for p in a["params"]:
            pm[p["name"]] = local(p["name"], taken)
            p["name"] = pm[p["name"]]
            r_type(p["type"])
        for c in a["pre"]:
            r_expr(c, pm)
        for c in a["conds"]:
            r_expr(c["c"], pm)
        for ef in a["effects"]:
            r_eff(ef["e"] if a["kind"] == "dur" else ef, pm)
        if a["kind"] == "dur":
            r_expr(a["dur"]["lo"], pm)
            r_expr(a["dur"]["hi"], pm)
    for key in ("goals", "invariants", "traj"):
        for e in P.get(key, []):
            r_expr(e, {})
    for tg in P.get("timed_goals", []):
        r_expr(tg["g"], {})
    for te in P.get("timed_effects", []):
        r_eff(te["e"], {})
    m = P.get("metric")
    if m and m["kind"] != "none":
        byname = {a["name"]: a for a in P["actions"]}
        old2new = {a0["name"]: a1["name"] for a0, a1 in zip(P0["actions"], P["actions"])}
        old_params = {a0["name"]: [p["name"] for p in a0["params"]] for a0 in P0["actions"]}
        for c in m["costs"]:
            new = old2new[c["a"]]
            pm = dict(zip(old_params[c["a"]], [p["name"] for p in byname[new]["params"]]))
            c["a"] = new
            r_expr(c["c"], pm)
        for k in ("default", "expr"):
            if m[k]["op"] != "none":
                r_expr(m[k], {})
        for g in m["goals"]:
            r_expr(g["g"], {})
    if pname is not None:
        P["name"] = pname
    return P


def gen_corpus(rng, n, kws):
    """n renamed G2 problems: (UPJ, description)"""
    from ..gen import Gen, TGen

    kw_pddl = sorted(set(uncp(k) for g in ("general", "temporal", "pddl3", "plus", "contingent") for k in kws[g]))
    kw_anml = sorted(uncp(k) for k in kws["anml"])
    out = []
    for i in range(n):
        q = rng.random()
        if q < 0.45:
            P = Gen(rng, adversarial_names=True, objfluents=rng.random() < 0.2, traj=False, invariants=False,
                    bool_expr_assign=rng.random() < 0.15, boolconst=rng.random() < 0.15,
                    metric=("any" if rng.random() < 0.35 else None)).problem()
            cls = "classical"
        elif q < 0.65:
            P = Gen(rng, adversarial_names=True, objfluents=False, traj=rng.random() < 0.6, invariants=True,
                    bool_expr_assign=False, boolconst=False).problem()
            cls = "constraints"
        else:
            P = TGen(rng, adversarial_names=True, intermediate=False, timed=rng.random() < 0.3, bool_expr_assign=False,
                     boolconst=False).problem()
            P["timed_goals"] = []
            cls = "temporal"
        pool, ths = pick_pool(rng, kw_pddl, kw_anml)
        pname = rng.choice(pool) if rng.random() < 0.5 else "g"
        out.append((rename_upj(P, rng, pool, pname), {"class": cls, "themes": ths}))
    return out


# ---- skeletons enumerated by TLC -----------------------------------------------------------
def skeleton_upj(case):
    """a minimal problem around the items of an enumerated skeleton"""
    from ..upj import E, BV, NV, NONE, TRUE_E
    from ..gen import T

    feats = case["feats"]
    items = [(x["kind"], uncp(x["orig"])) for x in case["items"]]
    tnames = [n for k, n in items if k == "type"] or ["zzt"]
    onames = [n for k, n in items if k == "object"] or ["zzo"]
    fnames = [n for k, n in items if k == "fluent"] + ["zzf"]
    anames = [n for k, n in items if k == "action"] or ["zza"]
    pnames = [n for k, n in items if k == "param"]
    ty = {"k": "user", "name": tnames[0]}
    # several type items: every type is used (a further type gets an object of its own); feature "hier": the
    # types form a chain (each one the father of the next), otherwise typing is flat
    hier = "hier" in feats
    types = [{"name": t, "parent": (tnames[k - 1] if hier and k > 0 else "")} for k, t in enumerate(tnames)]
    more_objects = [{"name": "zzo%d" % k, "type": t} for k, t in enumerate(tnames) if k > 0]
    eff = {"kind": "assign", "f": {"name": "zzf", "args": []}, "v": E("const", v=BV(True)), "c": TRUE_E, "forall": []}
    acts = []
    for j, an in enumerate(anames):
        params = [{"name": p, "type": ty} for p in pnames] if j == 0 else []
        if "temporal" in feats:
            one = E("const", v=NV(1))
            acts.append({"name": an, "kind": "dur", "params": params, "pre": [], "effects": [{"t": T("end"), "e": copy.deepcopy(eff)}],
                         "conds": [], "dur": {"lo": one, "hi": one, "lopen": False, "ropen": False}, "sim": False})
        else:
            acts.append({"name": an, "kind": "inst", "params": params, "pre": [], "effects": [copy.deepcopy(eff)], "conds": [],
                         "dur": NONE, "sim": False})
    zf = E("fluent", name="zzf")
    return {
        "name": "zzp",
        "types": types,
        "objects": [{"name": o, "type": tnames[0]} for o in onames] + more_objects,
        "fluents": [{"name": f, "type": {"k": "bool"}, "sig": [], "default": BV(False)} for f in fnames],
        "init": [],
        "actions": acts,
        "goals": [zf],
        "invariants": [],
        "traj": [E("sometime", [zf])] if "traj" in feats else [],
        "timed_goals": [],
        "timed_effects": [],
        # (a plan-length metric makes the PDDL writer declare its own total-cost function)
        "metric": {"kind": "none" if "temporal" in feats else "length", "costs": [], "default": E("none"), "expr": E("none"), "goals": []},
        "nmetrics": 0 if "temporal" in feats else 1,
        "ifuns": [],
    }


# universes of the TLC-enumerated skeletons: (names, kinds, feature sets, max items); T1_Q / T1_T: the universe
# of the T1 design check (quick: a sub-universe of FAM_Q[0]; thorough: FAM_T[0])
T1_Q = (["a", "A", "a_0", "a b", "1", "and", "start", ""], ["object", "action", "param"], [[], ["temporal"]], 2)
KINDS4 = ["object", "fluent", "action", "param"]
FAM_Q = [(["a", "A", "a_0", "a b", "a_b", "1", "and", "start", "", "total-cost"], KINDS4, [[], ["temporal"]], 2)]
FAM_T = [(["a", "A", "a_", "a_0", "A_0", "a b", "a-b", "a_b", "1", "o_1", "and", "AND", "and_", "start", "", "total-cost"], KINDS4,
          [[], ["temporal"]], 2),
         (["a", "A", "a_0", "a b", "and", "start", ""], ["object", "action", "param"], [[], ["temporal"]], 3),
         (["a", "a_", "always", "ALWAYS", "at", "at_", "within", "start"], ["fluent", "action", "param"], [[], ["traj"], ["temporal"]], 2)]

# user types and PDDL's root type `object`: its case variants and mangled forms, alone (the only case in which a
# user type may be written `object`), with a second type (flat), in a hierarchy (as father and as sub-type), and
# next to an object that already has the name the type would be renamed to
ROOT_NAMES = ["object", "Object", "OBJECT", "object_", "a"]
FAM_Q.append((ROOT_NAMES, ["type", "object"], [[], ["hier"]], 2))
FAM_T.append((ROOT_NAMES + ["object_0"], ["type", "object"], [[], ["hier"]], 3))
# T1 (repaired design only) is also run over the type universe: (names, kinds, feature sets, max items)
T1_TYPES = (ROOT_NAMES, ["type", "object"], [[], ["hier"]], 2)

T1_CFG = """SPECIFICATION ISpec
CONSTANTS AliasKw = %(alias)s
 Anchored = %(anch)s
 MaxItems = %(mi)d
 MaxTouch = 1
 Lang = "%(lang)s"
%(invs)s
"""
T1_PROPER = ["NamedOK", "ValidOK", "NotKeywordOK", "DistinctOK", "InverseOK", "KwCovers"]
T1_RUNS = [  # (language, AliasKw, Anchored, label, invariants)
    ("pddl", "FALSE", "TRUE", "repaired", T1_PROPER + ["HistoryIndependentOK"]),
    ("pddl", "TRUE", "FALSE", "as-written", T1_PROPER),
    ("pddl", "TRUE", "FALSE", "as-written", ["HistoryIndependentOK"]),
    ("anml", "FALSE", "TRUE", "repaired", T1_PROPER + ["HistoryIndependentOK"]),
    ("anml", "TRUE", "FALSE", "as-written", T1_PROPER + ["HistoryIndependentOK"]),
]

JUDGE_CFG = "SPECIFICATION TraceSpec\nINVARIANT Verdict\n"


# ----------------------------------------------------------------------------------------
# judging and reporting
# ----------------------------------------------------------------------------------------
def judge(ctx, label, traces, env, meta):
    if not traces:
        return
    d = ctx.sub("judge-" + label)
    path = os.path.join(d, "traces.ndjson")
    tlc.write_ndjson(path, traces)
    e = dict(env)
    e["TRACES"] = path
    res = tlc.run_tlc("RenamerJudge", JUDGE_CFG, d, env=e, timeout=3000)
    if res.error or res.violated:
        raise MachineryError("RenamerJudge failed: %s %s" % (res.violated, res.error))
    expected = sum(len(t["ops"]) + 1 for t in traces)
    if res.distinct != expected:
        raise MachineryError("judge consumed %d states, expected %d" % (res.distinct, expected))
    ctx.add_tlc("judge-" + label, res)
    ctx.cov["traces_validated_against_impl"] += len(traces)
    fails = [x for x in res.printed if x and x[0] == "FAIL"]
    if res.stdout.count('"FAIL"') != len(fails):
        raise MachineryError("judge printed %d FAIL tuples, %d were parsed" % (res.stdout.count('"FAIL"'), len(fails)))
    byid = {t["id"]: t for t in traces}
    for p in sorted((x for x in res.printed if x and x[0] == "FAIL"), key=lambda x: (x[1], repr(x))):
        _, tid, clause, step, idx, detail = p
        t = byid[tid]
        o = t["ops"][step - 1]
        sig = "|".join([clause, t["lang"]] + [str(x) for x in detail])
        data = {"trace_id": tid, "lang": t["lang"], "clause": clause, "step": step, "index": idx,
                "history": [{"op": x["op"], "feats": x["feats"]} for x in t["ops"]], "input": meta.get(tid)}
        if clause.startswith("Text"):
            if clause == "TextInverse":
                data["harvested"] = {k: (uncp(v) if isinstance(v, list) else v) for k, v in o["tback"][idx - 1].items()}
            else:
                data["section"] = o["spaces"][idx - 1]["sec"]
                data["harvested"] = [uncp(n) for n in o["text"][idx - 1]["names"]] if o["text"] else []
                data["items"] = [[o["items"][i - 1]["kind"], uncp(o["items"][i - 1]["orig"]), uncp(o["items"][i - 1]["name"])] for i in o["spaces"][idx - 1]["items"]]
        else:
            itm = o["items"][idx - 1]
            data["item"] = {"kind": itm["kind"], "original": uncp(itm["orig"]), "name": uncp(itm["name"]), "named": itm["named"],
                            "back": itm["back"], "fresh": uncp(itm["fresh"])}
            data["all_names"] = [[x["kind"], uncp(x["orig"]), uncp(x["name"])] for x in o["items"]]
        what = {
            "Named": "an emitted model element has no name in the writer's item -> name look-up",
            "Valid": "the chosen name is not a valid identifier of the target language",
            "NotKeyword": "the chosen name is a keyword of the target language (for a user type of a problem with several "
                          "types also: PDDL's reserved root type `object`)",
            "Distinct": "two distinct elements of one namespace get the same name (under the language's case rule)",
            "Inverse": "get_item_named(get_pddl_name(item)) is not the item",
            "TextValid": "a name declared in the emitted text is not a valid identifier / is a keyword",
            "TextDistinct": "the emitted text declares the same name twice in one namespace",
            "TextAgrees": "the names declared in the emitted text differ from the names the look-ups report",
            "TextInverse": "a name declared in the emitted text does not look up to an item with that name",
            "HistoryIndependent": "the chosen name differs from the one chosen on first use in a fresh process",
        }.get(clause, clause)
        ctx.violation(sig, "%s writer: %s (%s)" % (t["lang"].upper(), what, ", ".join(str(x) for x in detail)), data)
    return res


def _strip(op):
    return {k: op[k] for k in ("op", "feats", "hasfresh", "items", "spaces", "text", "tback")}


def assemble(ctx, results, plan, kwlen, stats):
    """results of the child processes -> judged traces.  plan[id] = (lang, key of the observed problem,
    first use?, mode).  The first-use run of every problem (the one in a new process where there is one)
    supplies the `fresh` names of every history that writes the same problem."""
    pristine = {}
    nskip = sum(1 for r in results if r.get("skipped"))
    if nskip:
        stats["skipped"] = stats.get("skipped", 0) + nskip
    results = [r for r in results if not r.get("skipped")]
    for r in results:
        if "crash" in r:
            raise MachineryError("child process failed: %s" % r["crash"])
        if r["kwlen0"] != kwlen:
            raise MachineryError("a history did not start with the pristine keyword set")
        lang, key, first, mode = plan[r["id"]]
        if first:
            rank = 0 if mode == "fresh" else 1
            if (lang, key) not in pristine or pristine[(lang, key)][0] > rank:
                pristine[(lang, key)] = (rank, r["ops"][-1])
    traces = []
    for r in results:
        lang, key, first, mode = plan[r["id"]]
        last = r["ops"][-1]
        stats["%s:%s" % (lang, last["status"])] = stats.get("%s:%s" % (lang, last["status"]), 0) + 1
        if last["status"] == "timeout":
            ctx.violation("impl-nonterminating|" + lang, "the %s writer does not terminate within %d s" % (lang, 10 * LIMIT), {"trace_id": r["id"]})
            continue
        if last["status"] == "raises":
            ctx.violation("impl-raises|%s|%s" % (lang, last["exc"].split(":")[0]), "the %s writer raises %s" % (lang, last["exc"]),
                          {"trace_id": r["id"], "exc": last["exc"]})
            continue
        if last["status"] == "harvest":
            ctx.violation("harvest|" + lang, "the emitted %s text does not have the shape of the writer's declarations" % lang,
                          {"trace_id": r["id"], "out": last.get("out")})
            continue
        if last["status"] != "ok":
            continue
        fr = pristine.get((lang, key), (9, None))[1]
        if fr is None or fr["status"] != "ok" or len(fr["items"]) != len(last["items"]):
            continue
        last["hasfresh"] = True
        for a, b in zip(last["items"], fr["items"]):
            a["fresh"] = b["name"]
        traces.append({"id": r["id"], "lang": lang, "ops": [_strip(o) for o in r["ops"]]})
    return traces


class _Plan:
    def __init__(self, base):
        self.tasks, self.plan, self.meta, self.base = [], {}, {}, base

    def add(self, lang, key, steps, mode, desc):
        hid = self.base + len(self.tasks)
        self.tasks.append({"kind": "h", "id": hid, "lang": lang, "mode": mode, "steps": steps})
        self.plan[hid] = (lang, key, len(steps) == 1, mode)
        self.meta[hid] = desc


def run(ctx):
    q = ctx.quick
    rng = ctx.rng
    # ---- the real keyword sets, read in a fresh process ----------------------------------
    kws = run_tasks([{"kind": "kw"}])[0]
    if "crash" in kws:
        raise MachineryError("cannot read the keyword sets: %s" % kws["crash"])
    kwlen = len(kws["general"])
    d0 = ctx.sub("const")
    kwpath = os.path.join(d0, "kw.json")
    tlc.write_json(kwpath, kws)
    # C38_SCALE < 1 shrinks the run (development on a busy machine only; recorded in the evidence)
    scale = float(os.environ.get("C38_SCALE", "1") or 1)
    fams = FAM_Q if q else FAM_T
    if scale < 1:
        fams = [(["a", "A", "a b", "and", "start", "total-cost", "1", ""][: max(5, int(20 * scale))], ["fluent", "action", "param"], [[], ["temporal"]], 2),
                FAM_Q[-1]]
        ctx.cov["scale"] = scale
    nfresh = max(4, int((30 if q else 300) * scale))
    stats = {}
    t1_notes = []
    nontrivial = 0
    n_enum = 0
    enum_traces, enum_meta, n_judged = [], {}, 0
    # the problem written before a skeleton in the 2-step histories: temporal AND with a trajectory constraint
    toucher = skeleton_upj({"feats": ["temporal", "traj"], "items": []})
    env = {"KW": kwpath}
    t1u = T1_Q if (q and scale >= 1) else fams[0]
    for fi, (unames, ukinds, featsets, mi) in enumerate(fams):
        unipath = os.path.join(d0, "univ%d.json" % fi)
        tlc.write_json(unipath, {"names": [cp(n) for n in unames], "kinds": ukinds, "feats": featsets})
        # ---- T1: design check --------------------------------------------------------------
        if fi == 0 and not os.environ.get("C38_SKIP_T1"):  # (development knob: T1 does not touch the implementation)
            t1path = os.path.join(d0, "univT1.json")
            tlc.write_json(t1path, {"names": [cp(n) for n in t1u[0]], "kinds": t1u[1], "feats": t1u[2]})
            envf = {"KW": kwpath, "UNIV": t1path}
            for lang, alias, anch, label, invs in T1_RUNS:
                cfg = T1_CFG % {"alias": alias, "anch": anch, "mi": 2, "lang": lang, "invs": "\n".join("INVARIANT " + i for i in invs)}
                res = tlc.run_tlc("RenamerImpl", cfg, ctx.sub("t1"), env=envf, timeout=3000, coverage=(label == "repaired"))
                if res.error:
                    raise MachineryError(res.error)
                ctx.add_tlc("T1 %s %s %s" % (lang, label, "+".join(i[:-2] for i in invs if i != "KwCovers")), res)
                if label == "repaired":
                    need = ["INew", "IName", "ITouch"] if lang == "pddl" else ["INew"]
                    for a in need:
                        if res.coverage.get(a, (0, 0))[0] == 0:
                            raise MachineryError("T1 %s: action %s never taken (vacuous design check)" % (lang, a))
                    if res.violated:
                        ctx.violation("T1|%s|%s" % (lang, res.violated),
                                      "the repaired naming design (%s) violates %s" % (lang, res.violated),
                                      {"trace": [s["vars"].get("wr") for s in res.trace]})
                elif res.violated:
                    # a design-level counterexample of the mechanism as written: the problem is one of the
                    # skeletons replayed below on the real writers, where the judge decides
                    wr = res.trace[-1]["vars"].get("wr", {}) if res.trace else {}
                    p = wr.get("p", {}) if isinstance(wr, dict) else {}
                    try:
                        items = [[x["kind"], uncp(x["orig"])] for x in p.get("items", [])]
                    except Exception:
                        items = []
                    t1_notes.append({"lang": lang, "violates": res.violated, "items": items,
                                     "writers_constructed_before": res.trace[-1]["vars"].get("touched") if res.trace else None})
                else:
                    t1_notes.append({"lang": lang, "holds_as_written": [i for i in invs]})
            # the repaired PDDL design over the type universe (user types next to PDDL's root type `object`)
            if scale >= 1:
                tpath = os.path.join(d0, "univT1types.json")
                tlc.write_json(tpath, {"names": [cp(n) for n in T1_TYPES[0]], "kinds": T1_TYPES[1], "feats": T1_TYPES[2]})
                invs = T1_PROPER + ["HistoryIndependentOK"]
                cfg = T1_CFG % {"alias": "FALSE", "anch": "TRUE", "mi": T1_TYPES[3], "lang": "pddl",
                                "invs": "\n".join("INVARIANT " + i for i in invs)}
                res = tlc.run_tlc("RenamerImpl", cfg, ctx.sub("t1"), env={"KW": kwpath, "UNIV": tpath}, timeout=3000)
                if res.error:
                    raise MachineryError(res.error)
                ctx.add_tlc("T1 pddl repaired types " + "+".join(i[:-2] for i in invs if i != "KwCovers"), res)
                if res.violated:
                    ctx.violation("T1|pddl|types|%s" % res.violated,
                                  "the repaired naming design (pddl, user types) violates %s" % res.violated,
                                  {"trace": [x["vars"].get("wr") for x in res.trace]})
        # ---- T2: TLC-enumerated skeletons on the real writers --------------------------------
        envf = {"KW": kwpath, "UNIV": unipath}
        d = ctx.sub("enum%d" % fi)
        out = os.path.join(d, "cases.ndjson")
        e2 = dict(envf)
        e2["OUT"] = out
        res = tlc.run_tlc("RenamerEnum", "INIT EInit\nNEXT ENext\nCONSTANTS AliasKw = FALSE\n Anchored = TRUE\n MaxItems = %d\n MaxTouch = 0\n Lang = \"pddl\"\n" % mi,
                          d, env=e2, workers=1, timeout=3000)
        if res.error:
            raise MachineryError(res.error)
        cases = tlc.read_ndjson(out)
        if not cases:
            raise MachineryError("RenamerEnum emitted nothing")
        pl = _Plan(fi * 1000000)
        sample = set(rng.sample(range(len(cases)), min(nfresh, max(4, len(cases) // 40), len(cases))))
        for i, c in enumerate(cases):
            P = skeleton_upj(c)
            desc = {"skeleton": [[x["kind"], uncp(x["orig"])] for x in c["items"]], "feats": c["feats"]}
            pre = toucher
            for mode in (["reload", "fresh"] if i in sample else ["reload"]):
                for lang in ("pddl", "anml"):
                    pl.add(lang, ("s", fi, i), [{"op": "write", "P": P}], mode, desc)
                pl.add("pddl", ("s", fi, i), [{"op": "touch", "P": pre}, {"op": "write", "P": P}], mode, desc)
        results = run_tasks(pl.tasks)
        traces = assemble(ctx, results, pl.plan, kwlen, stats)
        ctx.cov["evaluations"] += len(results)
        enum_traces += traces
        enum_meta.update(pl.meta)
        nontrivial += sum(1 for t in traces if any(it["name"] != it["orig"] for it in t["ops"][-1]["items"]))
        n_enum += len(traces)
        # the histories of the universes are judged together, one TLC start per BATCH traces
        while len(enum_traces) >= BATCH or (enum_traces and fi == len(fams) - 1):
            judge(ctx, "enum-%d" % n_judged, enum_traces[:BATCH], env, enum_meta)
            del enum_traces[:BATCH]
            n_judged += 1
    ctx.notes["t1_as_written_counterexamples"] = t1_notes

    # ---- T3: renamed G2 problems, first use and 2-step histories --------------------------
    n = max(12, int((300 if q else 3000) * scale))
    corpus = gen_corpus(rng, n, kws)
    pl = _Plan(100000000)
    sample = set(rng.sample(range(len(corpus)), min(nfresh, len(corpus))))
    for i, (P, desc) in enumerate(corpus):
        desc = dict(desc)
        desc["problem"] = P
        for mode in (["reload", "fresh"] if i in sample else ["reload"]):
            for lang in ("pddl", "anml"):
                pl.add(lang, ("g", i), [{"op": "write", "P": P}], mode, desc)
    for i, (P, desc) in enumerate(corpus):
        # problem i written after another problem of the corpus (for PDDL: one of another class)
        for lang in ("pddl", "anml"):
            cands = [j for j in range(len(corpus)) if j != i and (lang == "anml" or corpus[j][1]["class"] != corpus[i][1]["class"])]
            if not cands:
                continue
            j = rng.choice(cands)
            d2 = dict(desc)
            d2["problem"] = P
            d2["written_before"] = corpus[j][0]
            pl.add(lang, ("g", i), [{"op": "touch", "P": corpus[j][0]}, {"op": "write", "P": P}], "fresh" if i in sample else "reload", d2)
    results = run_tasks(pl.tasks)
    traces = assemble(ctx, results, pl.plan, kwlen, stats)
    ctx.cov["evaluations"] += len(results)
    for k in range(0, len(traces), BATCH):
        judge(ctx, "corpus-%d" % (k // BATCH), traces[k:k + BATCH], env, pl.meta)
    nontrivial += sum(1 for t in traces if any(it["name"] != it["orig"] for it in t["ops"][-1]["items"]))
    ctx.cov["distinct_nontrivial"] = nontrivial
    ctx.notes["writer_outcomes"] = stats
    ok_p = stats.get("pddl:ok", 0)
    ok_a = stats.get("anml:ok", 0)
    if stats.get("skipped") and not ctx.violations:
        raise MachineryError("histories were skipped after time-outs although no history failed to terminate: %r" % stats)
    if not ctx.violations and (ok_p < (len(corpus) + n_enum) // 4 or ok_a < len(corpus) // 2):
        raise MachineryError("too few problems were written (vacuous run): %r" % stats)
    for t in traces:
        if t["lang"] == "pddl" and len(t["ops"]) == 2:
            o = t["ops"][-1]
            ctx.sample({"kind": "history: PDDL names of a renamed G2 problem written after another problem",
                        "names": [[x["kind"], uncp(x["orig"]), uncp(x["name"])] for x in o["items"][:12]]})
            break
    for t in traces:
        if t["lang"] == "anml":
            o = t["ops"][-1]
            ctx.sample({"kind": "ANML names harvested from the emitted text",
                        "names": [[x["kind"], uncp(x["orig"]), uncp(x["name"])] for x in o["items"][:12]]})
            break
    ctx.cov["outcomes"] = stats
    ctx.cov["t1_as_written_counterexamples"] = t1_notes
    ctx.cov["rule"] = (
        "T1: exhaustive BFS of RenamerImpl (as written and repaired) over the skeletons of <= 2 items of the universe %r, "
        "with the real keyword sets. T2: every skeleton of the universes %r (names, kinds, feature sets, max items) emitted by TLC "
        "(RenamerEnum), built as a real problem, written by both writers on first use, and by PDDLWriter after a writer "
        "for a temporal (or constrained) problem; first use = reloaded writer modules, and for a sample a new process. "
        "T3: %d seeded G2 problems (classical with metrics, state invariants / "
        "trajectory constraints, temporal) with identifiers substituted from adversarial pools (case variants, keywords, "
        "symbols, unicode, leading digits, mangled forms, empty-ish, forms of PDDL's root type `object`), each written on first "
        "use and after another problem. "
        "A case is counted non-trivial when some element had to be renamed." % (t1u[:3], fams, len(corpus))
    )
    ctx.cov["exhaustive"] = True
    ctx.assumptions += [
        "TLC and the CommunityModules Json reader are trusted",
        "valid identifiers: PDDL = letter then letters/digits/'-'/'_' (both PDDL readers' grammar), '?' + identifier for variables; "
        "ANML = anml_grammar.py's Word(alphas + '_', alphanums + '_'); PDDL names compared ignoring ASCII case",
        "keywords are the sets defined in the writer modules (read in a fresh process); the PDDL fragment's set follows the "
        "problem's features (durative actions, trajectory constraints); in the PDDL type namespace `object` (the predefined "
        "root type) is reserved as soon as the problem has more than one user type",
        "ANML names are harvested from the declarations of the emitted text by the driver's line tokenizer and paired with model "
        "elements by declaration order; the adversarial symbols exclude parentheses, braces, commas, semicolons and line breaks",
        "RenamerImpl models str.lower() on ASCII only",
    ]


def selftest(ctx):
    """./check C38 --selftest : corrupt one recorded field of a good observation at a time; every clause of
    Renamer!Failures must reject its corruption and the uncorrupted observations must be accepted."""
    from ..gen import Gen

    kws = run_tasks([{"kind": "kw"}])[0]
    kwpath = os.path.join(ctx.sub("const"), "kw.json")
    tlc.write_json(kwpath, kws)
    good = None
    for _ in range(60):
        P = Gen(ctx.rng, adversarial_names=True, objfluents=False, bool_expr_assign=False, boolconst=False, invariants=False).problem()
        r = run_tasks([{"kind": "h", "id": 1, "lang": "pddl", "mode": "fresh", "steps": [{"op": "write", "P": P}]},
                       {"kind": "h", "id": 2, "lang": "anml", "mode": "fresh", "steps": [{"op": "write", "P": P}]}])
        if all("ops" in x and x["ops"][-1]["status"] == "ok" for x in r):
            its = r[0]["ops"][-1]["items"]
            if (sum(1 for it in its if it["kind"] == "fluent") >= 2 and any(it["kind"] == "param" for it in its)
                    and sum(1 for it in its if it["kind"] == "type") >= 2):
                good = r
                break
    if good is None:
        raise MachineryError("selftest: no writable problem generated")
    plan = {1: ("pddl", "k", True, "fresh"), 2: ("anml", "k", True, "fresh")}
    traces = assemble(ctx, good, plan, len(kws["general"]), {})
    tp = [t for t in traces if t["lang"] == "pddl"][0]
    ta = [t for t in traces if t["lang"] == "anml"][0]
    out, exp = [tp, ta], []

    def variant(t, nid, fn, expect):
        v = copy.deepcopy(t)
        v["id"] = nid
        fn(v["ops"][-1])
        out.append(v)
        exp.append((nid, expect))

    o = tp["ops"][-1]
    fl = [i for i, it in enumerate(o["items"]) if it["kind"] == "fluent"]
    pa = [i for i, it in enumerate(o["items"]) if it["kind"] == "param"]
    up = lambda n: [c - 32 if 97 <= c <= 122 else c for c in n]  # noqa
    variant(tp, 10, lambda o: o["items"][fl[0]].update(named=False, name=[]), "Named")
    variant(tp, 11, lambda o: o["items"][fl[0]].update(name=cp("1x")), "Valid")
    variant(tp, 12, lambda o: o["items"][pa[0]].update(name=cp("x")), "Valid")
    variant(tp, 13, lambda o: o["items"][fl[0]].update(name=cp("AND")), "NotKeyword")
    variant(tp, 14, lambda o: o["items"][fl[1]].update(name=up(o["items"][fl[0]]["name"])), "Distinct")
    variant(tp, 15, lambda o: o["items"][fl[0]].update(back=o["items"][fl[0]]["back"] + 1), "Inverse")
    variant(tp, 16, lambda o: o["text"][2]["names"].__setitem__(0, cp("a b")), "TextValid")
    variant(tp, 17, lambda o: o["text"][2]["names"].append(o["text"][2]["names"][0]), "TextDistinct")
    variant(tp, 18, lambda o: o["text"][2]["names"].pop(), "TextAgrees")
    variant(tp, 19, lambda o: o["tback"][0].update(ok=False), "TextInverse")
    variant(tp, 20, lambda o: o["items"][fl[0]].update(fresh=cp("zz")), "HistoryIndependent")
    ty = [i for i, it in enumerate(o["items"]) if it["kind"] == "type"]
    variant(tp, 21, lambda o: o["items"][ty[0]].update(name=cp("object")), "NotKeyword")
    variant(tp, 22, lambda o: o["text"][0]["names"].__setitem__(0, cp("object")), "TextValid")
    variant(tp, 23, lambda o: (o["items"][ty[0]].update(name=cp("object")), o["text"][0]["names"].pop(0)), "TextAgrees")
    variant(ta, 30, lambda o: o["items"][0].update(name=cp("a-b")), "Valid")
    variant(ta, 31, lambda o: o["items"][0].update(name=cp("fluent")), "NotKeyword")
    variant(ta, 32, lambda o: o["items"][1].update(name=o["items"][0]["name"]), "Distinct")
    judge(ctx, "selftest", out, {"KW": kwpath}, {})
    got = {}
    for v in ctx.violations:
        got.setdefault(v.data["trace_id"], []).append(v.sig.split("|")[0])
    ok = not got.get(tp["id"]) and not got.get(ta["id"])
    print("selftest: uncorrupted observations accepted: %s" % ok)
    for nid, e in exp:
        hit = e in got.get(nid, [])
        ok = ok and hit
        print("selftest: corruption %d must be rejected by %s: %s (clauses %s)" % (nid, e, "yes" if hit else "NO", got.get(nid)))
    return 0 if ok else 1


def replay(ctx, rec):
    """./check C38 --replay FILE : run the recorded input again (new processes) and judge it"""
    d = rec["data"]
    inp = d.get("input") or {}
    if "skeleton" in inp:
        P = skeleton_upj({"feats": inp["feats"], "items": [{"kind": k, "orig": cp(n)} for k, n in inp["skeleton"]]})
        pre = skeleton_upj({"feats": ["temporal", "traj"], "items": []})
    elif "problem" in inp:
        P, pre = inp["problem"], inp.get("written_before")
    else:
        print("nothing to replay in this record")
        return 2
    lang = d["lang"]
    kws = run_tasks([{"kind": "kw"}])[0]
    kwpath = os.path.join(ctx.sub("const"), "kw.json")
    tlc.write_json(kwpath, kws)
    pl = _Plan(0)
    pl.add(lang, "k", [{"op": "write", "P": P}], "fresh", inp)
    if len(d.get("history", [])) > 1 and pre is not None:
        pl.add(lang, "k", [{"op": "touch", "P": pre}, {"op": "write", "P": P}], "fresh", inp)
    res = run_tasks(pl.tasks)
    for r in res:
        for o in r.get("ops", []):
            if o.get("out"):
                print("\n".join(o["out"]))
    traces = assemble(ctx, res, pl.plan, len(kws["general"]), {})
    judge(ctx, "replay", traces, {"KW": kwpath}, pl.meta)
    same = [v for v in ctx.violations if v.sig == rec["signature"]]
    for v in ctx.violations:
        print("replay: %s -- %s" % (v.sig, v.what))
    print("replay: signature %s %s" % (rec["signature"], "REPRODUCED" if same else "not reproduced"))
    return 1 if same else 0
