"""C36 -- planning states (UPState) behave like finite maps under any update history.

T1  spec/UPStateSM.tla: the implementation-shaped layer (father pointer, own _values dict,
    _ancestors counter, MAX_ANCESTORS flattening in make_child, condensation by
    __hash__/__eq__/__repr__/failed get_value, _hash cache) refines the finite-map layer for
    every call history within the bounds, for root/base limits in {1, 2, None}.
T2  TLC (UPStateSMEnum) emits every well-formed call history of length L (user-created states,
    make_child trees, interleaved condensing calls); each is replayed on real UPState objects
    under several (root class limit, UPState.MAX_ANCESTORS) configurations.
T3  seeded long random histories (up to 60 calls, 5 ground fluents incl. two instances of a
    parametrised fluent, limits 1, 2, 3, 20, None).
    After EVERY call the driver replays the history prefix on a fresh replica and records, on the
    replica, get_value of every fluent (or the exception class), hash() and pairwise == of the
    observed states; UPStateSMTrace judges every record against the finite-map layer.

Python holds no oracle: it builds dictionaries of real fluent expressions / constants, calls
UPState(...), make_child, get_value, hash, ==, repr, and projects results to small integers.
"""
import os

from .. import tlc
from ..common import MachineryError, time_limit, ImplTimeout

ABS, ND, RAISED, UNKNOWN_VALUE = 98, 99, 97, 96
HASH_ID0 = 1000
WORKERS = 8  # other checks run TLC concurrently; the judges are dominated by (sequential) JSON parsing

MC_CFG = """SPECIFICATION Spec
CONSTANTS NF = %(nf)d
 Def <- %(defn)s
 MaxN = %(maxn)d
 MaxRoots = %(maxroots)d
 RootLims = %(lims)s
 BaseLims = %(lims)s
 Dicts <- %(dicts)s
INVARIANT GetOK
INVARIANT EqOK
INVARIANT HashOK
INVARIANT ShapeOK
INVARIANT ChainBounded
PROPERTY Immutable
"""

ENUM_CFG = """INIT Init
NEXT Next
CONSTANTS NF = 3
 L = %(L)d
 MaxN = %(maxn)d
 MaxRoots = %(maxroots)d
 Roots <- %(roots)s
 Upds <- %(upds)s
 Kinds <- %(kinds)s
 GetF = {3}
"""

TRACE_CFG = """SPECIFICATION TraceSpec
CONSTANTS NF = %(nf)d
 Def <- %(defn)s
 MaxN = 100000
 MaxRoots = 100000
 RootLims = {0}
 BaseLims = {0}
 Dicts = {}
INVARIANT Verdict
"""

T1_ACTIONS = ["NewStep", "LinkStep", "FlattenStep", "HashCondStep", "HashRootStep", "ReprCondStep", "ReprRootStep"]


# ------------------------------------------------------------------------------------------
# the real objects
# ------------------------------------------------------------------------------------------
class World:
    """A tiny Problem with 5 ground fluent expressions and their constant tables.

    fluent 1  b        Bool,     default false
    fluent 2  n        Int[0,3], default 1
    fluent 3  m        Int[0,3], no default
    fluent 4  q(o1)    Bool,     default true   (two ground instances of one fluent share
    fluent 5  q(o2)    Bool,     default true    the fluent's default)
    """

    def __init__(self):
        import unified_planning as up
        from unified_planning.shortcuts import (
            Problem, Fluent, BoolType, IntType, UserType, Object, Int, TRUE, FALSE,
        )
        from unified_planning.model.state import UPState
        from unified_planning.exceptions import UPStateMissingFluentError

        up.shortcuts.get_environment().credits_stream = None
        self.UPState = UPState
        self.Missing = UPStateMissingFluentError
        p = Problem("c36")
        O = UserType("O")
        o1, o2 = Object("o1", O), Object("o2", O)
        p.add_objects([o1, o2])
        b = Fluent("b", BoolType())
        n = Fluent("n", IntType(0, 3))
        m = Fluent("m", IntType(0, 3))
        q = Fluent("q", BoolType(), o=O)
        p.add_fluent(b, default_initial_value=False)
        p.add_fluent(n, default_initial_value=1)
        p.add_fluent(m)
        p.add_fluent(q, default_initial_value=True)
        self.problem = p
        bools = [FALSE(), TRUE()]
        ints = [Int(i) for i in range(4)]
        self.fexp = [b(), n(), m(), q(o1), q(o2)]
        self.vals = [bools, ints, ints, bools, bools]
        self.index = [{v: i for i, v in enumerate(tab)} for tab in self.vals]
        self.nvals = [len(t) for t in self.vals]
        # projection of the problem's defaults (checked by the judge against the constant Def)
        self.defs = []
        for fe, idx in zip(self.fexp, self.index):
            d = p.fluents_defaults.get(fe.fluent(), None)
            self.defs.append(ND if d is None else idx.get(d, UNKNOWN_VALUE))
        self._classes = {}

    def cls(self, lim):
        """The class of a user-created state: a subclass re-defining MAX_ANCESTORS (the documented way)."""
        if lim not in self._classes:
            self._classes[lim] = type("UPState_%s" % lim, (self.UPState,), {"MAX_ANCESTORS": None if lim == 0 else lim})
        return self._classes[lim]

    def dict_of(self, u):
        return {self.fexp[i]: self.vals[i][x] for i, x in enumerate(u) if x != ABS}


class base_limit:
    """UPState.MAX_ANCESTORS = base for the duration of one replay (make_child always builds
    plain UPState objects, so this class attribute is the limit of every child state)."""

    def __init__(self, world, base):
        self.cls = world.UPState
        self.base = base

    def __enter__(self):
        self.old = self.cls.MAX_ANCESTORS
        self.cls.MAX_ANCESTORS = None if self.base == 0 else self.base

    def __exit__(self, *a):
        self.cls.MAX_ANCESTORS = self.old
        return False


def call(world, states, o, intern):
    """One public call on the real objects; returns (r, x) -- projected result, exception class name."""
    op = o["op"]
    try:
        if op == "new":
            states.append(world.cls(o["lim"])(world.dict_of(o["u"]), world.problem))
            return 0, ""
        if op == "child":
            states.append(states[o["s"] - 1].make_child(world.dict_of(o["u"])))
            return 0, ""
        if op == "hash":
            return intern(hash(states[o["s"] - 1])), ""
        if op == "repr":
            repr(states[o["s"] - 1])
            return 0, ""
        if op == "eq":
            return (1 if (states[o["s"] - 1] == states[o["t"] - 1]) else 0), ""
        if op == "get":
            f = o["f"] - 1
            try:
                v = states[o["s"] - 1].get_value(world.fexp[f])
            except world.Missing:
                return ND, "UPStateMissingFluentError"
            return world.index[f].get(v, UNKNOWN_VALUE), ""
    except ImplTimeout:
        raise
    except Exception as ex:  # an observation, not a crash
        return RAISED, type(ex).__name__
    raise MachineryError("unknown op %r" % (o,))


def shape(world, st, nf):
    """Private data-structure shape, recorded for the (non-verdict) model-drift clause only."""
    try:
        own = st._values
        lim = type(st).MAX_ANCESTORS
        out = [int(st._ancestors), 1 if st._father is None else 0, 0 if st._hash is None else 1, 0 if lim is None else int(lim)]
        for i in range(nf):
            v = own.get(world.fexp[i], None)
            out.append(ABS if v is None else world.index[i].get(v, UNKNOWN_VALUE))
        if any(k not in world.fexp[:nf] for k in own):
            out[4] = UNKNOWN_VALUE  # a key outside the fluent table
        return out
    except Exception:
        return []


def observe(world, states, w, nf, intern, stats, touched):
    """Full observation of the states w (1-based) -- called on a replica only (it condenses).
    The private shape is recorded for the states the call created or was applied to."""
    sts = [states[s - 1] for s in w]
    shs = [shape(world, st, nf) if s in touched else [] for s, st in zip(w, sts)]
    obs = []
    for s, st, sh in zip(w, sts, shs):
        g = []
        for f in range(nf):
            try:
                g.append(world.index[f].get(st.get_value(world.fexp[f]), UNKNOWN_VALUE))
            except world.Missing:
                g.append(ND)
            except ImplTimeout:
                raise
            except Exception:
                g.append(RAISED)
        obs.append({"s": s, "g": g, "h": 0, "e": [], "sh": sh})
    for ob, st in zip(obs, sts):
        try:
            ob["h"] = intern(hash(st))
        except ImplTimeout:
            raise
        except Exception:
            ob["h"] = 0
    for ob, st in zip(obs, sts):
        for st2 in sts:
            try:
                ob["e"].append(1 if (st == st2) else 0)
            except ImplTimeout:
                raise
            except Exception:
                ob["e"].append(2)
    # coverage counters (not verdicts)
    for i, ob in enumerate(obs):
        if ND in ob["g"]:
            stats["obs_missing"] += 1
        if ob["sh"]:
            stats["max_ancestors"] = max(stats["max_ancestors"], ob["sh"][0])
            if ob["sh"][1] == 0:
                stats["obs_linked"] += 1
        stats["obs_eq_true"] += sum(1 for j, e in enumerate(ob["e"]) if e == 1 and j != i)
        stats["obs_eq_false"] += sum(1 for e in ob["e"] if e == 0)
    return obs


def trim(o):
    """Drop the fields the call does not use (the judge reads fields by need)."""
    keep = {"new": ("lim", "u"), "child": ("s", "u"), "hash": ("s",), "repr": ("s",), "eq": ("s", "t"), "get": ("s", "f")}[o["op"]]
    for k in ("s", "t", "f", "lim", "u"):
        if k not in keep:
            o.pop(k, None)
    if not o.get("x"):
        o.pop("x", None)
    return o


def replay(world, base, ops, nf, stats):
    """Run one call history; returns the ops with results and observations (truncated after a
    call that raised something unexpected)."""
    table = {}

    def intern(h):
        return table.setdefault(h, HASH_ID0 + len(table))

    out = []
    with base_limit(world, base):
        main = []
        for k, o in enumerate(ops):
            o = dict(o)
            nbefore = len(main)
            o["r"], o["x"] = call(world, main, o, intern)
            if o["r"] == RAISED:
                o["w"], o["obs"] = [], []
                out.append(trim(o))
                break
            # fresh replica of the prefix, so that the observation does not disturb the history
            rep = []
            dead = False
            for o2 in ops[: k + 1]:
                r2, _ = call(world, rep, o2, intern)
                if r2 == RAISED:
                    dead = True
                    break
            if dead:
                o["r"], o["x"] = RAISED, "replica diverged"
                o["w"], o["obs"] = [], []
                out.append(trim(o))
                break
            touched = {len(rep)} if o["op"] in ("new", "child") else {o["s"], o["t"]}
            o["obs"] = observe(world, rep, o["w"], nf, intern, stats, touched)
            trim(o)
            if o["op"] == "child" and len(main) == nbefore + 1:
                sh = shape(world, main[-1], nf)
                if sh:
                    stats["child_flattened" if sh[1] == 1 else "child_linked"] += 1
            out.append(o)
    return out


def guarded_replay(ctx, world, base, ops, nf, stats):
    try:
        with time_limit(10):
            return replay(world, base, ops, nf, stats)
    except ImplTimeout:
        ctx.violation("impl-nonterminating", "a UPState call history does not terminate within 10 s", {"base": base, "ops": ops})
    finally:
        world.UPState.MAX_ANCESTORS = 20
    return None


# ------------------------------------------------------------------------------------------
# seeded random histories (T3)
# ------------------------------------------------------------------------------------------
RANDOM_CONFIGS = [  # (limits of user-created states, UPState.MAX_ANCESTORS); 0 = None
    ([1], 1), ([2], 2), ([0], 0), ([3], 3), ([20], 20), ([1, 2, 0, 20], 20), ([0, 1, 2, 3], 2), ([2, 0], 1), ([1, 20], 0),
]


def random_dict(rng, world, nf, sizes, recent):
    if recent and rng.random() < 0.15:
        return list(rng.choice(recent))
    u = [ABS] * nf
    for f in rng.sample(range(nf), min(nf, rng.choice(sizes))):
        d = world.defs[f]
        if d != ND and rng.random() < 0.35:
            u[f] = d  # explicit default-valued update
        else:
            u[f] = rng.randrange(world.nvals[f])
    return u


def random_history(rng, world, nf, nops, wmax, chainy=False):
    """chainy: a long single chain (parent = newest state, few condensing calls)."""
    lims, base = rng.choice(RANDOM_CONFIGS)
    ops = []
    n = 0
    roots = 0
    recent = []
    nodef = [f + 1 for f in range(nf) if world.defs[f] == ND]
    for i in range(nops):
        r = rng.random()
        if chainy and r >= 0.04:
            r = 0.05 + 0.6 * rng.random()  # children (57 %), hash (~7 %), no other call
        z = [ABS] * nf
        if n == 0 or (r < 0.04 and roots < 3):
            # user-created state; mostly leaves the no-default fluent unset or set
            u = random_dict(rng, world, nf, [0, 1, 2, 3, nf], recent)
            o = {"op": "new", "s": 0, "t": 0, "f": 0, "lim": rng.choice(lims), "u": u}
            n += 1
            roots += 1
            recent.append(u)
        elif r < 0.62:
            p = n if rng.random() < (0.97 if chainy else 0.6) else rng.randint(1, n)  # deep chains
            u = random_dict(rng, world, nf, [0, 1, 1, 1, 2, 3], recent)
            o = {"op": "child", "s": p, "t": 0, "f": 0, "lim": 0, "u": u}
            n += 1
            recent.append(u)
        elif r < 0.70:
            o = {"op": "hash", "s": rng.randint(1, n), "t": 0, "f": 0, "lim": 0, "u": z}
        elif r < 0.74:
            o = {"op": "repr", "s": rng.randint(1, n), "t": 0, "f": 0, "lim": 0, "u": z}
        elif r < 0.86:
            o = {"op": "eq", "s": rng.randint(1, n), "t": rng.randint(1, n), "f": 0, "lim": 0, "u": z}
        else:
            f = rng.choice(nodef) if (nodef and rng.random() < 0.5) else rng.randint(1, nf)
            o = {"op": "get", "s": rng.randint(1, n), "t": 0, "f": f, "lim": 0, "u": z}
        # observed window: everything while small, else the newest states and a few older ones
        if n <= wmax:
            o["w"] = list(range(1, n + 1))
        else:
            newest = list(range(n - wmax // 2 + 1, n + 1))
            o["w"] = sorted(rng.sample(range(1, n - wmax // 2 + 1), wmax - len(newest)) + newest)
        ops.append(o)
        recent = recent[-6:]
    return base, ops


# ------------------------------------------------------------------------------------------
# judging
# ------------------------------------------------------------------------------------------
def judge(ctx, label, traces, nf, defn, world):
    d = ctx.sub("judge-" + label)
    path = os.path.join(d, "traces.ndjson")
    tlc.write_ndjson(path, traces)
    res = tlc.run_tlc("UPStateSMTrace", TRACE_CFG % {"nf": nf, "defn": defn}, d, env={"TRACES": path}, timeout=3000, workers=WORKERS)
    if res.error or res.violated:
        raise MachineryError("UPStateSMTrace failed: %s %s" % (res.violated, res.error))
    expected = sum(len(t["ops"]) + 1 for t in traces)
    if res.distinct != expected:
        raise MachineryError("trace judge consumed %d states, expected %d" % (res.distinct, expected))
    ctx.add_tlc("trace-" + label, res)
    ctx.cov["traces_validated_against_impl"] += len(traces)
    byid = {t["id"]: t for t in traces}
    drift = 0
    for p in res.printed:
        if p and p[0] == "FAIL" and p[2] in ("obs-set", "config"):
            raise MachineryError("trace %r is malformed: clause %s at call %d" % (p[1], p[2], p[3]))
        if p and p[0] == "FAIL":
            t = byid[p[1]]
            step = p[3]
            o = t["ops"][step - 1] if 1 <= step <= len(t["ops"]) else {}
            sig = "%s|%s" % (p[2], o.get("op", "config"))
            if p[2] == "raises":
                sig += "|" + str(o.get("x", ""))
            ctx.violation(
                sig,
                "UPState history (UPState.MAX_ANCESTORS=%s): clause %s fails at call %d (%s)"
                % (t["base"] or None, p[2], step, o.get("op", "")),
                {"trace": t, "clause": p[2], "step": step, "nf": nf, "fluents": [str(x) for x in world.fexp[:nf]]},
            )
        elif p and p[0] == "DRIFT":
            drift += 1
            if "drift_sample" not in ctx.cov:
                ctx.cov["drift_sample"] = {"trace": byid[p[1]], "step": p[3]}
    return drift


def tag(o):
    return {k: o[k] for k in ("op", "s", "t", "f", "lim", "u", "w")}


def run(ctx):
    q = ctx.quick
    world = World()
    stats = {k: 0 for k in ("obs_missing", "max_ancestors", "obs_linked", "obs_eq_true", "obs_eq_false", "child_flattened", "child_linked")}
    # ---- T1: design check -------------------------------------------------------------
    allp = "{0, 1, 2}"
    if q:
        cfgs = [
            dict(nf=3, defn="Def3", maxn=3, maxroots=1, dicts="DictsOne", lims=allp),
            dict(nf=2, defn="Def2", maxn=3, maxroots=2, dicts="DictsAll", lims=allp),
            dict(nf=2, defn="Def2", maxn=4, maxroots=1, dicts="DictsOne", lims="{2}"),
        ]
    else:
        cfgs = [  # 7.8 M, 10.4 M, 7.9 M, 20.8 M generated states
            dict(nf=3, defn="Def3", maxn=3, maxroots=2, dicts="DictsAll", lims=allp),
            dict(nf=2, defn="Def2", maxn=4, maxroots=1, dicts="DictsAll", lims=allp),
            dict(nf=3, defn="Def3", maxn=4, maxroots=1, dicts="DictsOne", lims=allp),
            dict(nf=2, defn="Def2", maxn=5, maxroots=1, dicts="DictsOne", lims="{2}"),
        ]
    d = ctx.sub("t1")
    for c in cfgs:
        res = tlc.run_tlc("MCUPStateSM", MC_CFG % c, d, timeout=3000)
        if res.error:
            raise MachineryError(res.error)
        ctx.add_tlc("T1 %r" % (c,), res)
        if res.violated:
            ctx.violation(
                "T1|" + res.violated,
                "the implementation-shaped UPState layer violates %s (design-level counterexample)" % res.violated,
                {"config": c, "trace": [s["vars"] for s in res.trace]},
            )
    # vacuity of T1: every branch-action of Next is taken (small configuration, -coverage is slow)
    c = dict(nf=2, defn="Def2", maxn=3, maxroots=1, dicts="DictsAll", lims="{1}")
    res = tlc.run_tlc("MCUPStateSM", MC_CFG % c, d, timeout=3000, coverage=True, workers=WORKERS)
    if res.error or res.violated:
        raise MachineryError("T1 coverage run failed: %s %s" % (res.violated, res.error))
    ctx.add_tlc("T1 coverage %r" % (c,), res)
    for a in T1_ACTIONS:
        if res.coverage.get(a, (0, 0))[1] == 0:
            raise MachineryError("vacuous T1: action %s of UPStateSM never taken" % a)
    ctx.cov["t1_action_coverage"] = {a: res.coverage[a] for a in T1_ACTIONS}

    # ---- T2: TLC-enumerated histories replayed on the real class ----------------------
    nf = 3
    if world.defs[:3] != [0, 1, ND]:
        raise MachineryError("fluent defaults of the driver's Problem are not Def3: %r" % (world.defs,))
    if q:
        enums = [(dict(L=4, maxn=4, maxroots=1, roots="RootsQ", upds="UpdsQ", kinds="KindsAll"), [(1, 1), (2, 2), (0, 0), (2, 20)])]
    else:
        enums = [
            (dict(L=4, maxn=4, maxroots=2, roots="RootsT", upds="UpdsT", kinds="KindsAll"), [(1, 1), (2, 2), (0, 0), (0, 20), (2, 20)]),
            (dict(L=5, maxn=5, maxroots=1, roots="RootsD", upds="UpdsD", kinds="KindsD"), [(1, 1), (2, 2), (0, 0)]),
        ]
    nontrivial = 0
    drift = 0
    tid = 0
    for ei, (ec, configs) in enumerate(enums):
        d = ctx.sub("enum%d" % ei)
        out = os.path.join(d, "hist.ndjson")
        res = tlc.run_tlc("UPStateSMEnum", ENUM_CFG % ec, d, env={"OUT": out}, workers=1, timeout=3000)
        if res.error:
            raise MachineryError(res.error)
        hist = tlc.read_ndjson(out)
        emitted = [p[1] for p in res.printed if p and p[0] == "EMITTED"]
        if not hist or emitted != [len(hist)]:
            raise MachineryError("UPStateSMEnum emitted %r histories, read %d" % (emitted, len(hist)))
        ctx.cov["enumerated_histories_L%d" % ec["L"]] = len(hist)
        pending = []
        for (rootlim, base) in configs:
            traces = []
            for h in hist:
                ops = [dict(tag(o), lim=(rootlim if o["op"] == "new" else 0)) for o in h["ops"]]
                before = (stats["obs_eq_true"], stats["obs_missing"], stats["obs_linked"])
                rops = guarded_replay(ctx, world, base, ops, nf, stats)
                if rops is None:
                    continue
                tid += 1
                traces.append({"id": tid, "base": base, "def": world.defs[:nf], "ops": rops})
                after = (stats["obs_eq_true"], stats["obs_missing"], stats["obs_linked"])
                if after[2] > before[2] and (after[0] > before[0] or after[1] > before[1]):
                    nontrivial += 1
            ctx.cov["evaluations"] += len(traces)
            if traces and (rootlim, base) == (2, 2):
                t = traces[len(traces) // 2]
                ctx.sample({"kind": "enumerated history (root limit 2, UPState.MAX_ANCESTORS 2)", "ops": t["ops"]})
            # one judge run per limit configuration (thorough) / per history family (quick: fewer JVM starts)
            pending += traces
            if pending and (not q or (rootlim, base) == configs[-1]):
                drift += judge(ctx, "enum%d-%s-%s" % (ei, rootlim, base) if not q else "enum%d" % ei, pending, nf, "Def3T", world)
                pending = []

    # ---- T3: seeded long random histories ---------------------------------------------
    nf2 = 5
    if world.defs != [0, 1, ND, 1, 1]:
        raise MachineryError("fluent defaults of the driver's Problem are not Def5: %r" % (world.defs,))
    nr = 400 if q else 2000
    rtr = []
    for i in range(nr):
        nops = ctx.rng.choice([12, 25, 40, 60]) if i % 4 else 60
        base, ops = random_history(ctx.rng, world, nf2, nops, 6, chainy=(i % 8 == 0))
        before = (stats["obs_eq_true"], stats["obs_missing"], stats["obs_linked"])
        rops = guarded_replay(ctx, world, base, ops, nf2, stats)
        if rops is None:
            continue
        rtr.append({"id": 1000000 + i, "base": base, "def": world.defs[:nf2], "ops": rops})
        after = (stats["obs_eq_true"], stats["obs_missing"], stats["obs_linked"])
        if after[2] > before[2] and (after[0] > before[0] or after[1] > before[1]):
            nontrivial += 1
    ctx.cov["evaluations"] += len(rtr)
    ctx.sample({"kind": "random history (UPState.MAX_ANCESTORS %s), first calls" % (rtr[0]["base"] or None), "ops": rtr[0]["ops"][:5]})
    drift += judge(ctx, "random", rtr, nf2, "Def5T", world)

    ctx.cov["distinct_nontrivial"] = nontrivial
    ctx.cov["impl_shape_drift_traces"] = drift
    ctx.cov["replay_stats"] = stats
    ctx.cov["rule"] = (
        "T1: exhaustive BFS of UPStateSM within the stated constants (limits 1, 2, None for user-created states and for "
        "UPState.MAX_ANCESTORS). T2: every call history of the stated length emitted by TLC (UPStateSMEnum: user-created "
        "states, make_child with the listed dictionaries incl. explicit default-valued updates, interleaved hash/repr/"
        "failed get_value/==) replayed under each (root limit, base limit) configuration; T3: %d seeded random histories "
        "of 12-60 calls over 5 ground fluents. After every call a fresh replica of the prefix is fully observed. A history "
        "is counted non-trivial when a state was observed while linked to a father and some pair of distinct states "
        "compared equal or some get_value raised." % nr
    )
    ctx.cov["exhaustive"] = True
    ctx.assumptions += [
        "TLC and the CommunityModules Json reader are trusted",
        "hash values are compared through an injective renaming per trace (TLC integers are 32-bit)",
        "children are plain UPState objects (make_child does not use type(self)); limits of whole trees are therefore "
        "set through the class attribute UPState.MAX_ANCESTORS for the duration of a replay, limits of user-created "
        "states through subclasses",
        "observations are taken on a fresh replica of the history prefix, since hash/==/repr and a failed get_value mutate the object",
        "private attributes (_father, _values, _ancestors, _hash) are read only for coverage counters and the non-verdict model-drift clause",
    ]
    if drift:
        print("NOTE property=C36 the recorded private shape of UPState differs from the Impl layer of UPStateSM in %d trace(s): "
              "the T1 result no longer describes this code's data structure (not a C36 violation)" % drift)
    # vacuity of the binding (only meaningful when the code behaved: violations are reported first)
    if not ctx.violations and not drift:
        floors = {"obs_missing": 1, "obs_linked": 1, "obs_eq_true": 1, "obs_eq_false": 1, "child_flattened": 1, "child_linked": 1}
        for k, v in floors.items():
            if stats[k] < v:
                raise MachineryError("vacuous run: replay counter %s = %d" % (k, stats[k]))
        if stats["max_ancestors"] < 3:
            raise MachineryError("vacuous run: no chain of 3 ancestors was observed (max %d)" % stats["max_ancestors"])
    ctx.cov["default_limit_20_reached"] = stats["max_ancestors"] >= 20
