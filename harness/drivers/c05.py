"""C05 -- time-triggered validation matches the reference temporal semantics.

TGen temporal problems (durative actions with open/closed constant or fluent-dependent duration
intervals, conditions over open/closed/delayed intervals, start/end/intermediate effects, timed effects
and goals, invariants, bounded types) x seeded time-triggered plans on a coarse rational grid (forces
coinciding happenings) -> real TimeTriggeredPlanValidator -> spec/TimeObs.tla (MODE=C05) judges each
status against UPTimeSem!TimeVerdict.
"""
import random
from multiprocessing import Pool

from .. import upj, timeobs
from ..common import MachineryError, time_limit, ImplTimeout
from ..gen import TGen, random_tt_plan
from . import c04


def worker(job):
    pid, P, nplans, seed = job
    from unified_planning.engines.plan_validator import TimeTriggeredPlanValidator

    rng = random.Random(seed)
    rec = {"pid": pid, "P": P, "keys": upj.keys_of(P), "plans": [], "skip": ""}
    try:
        with time_limit(20):
            problem = upj.build(P)
        if not TimeTriggeredPlanValidator.supports(problem.kind):
            rec["skip"] = "unsupported-kind"
            return rec
    except ImplTimeout:
        rec["skip"] = "timeout"
        return rec
    except Exception as ex:
        rec["skip"] = "build:" + type(ex).__name__
        rec["detail"] = str(ex)[:200]
        return rec
    seen = set()
    for _ in range(nplans):
        steps = random_tt_plan(rng, P, 3)
        if not steps or repr(steps) in seen:
            continue
        seen.add(repr(steps))
        r = {"steps": steps, "tt": "", "seq": "", "tt_reason": ""}
        r["tt"], r["tt_reason"], _ = timeobs.validate(TimeTriggeredPlanValidator, problem, timeobs.build_tt_plan(problem, steps))
        rec["plans"].append(r)
    return rec


def run(ctx):
    q = ctx.quick
    n = 260 if q else 3000
    nplans = 10 if q else 16
    g = TGen(ctx.rng)
    corpus = [g.problem() for _ in range(n)]
    jobs = [(i + 1, P, nplans, ctx.seed * 7919 + i) for i, P in enumerate(corpus)]
    with Pool(14, maxtasksperchild=40) as pool:
        recs = pool.map(worker, jobs, chunksize=2)
    skipped = {}
    for r in recs:
        if r["skip"]:
            k = r["skip"]
            skipped[k] = skipped.get(k, 0) + 1
    batch = [r for r in recs if not r["skip"] and r["plans"]]
    if not batch:
        raise MachineryError("no problem could be built: %r" % skipped)
    res, nplans_total = c04.judge(ctx, batch, "C05")
    byid = {r["pid"]: r for r in batch}
    for p in res.printed:
        if p and p[0] == "U":
            ctx.cov["unspecified"] += 1
        elif p and p[0] == "FAIL":
            _, pid, pi, clause = p
            r = byid[pid]
            pl = r["plans"][pi - 1]
            feats = timeobs.plan_features(r["P"], pl["steps"])
            sig = signature(clause, feats)
            ctx.violation(sig, "C05: %s" % clause, {"clause": clause, "features": feats, "problem": r["P"], "plan": pl})
    ctx.cov["evaluations"] = nplans_total
    ctx.cov["traces_validated_against_impl"] = nplans_total
    ctx.cov["distinct_nontrivial"] = sum(1 for r in batch for pl in r["plans"] if pl["tt"] == "VALID" or pl["tt_reason"] == "UNSATISFIED_GOALS")
    ctx.cov["impl_valid"] = sum(1 for r in batch for pl in r["plans"] if pl["tt"] == "VALID")
    ctx.cov["problems_judged"] = len(batch)
    ctx.cov["problems_skipped"] = skipped
    ctx.cov["rule"] = (
        "TGen temporal problems x %d seeded time-triggered plans each (1-3 steps, starts and durations on a coarse rational "
        "grid around the duration bounds); one evaluation = one validated plan judged by UPTimeSem!TimeVerdict; non-trivial = "
        "the implementation found every step applicable (VALID or goals unsatisfied)." % nplans
    )
    ex = next((r for r in batch if any(pl["tt"] == "VALID" for pl in r["plans"])), batch[0])
    ctx.sample({"problem": ex["P"], "plans": [pl for pl in ex["plans"] if pl["tt"] == "VALID"][:2] + ex["plans"][:1]})
    ctx.assumptions += ["TLC, Json reader, harness/upj.py trusted; unspecified zones skipped and counted",
                        "dense-time reading of conditions as stated in spec/UPTimeSem.tla"]


RELEVANT = {
    "bnds": ["bounded"],
    "invs": ["invariant"],
}


def signature(clause, feats):
    """clause + the input features that known findings are keyed on"""
    keep = [f for f in feats if f in ("dupassign", "foralleff", "lopen-cond", "lopen-tgoal", "empty-cond-interval")]
    return clause + ("|" + ",".join(keep) if keep else "")


def replay(ctx, rec):
    from unified_planning.engines.plan_validator import SequentialPlanValidator, TimeTriggeredPlanValidator

    P, pl = rec["data"]["problem"], rec["data"]["plan"]
    problem = upj.build(P)
    r = {"steps": pl["steps"], "tt": "", "seq": "", "tt_reason": "", "seq_reason": ""}
    r["tt"], r["tt_reason"], _ = timeobs.validate(TimeTriggeredPlanValidator, problem, timeobs.build_tt_plan(problem, pl["steps"]))
    if "C05" == "C04":
        steps = sorted(pl["steps"], key=lambda s: timeobs.frac(s["t"]))
        r["seq"], r["seq_reason"], _ = timeobs.validate(SequentialPlanValidator, problem, timeobs.build_seq_plan(problem, steps))
    batch = [{"pid": 1, "P": P, "keys": upj.keys_of(P), "plans": [r]}]
    res, _ = c04.judge(ctx, batch, "C05")
    fails = [p for p in res.printed if p and p[0] == "FAIL"]
    for f in fails:
        print("REPRODUCED property=C05 clause=%s" % f[3])
    if not fails:
        print("replay: no violation on the current tree (tt %s)" % r["tt"])
    return 1 if fails else 0
