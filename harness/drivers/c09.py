"""C09 -- the declared resulting problem kind over-approximates the compiled problem's kind.

C06 corpus -> real compile(); recorded: compiler.resulting_problem_kind(P.kind) and Q.kind ->
spec/CompilerJudge.tla (MODE=C09): every feature of the compiled problem's kind is in the declared
resulting kind (and computing the declared kind does not raise); factory pipelines over ordered
subsets of the compilation kinds accept each intermediate problem (the pipeline raises otherwise).
"""
import itertools
from multiprocessing import Pool

from .. import compobs
from ..common import MachineryError
from ..gen import Gen
from . import c08


def run(ctx):
    q = ctx.quick
    per = 28 if q else 120
    jobs = []
    cid = 0
    for cname in compobs.COMPILERS:
        g = Gen(ctx.rng, **compobs.MASKS[cname])
        for _ in range(per):
            cid += 1
            jobs.append((cid, g.problem(), cname, False))
    # temporal sub-corpus (durative actions, timed effects with nested conditions, timed goals) for the
    # compilers whose supported kind includes temporal problems
    from ..gen import TGen

    tg = TGen(ctx.rng, conditional=True, disjunction=True, negation=True, quantifiers=True, forall_eff=False)
    from ..gen import T
    from ..upj import E

    def temporal_problem():
        P = tg.problem()
        # half of them get a conditional TIMED effect whose condition nests a disjunction under a conjunction
        if ctx.rng.random() < 0.6:
            ef = tg.effect({})
            if ef is not None and not ef["forall"]:
                ef["c"] = E("and", [tg.atom({}, {}), E("or", [tg.atom({}, {}), E("not", [tg.atom({}, {})])])])
                if not any(te["e"]["f"] == ef["f"] for te in P["timed_effects"]):
                    P["timed_effects"].append({"t": T("gstart", ctx.rng.choice([1, 2, 3])), "e": ef})
        return P

    for cname in compobs.COMPILERS:
        for _ in range(max(3, per // 2)):
            cid += 1
            jobs.append((cid, temporal_problem(), cname, False))
    # pipelines: ordered subsets (length 2-3) of the compilation kinds, on problems of the full grammar
    names = [c for c in compobs.COMPILERS if c not in ("tcrm",)]
    g = Gen(ctx.rng)
    pipes = [list(t) for n in (2, 3) for t in itertools.permutations(names, n)]
    ctx.rng.shuffle(pipes)
    for t in pipes[: (40 if q else 400)]:
        cid += 1
        jobs.append((cid, g.problem(), t, False))
    with Pool(14, maxtasksperchild=40) as pool:
        recs = pool.map(compobs.worker, jobs, chunksize=2)
    for r in recs:
        if r["skip"].startswith("HARNESS"):
            raise MachineryError(r.get("detail"))
    compobs.require_coverage(recs)
    batch, fails = c08.judge(ctx, recs, "C09")
    byid = {r["cid"]: r for r in batch}
    for _, cid, clause in fails:
        r = byid[cid]
        comp = "pipeline" if r.get("pipeline") else r["comp"]
        sig = "%s|%s" % (comp, clause)
        if clause == "undeclared-feature-DISJUNCTIVE_CONDITIONS" and comp == "dcrm" and r.get("Q"):
            # known: Dnf treats a quantifier as an atom, so a connective under a quantifier of the input survives;
            # anything else is reported with the places where the compiled problem still has a disjunction
            sig += "|quantified-connective-in-input" if compobs.quantified_connective(r["P"]) else "|" + ",".join(compobs.disjunction_sites(r["Q"]))
        if clause.startswith("pipeline-"):
            sig = "pipeline|%s|%s" % (clause, r["detail"][:60].split(" cannot")[0])
        ctx.violation(sig, "C09 %s: %s %s" % (r["comp"], clause, r["detail"][:100]),
                      {"compiler": r["comp"], "clause": clause, "declared": r.get("declared"), "qkind": r.get("qkind"), "pkind": r.get("pkind"),
                       "detail": r["detail"], "problem": r["P"]})
    c08.stats(ctx, recs, batch)
    ctx.cov["rule"] = (
        "per compiler %d G2 problems + factory pipelines over ordered subsets (2-3) of the compilation kinds; one evaluation "
        "= one compilation whose declared and actual kinds are compared feature by feature by TLC; non-trivial = compilations "
        "that returned a problem." % per
    )
    ex = next((r for r in batch if r["raised"] == "none" and not r.get("pipeline")), batch[0])
    ctx.sample({"compiler": ex["comp"], "declared": ex.get("declared"), "qkind": ex.get("qkind")})
    ctx.assumptions += ["TLC, Json reader trusted", "the kind of the compiled problem is the implementation's own Problem.kind (C10 checks that kind against an independent extractor)"]


def replay(ctx, rec):
    return c08.replay_common(ctx, rec, "C09")
