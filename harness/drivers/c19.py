"""C19 -- ANML write/read round trip preserves problem semantics.

G2 problems in the ANML fragment (harness/gen.py: typed classical, numeric and temporal problems; with and
without adversarial identifiers -- ANML keywords, case variants, leading digits, symbols, names equal to
mangled forms -- applied by a pure renaming of the UPJ value) are built through the public API, written
with the real ANMLWriter(problem).get_problem(), read back with the real ANMLReader().parse_problem_string,
projected (harness/upj.project) and renamed back to the original identifiers with the WRITER'S OWN name
table (the dict ANMLWriter fills while it writes; it is not exposed, so the driver captures it where the
writer hands it to its expression converter -- nothing in /repo is changed).

Python only builds, calls, projects and renames; every verdict is a TLA+ definition evaluated by TLC:
  * spec/Bisim.tla          A vs re-read B on every state reachable in A to the depth bound
                            (objects, initial state, applicability, successors, goal verdicts)
  * spec/AnmlRoundTrip.tla  rule (iii): the reader failing on the writer's output is a violation;
                            names of the re-read problem; SameTemporalStructure(A, B); agreement of
                            UPTimeSem!TimeVerdict of A and B on seeded time-triggered plans.

Known-finding signatures:  <clause>|<construct class>.  For a parse failure the construct class is the first
class (fixed priority) of `unparsable_constructs(P)`, computed from the ORIGINAL problem only (its UPJ and its
expressions as the writer prints them, i.e. simplified), so a parse failure on a problem without these constructs
has the signature `parse-fails|none|<exception>` and is reported.  Half of the corpus is generated free of these
constructs so that the comparison itself is exercised; a few of those are read with ANMLReader(Environment())
(class `reader-environment`).
"""
import os
import random
import re
import traceback
import warnings
from fractions import Fraction
from multiprocessing import Pool

from .. import tlc, upj, simobs, timeobs
from ..common import MachineryError, time_limit, ImplTimeout
from ..gen import Gen, TGen, ground_actions, random_tt_plan

CFG = "SPECIFICATION Spec\nINVARIANT Judge\n"
CFG_BISIM = "SPECIFICATION Spec\nINVARIANT Equivalent\n"
NPROC = 8


# ----------------------------------------------------------------------------------------
# pure renaming of UPJ values (structure only)
# ----------------------------------------------------------------------------------------
def _r_type(t, ren):
    if t["k"] == "user":
        return {"k": "user", "name": ren("type", t["name"])}
    return t


def _r_val(v, ren):
    if v["k"] == "o":
        return {"k": "o", "o": ren("object", v["o"])}
    return v


def _r_vars(vs, ren):
    return [{"name": ren("var", v["name"]), "type": _r_type(v["type"], ren)} for v in vs]


def _r_expr(e, ren):
    op = e["op"]
    out = {"op": op, "args": [_r_expr(a, ren) for a in e["args"]], "name": e["name"], "v": _r_val(e["v"], ren),
           "vars": _r_vars(e["vars"], ren)}
    if op == "obj":
        out["name"] = ren("object", e["name"])
    elif op == "fluent":
        out["name"] = ren("fluent", e["name"])
    elif op == "param":
        out["name"] = ren("param", e["name"])
    elif op == "var":
        out["name"] = ren("var", e["name"])
    return out


def _r_eff(ef, ren):
    return {"kind": ef["kind"], "f": {"name": ren("fluent", ef["f"]["name"]), "args": [_r_expr(a, ren) for a in ef["f"]["args"]]},
            "v": _r_expr(ef["v"], ren), "c": _r_expr(ef["c"], ren), "forall": _r_vars(ef["forall"], ren)}


def _r_action(a, ren):
    out = dict(a)
    out["name"] = ren("action", a["name"])
    out["params"] = [{"name": ren("param", p["name"]), "type": _r_type(p["type"], ren)} for p in a["params"]]
    out["pre"] = [_r_expr(c, ren) for c in a["pre"]]
    if a["kind"] == "dur":
        out["effects"] = [{"t": te["t"], "e": _r_eff(te["e"], ren)} for te in a["effects"]]
        out["conds"] = [{"iv": c["iv"], "c": _r_expr(c["c"], ren)} for c in a["conds"]]
        d = a["dur"]
        out["dur"] = {"lo": _r_expr(d["lo"], ren), "hi": _r_expr(d["hi"], ren), "lopen": d["lopen"], "ropen": d["ropen"]}
    else:
        out["effects"] = [_r_eff(e, ren) for e in a["effects"]]
    return out


def rename_upj(P, ren):
    """P with every identifier n of kind k replaced by ren(k, n)  (k: type object fluent action param var)"""
    Q = {"name": P["name"]}
    Q["types"] = [{"name": ren("type", t["name"]), "parent": ren("type", t["parent"]) if t["parent"] else ""} for t in P["types"]]
    Q["objects"] = [{"name": ren("object", o["name"]), "type": ren("type", o["type"])} for o in P["objects"]]
    Q["fluents"] = [{"name": ren("fluent", f["name"]), "type": _r_type(f["type"], ren),
                     "sig": [{"name": ren("param", p["name"]), "type": _r_type(p["type"], ren)} for p in f["sig"]],
                     "default": _r_val(f["default"], ren)} for f in P["fluents"]]
    Q["init"] = [{"f": ren("fluent", i["f"]), "args": [_r_val(a, ren) for a in i["args"]], "v": _r_val(i["v"], ren)} for i in P["init"]]
    Q["actions"] = [_r_action(a, ren) for a in P["actions"]]
    Q["goals"] = [_r_expr(g, ren) for g in P["goals"]]
    Q["invariants"] = [_r_expr(g, ren) for g in P.get("invariants", [])]
    Q["traj"] = [_r_expr(g, ren) for g in P.get("traj", [])]
    Q["timed_goals"] = [{"iv": tg["iv"], "g": _r_expr(tg["g"], ren)} for tg in P.get("timed_goals", [])]
    Q["timed_effects"] = [{"t": te["t"], "e": _r_eff(te["e"], ren)} for te in P.get("timed_effects", [])]
    m = P["metric"]
    Q["metric"] = {"kind": m["kind"], "costs": [{"a": ren("action", c["a"]), "c": _r_expr(c["c"], ren)} for c in m["costs"]],
                   "default": _r_expr(m["default"], ren), "expr": _r_expr(m["expr"], ren),
                   "goals": [{"g": _r_expr(g["g"], ren), "w": g["w"]} for g in m["goals"]]}
    Q["nmetrics"] = P.get("nmetrics", 0)
    Q["ifuns"] = P.get("ifuns", [])
    return Q


# ----------------------------------------------------------------------------------------
# adversarial identifiers (the generator emits t0 o1 f2 a3 p0 x y v0 w)
# ----------------------------------------------------------------------------------------
ADV = {
    # ANML keywords (anml_grammar.py tokens and the writer's ANML_KEYWORDS), also in other cases
    "kw": ["action", "and", "constant", "duration", "else", "fact", "fluent", "function", "goal", "in", "instance", "when",
           "with", "exists", "forall", "implies", "iff", "not", "or", "xor", "UNDEFINED", "all", "end", "false", "infinity",
           "object", "start", "true", "boolean", "float", "rational", "integer", "string", "type", "set", "predicate",
           "variable", "contains", "motivated", "AND", "When", "START", "End", "True", "Forall", "Duration", "Integer", "ALL"],
    "upper": ["A", "a", "Move", "move", "MOVE", "ON", "On", "on", "Loc", "loc", "X", "x", "T", "t", "B", "b"],
    "digit": ["1a", "2", "007", "3_x", "9b", "0", "42nd", "1A"],
    # not identifiers, and NOT starting with a letter: the writer has to mangle them
    "mangle": ["#t", "?v", "(q)", "_u", "-m", "__", "_", "été", "9-b", "_when", "$x", "[k]", "{z}", "'q", "1.5", "-1"],
    # names equal to what mangling produces for another name
    "mangled": ["when_", "and_", "start_", "end__", "a_0", "a_1", "f_0", "f_1", "o_0", "o_1", "p_0", "x_0", "x_1", "w_0", "v0_0",
                "a_b", "a__b", "f__t", "o_2", "a_2", "x_", "t0_0", "f_007", "o_1a"],
    # start with a letter but contain a character outside [A-Za-z0-9_] (C38: emitted verbatim by the writer)
    "symbol": ["a.b", "a b", "a-b", "x@y", "p/q", "c:d", "a,b", "a+b", "x'", "a.b.c", "né", "q?", "k;"],
}


def adversarial_names(P, rng, strength=0.7, symbols=0.0):
    """a consistent renaming of P to adversarial identifiers; names stay pairwise distinct (unified-planning
    rejects two items with one name) but may collide after mangling."""
    used = set()
    table = {}
    pool = ADV["kw"] + ADV["upper"] + ADV["digit"] + ADV["mangle"] + ADV["mangled"]

    def draw():
        if symbols and rng.random() < symbols:
            return rng.choice(ADV["symbol"])
        return rng.choice(pool)

    def pick(kind, name):
        key = (kind, name)
        if key in table:
            return table[key]
        new = name
        if rng.random() < strength:
            for _ in range(20):
                cand = draw()
                if cand not in used:
                    new = cand
                    break
        if new in used:
            new = name
        used.add(new)
        table[key] = new
        return new

    for t in P["types"]:
        pick("type", t["name"])
    for o in P["objects"]:
        pick("object", o["name"])
    for f in P["fluents"]:
        pick("fluent", f["name"])
    for a in P["actions"]:
        pick("action", a["name"])
    # reserve the generated spellings of parameters / variables so that a picked name never equals one of them
    for k in ("x", "y", "w", "p0", "p1", "v0", "v1", "v2"):
        used.add(k)

    def ren(kind, name):
        if kind in ("param", "var"):
            key = ("pv", name)
            if key not in table:
                new = name
                if rng.random() < strength:
                    for _ in range(20):
                        cand = rng.choice(pool)
                        if cand not in used:
                            new = cand
                            break
                used.add(new)
                table[key] = new
            return table[key]
        return pick(kind, name)

    return rename_upj(P, ren)


# ----------------------------------------------------------------------------------------
# construct classes of the input (deterministic; keys of the known-finding signatures)
# ----------------------------------------------------------------------------------------
_ATOMS = ("fluent", "param", "var", "const", "obj")
_QUANT = ("exists", "forall")


def _walk(e):
    yield e
    for a in e["args"]:
        for x in _walk(a):
            yield x


def _iff_unparsable(e):
    """an `iff` one of whose operands is printed as something the relational level of the grammar rejects:
    (x and y), (x or y), (x implies y), a quantifier, or (not atom)"""
    return e["op"] == "iff" and any(
        a["op"] in ("and", "or", "implies") + _QUANT or (a["op"] == "not" and a["args"][0]["op"] in _ATOMS) for a in e["args"])


def written_exprs(problem):
    """(role, UPJ expression) for every expression ANMLWriter prints, AS IT PRINTS THEM: the writer passes every
    expression through the environment's simplifier first (ConverterToANMLString.convert), so the construct
    classes are computed on the simplified expressions.  role 'when' = condition of an effect."""
    from unified_planning.model import InstantaneousAction

    simp = problem.environment.simplifier.simplify

    def effs(el):
        for ef in el:
            yield "when", ef.condition
            yield "value", ef.value

    def gen():
        for a in problem.actions:
            if isinstance(a, InstantaneousAction):
                for c in a.preconditions:
                    yield "cond", c
                for x in effs(a.effects):
                    yield x
            else:
                for cl in a.conditions.values():
                    for c in cl:
                        yield "cond", c
                for el in a.effects.values():
                    for x in effs(el):
                        yield x
        for el in problem.timed_effects.values():
            for x in effs(el):
                yield x
        for g in problem.goals:
            yield "cond", g
        for gl in problem.timed_goals.values():
            for g in gl:
                yield "cond", g
        for g in problem.state_invariants:
            yield "cond", g

    for role, e in gen():
        yield role, upj.p_expr(simp(e))


_IDENT = re.compile(r"^[A-Za-z_][A-Za-z0-9_]*$")
# fixed priority: the first class present names the parse failure
UNPARSABLE = ("name-with-symbol", "bounded-real", "bounded-int-negative", "iff-compound", "quantifier-first-operand",
              "when-quantifier", "when-not-compound")


def unparsable_constructs(P, problem):
    """the construct classes of P (built as `problem`) that ANMLReader cannot parse in ANMLWriter's output (notes/C19.md)"""
    fs = set()
    names = [t["name"] for t in P["types"]] + [o["name"] for o in P["objects"]] + [f["name"] for f in P["fluents"]] + \
            [a["name"] for a in P["actions"]]
    if any(re.match(r"^[a-zA-Z]", n) and not _IDENT.match(n) for n in names):
        fs.add("name-with-symbol")
    for f in P["fluents"]:
        t = f["type"]
        if t["k"] == "real" and (t["lo"]["k"] != "none" or t["hi"]["k"] != "none"):
            ok = all(b["k"] != "none" and b["n"] >= 0 and b["d"] == 1 for b in (t["lo"], t["hi"]))
            if not ok:
                fs.add("bounded-real")
        if t["k"] == "int" and any(b["k"] != "none" and b["n"] < 0 for b in (t["lo"], t["hi"])):
            fs.add("bounded-int-negative")
    for role, e in written_exprs(problem):
        for x in _walk(e):
            if _iff_unparsable(x):
                fs.add("iff-compound")
            if x["op"] in ("and", "or", "implies", "iff") and x["args"][0]["op"] in _QUANT:
                fs.add("quantifier-first-operand")
        if role == "when":
            if e["op"] in _QUANT:
                fs.add("when-quantifier")
            if e["op"] == "not" and e["args"][0]["op"] not in _ATOMS:
                fs.add("when-not-compound")
    return [c for c in UNPARSABLE if c in fs]


def constructs_of(P):
    """unparsable_constructs of P, or None when P cannot be built"""
    try:
        with time_limit(300):
            return unparsable_constructs(P, upj.build(P))
    except ImplTimeout:
        return None
    except Exception:
        return None


# clauses that the loss of state invariants (written `[ all ] e;`, read back as a timed goal over [start, end]) can trigger
INV_CLAUSES = ("applicability-A-inv-B-ok", "initial-state-validity-differs", "instantaneous-step-A-inv-B-ok", "invariants-A-F-B-T",
               "timed-goal-A-T-B-F", "timed-goal-interval-invented", "timed-goals-invented",
               "plan-validity-A-INVALID-invs-B-VALID-ok", "plan-validity-A-INVALID-init-B-VALID-ok")


def semantic_features(clause, P):
    """features of the input the semantic known findings are keyed on (only for the clauses the feature can explain)"""
    fs = []
    if P.get("invariants") and clause in INV_CLAUSES:
        fs.append("invariants")
    return fs


# ----------------------------------------------------------------------------------------
# the round trip on the real code
# ----------------------------------------------------------------------------------------
def _exc(ex):
    return type(ex).__name__


def _msg(ex):
    return re.sub(r"\s+", " ", str(ex))[:300]


def write_with_table(problem):
    """ANMLWriter(problem).get_problem() and the writer's own name table {model item: ANML name}.

    The table is a local of ANMLWriter._write_problem; the writer passes that very dict to its
    ConverterToANMLString, which is where it is observed (a subclass installed for the duration of the call)."""
    import unified_planning.io.anml_writer as aw

    seen = []
    orig = aw.ConverterToANMLString

    class Observed(orig):
        def __init__(self, names_mapping, environment):
            seen.append(names_mapping)
            orig.__init__(self, names_mapping, environment)

    aw.ConverterToANMLString = Observed
    try:
        text = aw.ANMLWriter(problem).get_problem()
    finally:
        aw.ConverterToANMLString = orig
    return text, (seen[0] if seen else None)


def _kind_of(item):
    import unified_planning as up

    if isinstance(item, up.model.Type):
        return "type" if item.is_user_type() else None
    if isinstance(item, up.model.Action):
        return "action"
    if isinstance(item, up.model.Fluent):
        return "fluent"
    if isinstance(item, up.model.Object):
        return "object"
    if isinstance(item, up.model.Parameter):
        return "param"
    if isinstance(item, up.model.Variable):
        return "var"
    return None


class BackRenamer:
    """ANML name -> original name, per kind, from the writer's table (pure look-up)"""

    def __init__(self, table):
        self.back = {}
        self.coll = []
        self.miss = []
        for item, anml in table.items():
            k = _kind_of(item)
            if k is None:
                continue
            d = self.back.setdefault(k, {})
            orig = item.name
            if anml in d and d[anml] != orig:
                self.coll.append("%s:%s" % (k, anml))
            d[anml] = orig

    def __call__(self, kind, name):
        d = self.back.get(kind, {})
        if name in d:
            return d[name]
        if (kind, name) not in self.miss:
            self.miss.append((kind, name))
        return name


def _read(text, fresh_env):
    from unified_planning.io import ANMLReader

    if fresh_env:
        from unified_planning.environment import Environment

        return ANMLReader(Environment()).parse_problem_string(text, "reread")
    return ANMLReader().parse_problem_string(text, "reread")


def round_trip(P, limit, want_fresh_env=False, force_env=None):
    """write P, read it back, project and rename back.  Exceptions are observations.
    want_fresh_env: read with ANMLReader(Environment()) -- honoured only when P is free of the unparsable construct
    classes (unambiguous signature); force_env (replay) overrides."""
    R = {"wexc": "none", "wmsg": "", "text": "", "rexc": "none", "rmsg": "", "rwhere": "", "B": None, "miss": [], "coll": [],
         "skip": "", "constructs": [], "fresh_env": False}
    try:
        with time_limit(limit):
            problem = upj.build(P)
            R["constructs"] = unparsable_constructs(P, problem)
    except ImplTimeout:
        R["skip"] = "build-timeout"
        return R, None
    except Exception as ex:
        R["skip"] = "build:" + _exc(ex)
        R["detail"] = _msg(ex)
        return R, None
    fresh_env = (want_fresh_env and not R["constructs"]) if force_env is None else bool(force_env)
    R["fresh_env"] = fresh_env
    try:
        with time_limit(limit):
            text, table = write_with_table(problem)
        R["text"] = text
    except ImplTimeout:
        R["wexc"] = "TIMEOUT"
        return R, problem
    except Exception as ex:
        R["wexc"], R["wmsg"] = _exc(ex), _msg(ex)
        return R, problem
    if table is None:
        R["skip"] = "HARNESS:writer-table-not-observed"
        return R, problem
    q = None
    try:
        with warnings.catch_warnings():
            warnings.simplefilter("ignore")
            with time_limit(limit):
                q = _read(text, fresh_env)
    except ImplTimeout:
        R["rexc"] = "TIMEOUT"
    except RecursionError as ex:
        R["rexc"], R["rmsg"] = _exc(ex), ""
    except Exception as ex:
        R["rexc"], R["rmsg"] = _exc(ex), _msg(ex)
        tb = traceback.extract_tb(ex.__traceback__)
        R["rwhere"] = ">".join("%s:%s" % (os.path.basename(f.filename), f.name) for f in tb[-3:])
    if q is not None:
        back = BackRenamer(table)
        R["coll"] = back.coll
        try:
            R["B"] = rename_upj(upj.project(q), back)
            R["miss"] = ["%s:%s" % m for m in back.miss]
            upj.keys_of(R["B"])
        except Exception as ex:
            R["rexc"], R["rmsg"], R["B"] = "PROJECT", "%s: %s" % (_exc(ex), _msg(ex)), None
    return R, problem


# ----------------------------------------------------------------------------------------
# corpus
# ----------------------------------------------------------------------------------------
# ANML has no quality metrics, trajectory constraints or interpreted functions (generator restrictions: outside the fragment)
BASE = dict(metric=None, traj=False, ifuns=False, boolconst=False)
MASKS = {
    "cls": dict(BASE, numeric=False, invariants=False),
    "num": dict(BASE, bounded=False, invariants=False),
    "bnd": dict(BASE, bounded=True, real=True, invariants=False, objfluents=False),
    "inv": dict(BASE, bounded=False, invariants=True, objfluents=False, max_actions=3),
}
TMASK = dict(BASE, bounded=False, invariants=False, quantifiers=True, forall_eff=True, conditional=True)
TEMPORAL = ("tmp", "tobj", "tinv")
TMASK2 = dict(TMASK, objfluents=True, hier=True, max_objects=3)


class _Shallow:
    """generator restriction (speed only): ANMLReader's pyparsing grammar needs time exponential in the nesting depth
    of parentheses (30 s of CPU for one goal of depth 5), so part of the corpus caps the expression depth"""
    cap_b = 1
    cap_n = 1

    def bool_expr(self, depth, params, vs, noconst=False):
        return super().bool_expr(min(depth, self.cap_b), params, vs, noconst)

    def num_expr(self, depth, params, vs, intonly=False, nodiv=True):
        return super().num_expr(min(depth, self.cap_n), params, vs, intonly, nodiv)


class SGen(_Shallow, Gen):
    pass


class STGen(_Shallow, TGen):
    pass


def _fresh(g, want_clean, need_inv=False, tries=80):
    """a generated problem; want_clean: free of the constructs the reader is known not to parse"""
    P = g.problem()
    for _ in range(tries):
        if (not need_inv or P["invariants"]) and (not want_clean or constructs_of(P) == []):
            return P
        P = g.problem()
    return P


def make_corpus(rng, counts, deep_every=0):
    """[(slice, P)]; every random choice comes from rng.  deep_every = n: every n-th problem uses the unrestricted
    expression depth of harness/gen.py (0: none)"""
    out = []
    gens, deep = {}, {}
    for k, m in MASKS.items():
        gens[k], deep[k] = SGen(rng, **m), Gen(rng, **m)
    gens["tmp"], deep["tmp"] = STGen(rng, **TMASK), TGen(rng, **TMASK)
    gens["tobj"], deep["tobj"] = STGen(rng, **TMASK2), TGen(rng, **TMASK2)
    gens["tinv"], deep["tinv"] = STGen(rng, **dict(TMASK, invariants=True)), TGen(rng, **dict(TMASK, invariants=True))
    for sl in ("cls", "num", "bnd", "inv", "tmp", "tobj", "tinv"):
        for i in range(counts.get(sl, 0)):
            g = deep[sl] if deep_every and i % deep_every == deep_every - 1 else gens[sl]
            P = _fresh(g, want_clean=(i % 2 == 0), need_inv=sl in ("inv", "tinv"))
            if i % 3 == 1:
                P = adversarial_names(P, rng, 0.7)
            elif i % 12 == 5:
                P = adversarial_names(P, rng, 0.5, symbols=0.25)
            out.append((sl, P))
    return out


# ----------------------------------------------------------------------------------------
# plans / depth bound (generator heuristics on the real simulator / validator; validity is decided by TLC)
# ----------------------------------------------------------------------------------------
def _safe_depth(P, problem, L):
    """the largest depth <= L up to which every state reachable in the real simulator keeps small numbers
    (TLC's integers are 32 bit); only bounds TLC's exploration"""
    from unified_planning.engines.sequential_simulator import UPSequentialSimulator

    gas = ground_actions(P)
    if not gas:
        return L
    keys = upj.keys_of(P)
    acts = [(problem.action(g["a"]), simobs._params(problem, problem.action(g["a"]), g["args"])) for g in gas]
    safe = 0
    try:
        sim = UPSequentialSimulator(problem, error_on_failed_checks=False)
        s0 = sim.get_initial_state()
        vec0 = upj.state_vector(s0, problem, keys)
        if simobs._big(vec0):
            return 0
        seen = {repr(vec0)}
        frontier = [s0]
        for depth in range(1, L + 1):
            nxt = []
            big = False
            for st in frontier:
                for (a, params) in acts:
                    try:
                        ns = sim.apply(st, a, params)
                    except Exception:
                        sim = UPSequentialSimulator(problem, error_on_failed_checks=False)
                        ns = None
                    if ns is None:
                        continue
                    vec = upj.state_vector(ns, problem, keys)
                    if simobs._big(vec):
                        big = True
                    kx = repr(vec)
                    if kx not in seen:
                        seen.add(kx)
                        nxt.append(ns)
            if big:
                break
            safe = depth
            if not nxt:
                return L
            if len(seen) > 500:
                break
            frontier = nxt
    except Exception:
        pass
    return safe


def _tt_plans(P, problem, rng, k):
    from unified_planning.engines.plan_validator import TimeTriggeredPlanValidator

    valid, other, seen = [], [], set()
    for _ in range(4 * k):
        steps = random_tt_plan(rng, P, 3)
        if not steps or repr(steps) in seen:
            continue
        seen.add(repr(steps))
        try:
            st, _, _ = timeobs.validate(TimeTriggeredPlanValidator, problem, timeobs.build_tt_plan(problem, steps), limit=10)
        except Exception:
            st = "X"
        (valid if st == "VALID" else other).append(steps)
    return (valid[: max(1, k - 1)] + other)[:k]


def worker(job):
    cid, slice_, P, L, k, seed, limit = job[:7]
    force_env = job[7] if len(job) > 7 else None
    rng = random.Random(seed)
    rec = {"cid": cid, "slice": slice_, "P": P, "skip": "", "safe": 0, "R": None, "plans": [], "constructs": [], "fresh_env": False}
    try:
        temporal = slice_ in TEMPORAL
        R, problem = round_trip(P, limit, want_fresh_env=(cid % 8 == 7), force_env=force_env)
        rec["constructs"], rec["fresh_env"] = R["constructs"], R["fresh_env"]
        if R["skip"]:
            rec["skip"] = R["skip"]
            rec["detail"] = R.get("detail", "")
            return rec
        rec["R"] = R
        if R["B"] is not None:
            try:
                with time_limit(90):
                    if temporal:
                        rec["plans"] = _tt_plans(P, problem, rng, k)
                    else:
                        rec["safe"] = _safe_depth(P, problem, L)
            except ImplTimeout:
                pass
    except Exception as ex:  # harness error: machinery failure in the driver
        rec["skip"] = "HARNESS:" + _exc(ex)
        rec["detail"] = traceback.format_exc()[-1500:]
    return rec


# ----------------------------------------------------------------------------------------
# judging (TLC)
# ----------------------------------------------------------------------------------------
def build_batches(recs, D):
    """-> (batch for AnmlRoundTrip, {depth: Bisim batch}, index cid -> rec)"""
    rt, bis, index = [], {}, {}
    for rec in recs:
        if rec["skip"]:
            continue
        P, R = rec["P"], rec["R"]
        akeys = upj.keys_of(P)
        temporal = rec["slice"] in TEMPORAL
        cid = rec["cid"]
        r = {"cid": cid, "A": P, "akeys": akeys, "B": P, "bkeys": akeys, "hasB": False, "wexc": R["wexc"], "rexc": R["rexc"],
             "nmiss": len(R["miss"]), "ncoll": len(R["coll"]), "temporal": temporal, "plans": []}
        if R["B"] is not None:
            bkeys = upj.keys_of(R["B"])
            r.update(B=R["B"], bkeys=bkeys, hasB=True)
            if temporal:
                r["plans"] = [{"steps": s} for s in rec["plans"]]
            else:
                d = D if rec["safe"] >= D else min(rec["safe"], 1)
                bis.setdefault(d, []).append({"cid": cid, "A": P, "B": R["B"], "akeys": akeys, "bkeys": bkeys, "depth": d})
        rt.append(r)
        index[cid] = rec
    return rt, bis, index


def run_judges(ctx, rt, bis):
    """returns (fails [(cid, pi, clause, detail)], tallies, valid plans, unspecified, bisimulated pairs)"""
    fails, tallies, valid, unspec = [], {}, set(), 0
    d = ctx.sub("roundtrip")
    path = os.path.join(d, "batch.ndjson")
    tlc.write_ndjson(path, rt)
    res = tlc.run_tlc("AnmlRoundTrip", CFG, d, env={"BATCH": path}, workers=8, timeout=3000, heap="12g")
    if res.error or res.violated:
        raise MachineryError("AnmlRoundTrip failed: %s %s" % (res.violated, (res.error or "")[-3000:]))
    expect = sum(1 + len(r["plans"]) for r in rt)
    if res.distinct != expect:
        raise MachineryError("AnmlRoundTrip consumed %d of %d (record, plan) pairs" % (res.distinct, expect))
    ctx.add_tlc("AnmlRoundTrip", res)
    seen = set()
    for p in res.printed:
        if not p:
            continue
        if p[0] == "FAIL":
            k = (p[1], p[2], p[3])
            if k not in seen:
                seen.add(k)
                fails.append((p[1], p[2], p[3], p[4]))
        elif p[0] == "T":
            tallies[p[2]] = tallies.get(p[2], 0) + 1
        elif p[0] == "V":
            valid.add((p[1], p[2]))
        elif p[0] == "U":
            unspec += 1
    nb = 0
    for depth in sorted(bis):
        batch = bis[depth]
        d = ctx.sub("bisim-%d" % depth)
        path = os.path.join(d, "batch.ndjson")
        tlc.write_ndjson(path, batch)
        res = tlc.run_tlc("Bisim", CFG_BISIM, d, env={"BATCH": path}, workers=8, timeout=3000, heap="12g")
        if res.error or res.violated:
            raise MachineryError("Bisim failed: %s %s" % (res.violated, (res.error or "")[-3000:]))
        m = re.search(r"Finished computing initial states: (\d+) distinct state", res.stdout)
        if not m or int(m.group(1)) != len(batch):
            raise MachineryError("Bisim started from %s of %d pairs" % (m.group(1) if m else "?", len(batch)))
        ctx.add_tlc("Bisim-depth-%d" % depth, res)
        nb += len(batch)
        seen = set()
        for p in res.printed:
            if p and p[0] == "FAIL":
                k = (p[1], p[2])
                if k not in seen:
                    seen.add(k)
                    fails.append((p[1], -1, p[2], p[3]))
    return fails, tallies, valid, unspec, nb


def signature(clause, detail, rec):
    if clause == "parse-fails":
        if rec["constructs"]:
            return "parse-fails|" + rec["constructs"][0]
        if rec["fresh_env"]:
            return "parse-fails|reader-environment|" + str(detail)
        return "parse-fails|none|" + str(detail)
    feats = semantic_features(clause, rec["P"])
    return clause + ("|" + ",".join(feats) if feats else "")


def judge_and_report(ctx, recs, D):
    rt, bis, index = build_batches(recs, D)
    if not rt:
        raise MachineryError("no problem could be built")
    fails, tallies, valid, unspec, nb = run_judges(ctx, rt, bis)
    for (cid, pi, clause, detail) in fails:
        rec = index[cid]
        R = rec["R"]
        sig = signature(clause, detail, rec)
        data = {"clause": clause, "detail": detail, "slice": rec["slice"], "unparsable_constructs": rec["constructs"],
                "read_with_fresh_environment": rec["fresh_env"],
                "problem": rec["P"], "anml": R["text"], "writer_exception": [R["wexc"], R["wmsg"]],
                "reader_exception": [R["rexc"], R["rmsg"], R["rwhere"]], "reread": R["B"], "unknown_names": R["miss"],
                "colliding_names": R["coll"]}
        if pi > 0:
            data["plan"] = rec["plans"][pi - 1]
        ctx.violation(sig, "C19 %s %s (%s)" % (clause, detail, ",".join(data["unparsable_constructs"]) or "-"), data)
    return rt, tallies, valid, unspec, nb


def run(ctx):
    q = ctx.quick
    counts = dict(cls=8, num=10, bnd=4, inv=3, tmp=10, tobj=4, tinv=3) if q else dict(cls=50, num=60, bnd=20, inv=14, tmp=60, tobj=24, tinv=12)
    D = 3 if q else 4
    k = 3 if q else 5
    limit = 150 if q else 400
    corpus = make_corpus(ctx.rng, counts, deep_every=0 if q else 3)
    jobs = [(i + 1, sl, P, D, k, ctx.seed * 7919 + i, limit) for i, (sl, P) in enumerate(corpus)]
    with Pool(NPROC, maxtasksperchild=20) as pool:
        recs = pool.map(worker, jobs, chunksize=1)
    skipped = {}
    for r in recs:
        if r["skip"]:
            skipped[r["skip"]] = skipped.get(r["skip"], 0) + 1
            if r["skip"].startswith("HARNESS"):
                raise MachineryError("driver error: %s" % r.get("detail"))
    rt, tallies, valid, unspec, nb = judge_and_report(ctx, recs, D)
    nplans = sum(len(r["plans"]) for r in rt)
    nread = sum(1 for r in rt if r["hasB"])
    if nread == 0:
        raise MachineryError("vacuous run: no problem was read back")
    ctx.cov["unspecified"] += unspec + tallies.get("reader-timeout", 0)
    ctx.cov["evaluations"] = len(rt) + nplans
    ctx.cov["traces_validated_against_impl"] = nread + nplans
    ctx.cov["distinct_nontrivial"] = nb + sum(1 for r in rt if r["hasB"] and r["temporal"]) + len(valid)
    ctx.cov["problems"] = {sl: sum(1 for s, _ in corpus if s == sl) for sl in counts}
    ctx.cov["problems_skipped"] = skipped
    ctx.cov["reread_ok"] = nread
    ctx.cov["bisimulated_pairs"] = nb
    ctx.cov["temporal_structures_compared"] = sum(1 for r in rt if r["hasB"] and r["temporal"])
    ctx.cov["plans_judged"] = nplans
    ctx.cov["plans_valid_confirmed_by_tlc"] = len(valid)
    ctx.cov["tallies"] = tallies
    exc, classes = {}, {}
    for r_ in recs:
        if r_["R"] and r_["R"]["rexc"] != "none":
            exc[r_["R"]["rexc"]] = exc.get(r_["R"]["rexc"], 0) + 1
            c = (r_["constructs"] or ["reader-environment" if r_["fresh_env"] else "none"])[0]
            classes[c] = classes.get(c, 0) + 1
    ctx.cov["reader_exceptions"] = exc
    ctx.cov["parse_failures_by_construct_class"] = classes
    ctx.cov["rule"] = (
        "G2 problems in the ANML fragment (typed classical, numeric, bounded numeric, with state invariants, temporal; every "
        "second one free of the constructs the reader is known not to parse; a third with adversarial identifiers) written by "
        "ANMLWriter and read back by ANMLReader; one evaluation = one problem record or one seeded time-triggered plan judged by "
        "TLC (AnmlRoundTrip); re-read non-temporal problems are compared with the original by Bisim on every state reachable "
        "within depth %d, temporal ones by SameTemporalStructure; non-trivial = bisimulated pairs + temporal structures compared "
        "+ plans TLC confirmed valid." % D
    )
    ex = next((r for r in rt if r["hasB"] and r["plans"]), next((r for r in rt if r["hasB"]), rt[0]))
    ctx.sample({"problem": ex["A"], "anml": next(r_["R"]["text"] for r_ in recs if r_["cid"] == ex["cid"]),
                "reread": ex["B"] if ex["hasB"] else None, "plans": ex["plans"][:2]})
    ctx.assumptions += [
        "TLC, the Json reader, harness/upj.py (projection / construction, structure only) and the pure renaming in the driver are trusted",
        "the ANML text is not modelled: only the behaviour / temporal structure of the re-read problem is decided",
        "the writer's name table is observed where ANMLWriter hands it to ConverterToANMLString (it is not part of the public API)",
        "expressions of temporal problems are compared by value on sample states (initial state, its single-fluent perturbations, "
        "states of the seeded plans' runs), the temporal skeleton as normalised sets",
        "a reader time-out (harness limit %d s) is tallied as unspecified, not judged" % limit,
    ]


# ----------------------------------------------------------------------------------------
# self-test (./check C19 --selftest): corrupting one recorded field makes the judges reject
# ----------------------------------------------------------------------------------------
def _corruptions(rec):
    """[(name, corrupted copy of the re-read problem)] -- structure only"""
    import copy

    out = []
    B = rec["R"]["B"]
    for a_i, a in enumerate(B["actions"]):
        if a["kind"] == "dur":
            C = copy.deepcopy(B)
            C["actions"][a_i]["dur"]["lopen"] = not a["dur"]["lopen"]
            out.append(("duration-openness", C))
            if a["effects"]:
                C = copy.deepcopy(B)
                t = C["actions"][a_i]["effects"][0]["t"]
                t["from"] = "end" if t["from"] == "start" else "start"
                out.append(("effect-timing", C))
            if a["conds"]:
                C = copy.deepcopy(B)
                iv = C["actions"][a_i]["conds"][0]["iv"]
                iv["ropen"] = not iv["ropen"]
                iv["hi"] = {"from": "end", "delay": upj.NV(0)}
                iv["lo"] = {"from": "start", "delay": upj.NV(0)}
                iv["lopen"] = not iv["lopen"]
                out.append(("condition-interval", C))
            break
    if B["init"]:
        C = copy.deepcopy(B)
        v = C["init"][0]["v"]
        if v["k"] == "b":
            v["b"] = not v["b"]
            out.append(("initial-value", C))
        elif v["k"] == "n":
            C["init"][0]["v"] = upj.NV(Fraction(v["n"], v["d"]) + 1)
            out.append(("initial-value", C))
    if B["goals"]:
        C = copy.deepcopy(B)
        C["goals"] = [upj.E("not", [g]) for g in C["goals"]]
        out.append(("goal", C))
    return out


def selftest(ctx):
    import copy

    corpus = make_corpus(ctx.rng, dict(cls=4, tmp=8))
    jobs = [(i + 1, sl, P, 2, 2, i, 300) for i, (sl, P) in enumerate(corpus)]
    with Pool(NPROC) as pool:
        recs = [r for r in pool.map(worker, jobs, chunksize=1) if not r["skip"] and r["R"]["B"] is not None]
    if not recs:
        print("selftest: nothing was read back")
        return 2
    base, mut, names = [], [], {}
    n = 0
    for rec in recs:
        for (name, C) in _corruptions(rec):
            n += 1
            r2 = copy.deepcopy(rec)
            r2["cid"] = 1000 + n
            r2["R"]["B"] = C
            names[r2["cid"]] = name
            mut.append(r2)
    rt, bis, _ = build_batches(mut, 2)
    fails, _, _, _, _ = run_judges(ctx, rt, bis)
    rejected = {f[0] for f in fails}
    missed = sorted(set(names) - rejected)
    kinds = {}
    for cid, nm in names.items():
        kinds.setdefault(nm, [0, 0])
        kinds[nm][0] += 1
        kinds[nm][1] += cid in rejected
    print("selftest: %d corrupted re-read problems, %d rejected; per kind (made, rejected): %r" % (len(names), len(rejected), kinds))
    ok = all(v[1] > 0 for v in kinds.values()) and len(kinds) >= 3
    print("selftest %s" % ("ok" if ok else "FAILED: a corruption kind was never rejected (%r)" % [names[c] for c in missed]))
    return 0 if ok else 2


# ----------------------------------------------------------------------------------------
# replay (./check C19 --replay replay/C19/<hash>.json): the recorded problem through the same pipeline
# ----------------------------------------------------------------------------------------
def replay(ctx, rep):
    d = rep["data"]
    rec = worker((1, d.get("slice", "num"), d["problem"], 3, 3, 0, 400, d.get("read_with_fresh_environment", False)))
    if rec["skip"]:
        print("replay: problem skipped (%s)" % rec["skip"])
        return 2
    judge_and_report(ctx, [rec], 3)
    sigs = sorted({v.sig for v in ctx.violations})
    print("replay: recorded signature %s; signatures now: %s" % (rep["signature"], sigs or "none"))
    return 1 if rep["signature"] in sigs else 0
