"""C32 -- Factory engine selection honours every requested requirement.

T1  spec/MCFactory.tla: the implementation-shaped layer of spec/Factory.tla (_engine_satisfies_conditions
    branch by branch, the scan of the preference list, the pipeline loop threading problem_kind through
    resulting_problem_kind) satisfies the declarative layer (Qualifies / Select / ChainOK) for every small
    registry, preference list and well-formed request (exhaustive).
T2  TLC (FactoryEnum) enumerates requests: operation modes x problem kinds (all subsets of a feature
    universe straddling the built-in engines' supported kinds) x optional compilation kind / plan kind /
    optimality / anytime guarantee, compilation pipelines, requests through the entry points that take a
    real Problem (built from TLC-chosen ingredients), and registry configurations (three mock engines with
    TLC-chosen capability profiles, preference-list schemes).  Every request is issued on a FRESH
    Environment's factory (mocks registered with factory.add_engine) through the public entry points
    OneshotPlanner / AnytimePlanner / PlanValidator / Compiler / PlanRepairer / PortfolioSelector /
    SequentialSimulator / Replanner / ActionSelector and get_all_applicable_engines.
T3  FactoryJudge: the registry is READ from the real classes (is_<mode>(), supported_kind().features,
    supports_plan, supports_compilation, satisfies, ensures, resulting_problem_kind) and given to TLC with
    the recorded answers; TLC judges every answer with Factory!Select / Pipe.
Python builds objects, calls the API and projects results; every verdict is TLC's.
"""
import os
import re
import sys
import time
import types

from .. import tlc
from ..common import MachineryError, time_limit, ImplTimeout

MC_CFG = """SPECIFICATION Spec
CONSTANTS Menu = "%(menu)s"
 Three = %(three)s
 MaxPipe = %(maxpipe)d
 Feats = %(feats)s
 Overlap = %(overlap)s
 FullPrefs = %(fullprefs)s
INVARIANT SingleOK
INVARIANT PipeOK
"""

ENUM_CFG = """INIT Init
NEXT Next
CONSTANTS NF = %(nf)d
 Groups = %(groups)d
 NC = %(nc)d
 Seed = %(seed)d
 PipeLen = %(pipelen)d
 NPipe = %(npipe)d
 AllCK = %(allck)s
 LongLen = %(longlen)d
 NLong = %(nlong)d
"""

JUDGE_CFG = """SPECIFICATION JudgeSpec
INVARIANT Verdict
"""

NO_SUITABLE = "UPNoSuitableEngineAvailableException"
MOCK_MODULE = "verif_c32_mocks"
LIMIT = 20  # seconds per call into the library


# ----------------------------------------------------------------------------------------
# the library, imported lazily (VERIF_REPO may point somewhere else)
# ----------------------------------------------------------------------------------------
class _Lib:
    def __init__(self):
        import unified_planning as up
        from unified_planning.environment import Environment
        from unified_planning.model import ProblemKind
        from unified_planning.model.problem_kind import FEATURES
        from unified_planning.model.problem_kind_versioning import FEATURES_VERSIONS, LATEST_PROBLEM_KIND_VERSION
        from unified_planning.plans import PlanKind
        from unified_planning.engines.engine import Engine, OperationMode
        from unified_planning.engines import mixins
        from unified_planning.engines.mixins.compiler import CompilationKind
        from unified_planning.engines.mixins.oneshot_planner import OptimalityGuarantee
        from unified_planning.engines.mixins.anytime_planner import AnytimeGuarantee
        from unified_planning.engines.compilers.compilers_pipeline import CompilersPipeline
        from unified_planning.engines.mixins.action_selector import ActionSelectorMixin

        self.up = up
        self.Environment = Environment
        self.ProblemKind = ProblemKind
        self.LATEST = LATEST_PROBLEM_KIND_VERSION
        self.PlanKind, self.CompilationKind = PlanKind, CompilationKind
        self.OptimalityGuarantee, self.AnytimeGuarantee = OptimalityGuarantee, AnytimeGuarantee
        self.Engine, self.OperationMode = Engine, OperationMode
        self.CompilersPipeline = CompilersPipeline
        allf = set()
        for l in FEATURES.values():
            allf |= set(l)
        self.all_features = sorted(allf)
        self.quality_metrics = list(FEATURES["QUALITY_METRICS"])
        self.deprecated = {f for f, (_, end) in FEATURES_VERSIONS.items() if end is not None}
        self.mixin = {
            "oneshot_planner": mixins.OneshotPlannerMixin,
            "anytime_planner": mixins.AnytimePlannerMixin,
            "plan_validator": mixins.PlanValidatorMixin,
            "portfolio_selector": mixins.PortfolioSelectorMixin,
            "compiler": mixins.CompilerMixin,
            "sequential_simulator": mixins.SequentialSimulatorMixin,
            "replanner": mixins.ReplannerMixin,
            "plan_repairer": mixins.PlanRepairerMixin,
            "action_selector": ActionSelectorMixin,
        }


_LIB = None


def lib():
    global _LIB
    if _LIB is None:
        _LIB = _Lib()
    return _LIB


# ----------------------------------------------------------------------------------------
# mock engines: classes with the capabilities of a TLC-chosen profile (no selection logic)
# ----------------------------------------------------------------------------------------
_ABSTRACT_STUBS = (
    "_solve _get_solutions _validate _compile _resolve _update_initial_value _add_goal _remove_goal _add_action "
    "_remove_action _repair _get_best_oneshot_planners _get_initial_state _is_applicable _apply "
    "_get_applicable_actions _is_goal _get_action _update"
).split()


def make_mock(L, clsname, prof, universe, base):
    """Engine class implementing prof["modes"], supporting base + the universe features prof["feats"]."""
    modes = sorted(prof["modes"])
    feats = frozenset(base) | {universe[i - 1] for i in prof["feats"]}
    plans = frozenset(prof["plans"])
    comps = frozenset(prof["comps"])
    opt = frozenset(prof["opt"])
    anyg = frozenset(prof["any"])
    rem = frozenset(universe[i - 1] for i in prof["rem"])
    add = frozenset(universe[i - 1] for i in prof["add"])

    def __init__(self, problem=None, error_on_failed_checks=True, **kwargs):
        L.Engine.__init__(self)
        self._problem = problem
        self._default = None
        self.optimality_metric_required = False
        self._error_on_failed_checks = error_on_failed_checks

    def _stub(self, *a, **k):
        raise NotImplementedError("C32 mock engine")

    ns = {"__init__": __init__, "name": property(lambda self: clsname)}
    for s in _ABSTRACT_STUBS:
        ns[s] = _stub
    ns["supported_kind"] = staticmethod(lambda: L.ProblemKind(set(feats), version=L.LATEST))
    holder = {}
    ns["supports"] = staticmethod(lambda problem_kind: problem_kind <= holder["cls"].supported_kind())
    if set(modes) & {"oneshot_planner", "replanner", "plan_repairer", "portfolio_selector"}:
        ns["satisfies"] = staticmethod(lambda optimality_guarantee: optimality_guarantee.name in opt)
    if "anytime_planner" in modes:
        ns["ensures"] = staticmethod(lambda anytime_guarantee: anytime_guarantee.name in anyg)
    if set(modes) & {"plan_validator", "plan_repairer"}:
        ns["supports_plan"] = staticmethod(lambda plan_kind: plan_kind.name in plans)
    if "compiler" in modes:
        ns["supports_compilation"] = staticmethod(lambda compilation_kind: compilation_kind.name in comps)
        ns["resulting_problem_kind"] = staticmethod(
            lambda problem_kind, compilation_kind=None: L.ProblemKind(
                (set(problem_kind.features) - rem) | add, version=problem_kind.version
            )
        )
    bases = (L.Engine,) + tuple(L.mixin[m] for m in modes)
    cls = types.new_class(clsname, bases, {}, lambda d: d.update(ns))
    holder["cls"] = cls
    return cls


# ----------------------------------------------------------------------------------------
# real problems from TLC-chosen ingredients (global environment; built once)
# ----------------------------------------------------------------------------------------
ING_FEATURE = {
    "conditional_effect": "CONDITIONAL_EFFECTS",
    "durative_action": "CONTINUOUS_TIME",
    "trajectory_constraint": "TRAJECTORY_CONSTRAINTS",
    "state_invariant": "STATE_INVARIANTS",
    "existential_goal": "EXISTENTIAL_CONDITIONS",
    "plan_length_metric": "PLAN_LENGTH",
}
_PROBLEMS = {}
_SUP = {}


def build_problem(ings):
    key = tuple(sorted(ings))
    if key in _PROBLEMS:
        return _PROBLEMS[key]
    from unified_planning import shortcuts as S

    tag = "".join(i[0] for i in key)
    p = S.Problem("c32_" + tag)
    a = S.Fluent("a_" + tag)
    g = S.Fluent("g_" + tag)
    p.add_fluent(a, default_initial_value=False)
    p.add_fluent(g, default_initial_value=False)
    act = S.InstantaneousAction("set_g_" + tag)
    act.add_effect(g, True)
    if "conditional_effect" in key:
        act.add_effect(a, True, condition=S.FluentExp(g))
    p.add_action(act)
    p.add_goal(g)
    if "durative_action" in key:
        d = S.DurativeAction("dur_" + tag)
        d.set_fixed_duration(2)
        d.add_effect(S.EndTiming(), a, True)
        p.add_action(d)
    if "trajectory_constraint" in key:
        p.add_trajectory_constraint(S.Sometime(S.FluentExp(g)))
    if "state_invariant" in key:
        p.add_state_invariant(S.Or(S.FluentExp(g), S.Not(S.FluentExp(a))))
    if "existential_goal" in key:
        ut = S.UserType("T_" + tag)
        h = S.Fluent("h_" + tag, S.BoolType(), x=ut)
        p.add_fluent(h, default_initial_value=True)
        p.add_object(S.Object("o_" + tag, ut))
        v = S.Variable("v_" + tag, ut)
        p.add_goal(S.Exists(S.FluentExp(h, [v]), v))
    if "plan_length_metric" in key:
        p.add_quality_metric(S.MinimizeSequentialPlanLength())
    _PROBLEMS[key] = p
    return p


# ----------------------------------------------------------------------------------------
# one batch = one fresh Environment
# ----------------------------------------------------------------------------------------
class Batch:
    def __init__(self, ctx, bid, universe, mocks):
        L = lib()
        self.L, self.ctx, self.id = L, ctx, bid
        self.universe = list(universe)
        self.ft = self.universe + [f for f in L.all_features if f not in universe]
        self.fid = {f: i + 1 for i, f in enumerate(self.ft)}
        base = [f for f in L.all_features if f not in universe and f not in L.deprecated]
        with time_limit(LIMIT):
            self.env = L.Environment()
        self.env.credits_stream = None
        self.factory = self.env.factory
        if mocks:
            mod = types.ModuleType(MOCK_MODULE)
            sys.modules[MOCK_MODULE] = mod
            for k, prof in enumerate(mocks):
                clsname = "C32Mock%d_%s" % (k + 1, bid)
                setattr(mod, clsname, make_mock(L, clsname, prof, self.universe, base))
                with time_limit(LIMIT):
                    self.factory.add_engine("mock%d" % (k + 1), MOCK_MODULE, clsname)
        self.names = list(self.factory.engines)
        self.classes = [self.factory.engine(n) for n in self.names]
        self.eid = {n: i + 1 for i, n in enumerate(self.names)}
        self.default_prefs = list(self.factory.preference_list)
        self.mock_names = [n for n in self.names if "mock" in n]
        self.engines = [self._read(n, E) for n, E in zip(self.names, self.classes)]
        self.prefs = []
        self.rk = {}
        self.reqs = []

    # -- reading the registry from the real classes ---------------------------------------
    def _kind_ids(self, kind, what):
        if kind.version != self.L.LATEST:
            raise MachineryError("%s: ProblemKind of version %r (the model assumes the latest)" % (what, kind.version))
        bad = set(kind.features) & self.L.deprecated
        if bad:
            raise MachineryError("%s: deprecated features %r (the model assumes none)" % (what, sorted(bad)))
        return sorted(self.fid[f] for f in kind.features)

    def _read(self, name, E):
        L = self.L
        with time_limit(LIMIT):
            rec = {
                "name": name,
                "modes": [om.value for om in L.OperationMode if getattr(E, "is_" + om.value)()],
                "feats": self._kind_ids(E.supported_kind(), name),
                "plans": [k.name for k in L.PlanKind if E.supports_plan(k)] if hasattr(E, "supports_plan") else [],
                "comps": [k.name for k in L.CompilationKind if E.supports_compilation(k)] if hasattr(E, "supports_compilation") else [],
                "opt": [k.name for k in L.OptimalityGuarantee if E.satisfies(k)] if hasattr(E, "satisfies") else [],
                "any": [k.name for k in L.AnytimeGuarantee if E.ensures(k)] if hasattr(E, "ensures") else [],
            }
            nf = len(self.universe)
            key = (E, tuple(self.universe))
            if key not in _SUP:  # the same class object answers the same in every batch
                _SUP[key] = [m for m in range(2**nf) if E.supports(self.kind_of([j + 1 for j in range(nf) if (m >> j) & 1]))]
            rec["sup"] = _SUP[key]
        return rec

    def kind_of(self, ids):
        return self.L.ProblemKind({self.ft[i - 1] for i in ids}, version=self.L.LATEST)

    # -- preference-list schemes (list manipulation only) -----------------------------------
    def install(self, scheme):
        d = list(self.default_prefs)
        mocks = [n for n in d if "mock" in n]
        if scheme == "default":
            p = d
        elif scheme == "reversed":
            p = d[::-1]
        elif scheme == "mocks_first":
            p = mocks + [n for n in d if n not in mocks]
        elif scheme == "every_other":
            p = d[::2]
        elif scheme == "mocks_only_reversed":
            p = mocks[::-1]
        elif scheme == "rotated":
            k = len(d) // 2
            p = d[k:] + d[:k]
        else:
            raise MachineryError("unknown preference scheme %r" % scheme)
        self.factory.preference_list = list(p)
        self.prefs.append([self.eid[n] for n in p])
        return len(self.prefs)

    # -- projection of answers ----------------------------------------------------------------
    def _ids_of(self, obj):
        cls = type(obj)
        return [i + 1 for i, E in enumerate(self.classes) if E is cls]

    def _call(self, fn, kwargs, pipe=False):
        try:
            with time_limit(LIMIT):
                res = fn(**kwargs)
        except ImplTimeout:
            return {"k": "timeout", "n": [], "st": [], "x": ""}
        except MachineryError:
            raise
        except Exception as ex:  # an exception is an observation
            return {"k": "exc", "n": [], "st": [], "x": type(ex).__name__}
        if isinstance(res, self.L.CompilersPipeline):
            return {"k": "pipeline", "n": [], "st": [self._ids_of(c) for c in res._compilers], "x": ""}
        return {"k": "engine", "n": self._ids_of(res), "st": [], "x": ""}

    def _call_all(self, kind, q):
        L = self.L
        kw = {}
        if q["og"]:
            kw["optimality_guarantee"] = self._val(L.OptimalityGuarantee, q["og"])
        if q["ag"]:
            kw["anytime_guarantee"] = self._val(L.AnytimeGuarantee, q["ag"])
        if q["pk"]:
            kw["plan_kind"] = self._val(L.PlanKind, q["pk"])
        if q["ck"]:
            kw["compilation_kind"] = self._val(L.CompilationKind, q["ck"])
        try:
            with time_limit(LIMIT):
                res = self.factory.get_all_applicable_engines(kind, L.OperationMode(q["mode"]), **kw)
        except ImplTimeout:
            return {"k": "timeout", "n": [], "x": ""}
        except Exception as ex:
            return {"k": "exc", "n": [], "x": type(ex).__name__}
        if not isinstance(res, list) or any(n not in self.eid for n in res):
            return {"k": "exc", "n": [], "x": "returned " + repr(res)[:60]}
        return {"k": "names", "n": [self.eid[n] for n in res], "x": ""}

    def _val(self, enum, name):
        """the enum member or (seeded choice) its name: both are accepted by the public API"""
        return name if self.ctx.rng.random() < 0.25 else enum[name]

    # -- requests ---------------------------------------------------------------------------
    def kind_request(self, q, p):
        L, F = self.L, self.factory
        rec = {k: q[k] for k in ("mode", "f", "ck", "pk", "og", "ag", "cks", "call")}
        # the kind: universe features by index + (long pipelines) further features by name
        for n in q.get("xf", []):
            if n not in self.fid or n in L.deprecated:
                raise MachineryError("extra feature %r of a request is not a current feature of the library" % n)
        feats = rec["f"] = sorted(set(q["f"]) | {self.fid[n] for n in q.get("xf", [])})
        rec["p"] = p
        skip = {"k": "skip", "n": [], "st": [], "x": ""}
        if q["call"] == "pipe":
            cks = [self._val(L.CompilationKind, c) for c in q["cks"]]
            rec["obs"] = self._call(F.Compiler, {"problem_kind": self.kind_of(feats), "compilation_kinds": cks})
            rec["all"] = {"k": "skip", "n": [], "x": ""}
            self._rk_closure(feats, q["cks"])
        else:
            if q["call"] == "mode":
                kw = {"problem_kind": self.kind_of(feats)}
                mode = q["mode"]
                if mode == "oneshot_planner":
                    fn = F.OneshotPlanner
                elif mode == "anytime_planner":
                    fn = F.AnytimePlanner
                elif mode == "plan_validator":
                    fn = F.PlanValidator
                elif mode == "compiler":
                    fn = F.Compiler
                elif mode == "plan_repairer":
                    fn = F.PlanRepairer
                elif mode == "portfolio_selector":
                    fn = F.PortfolioSelector
                else:
                    raise MachineryError("no kind-based entry point for mode %r" % mode)
                if q["og"]:
                    kw["optimality_guarantee"] = self._val(L.OptimalityGuarantee, q["og"])
                if q["ag"]:
                    kw["anytime_guarantee"] = self._val(L.AnytimeGuarantee, q["ag"])
                if q["pk"]:
                    kw["plan_kind"] = self._val(L.PlanKind, q["pk"])
                if q["ck"]:
                    kw["compilation_kind"] = self._val(L.CompilationKind, q["ck"])
                rec["obs"] = self._call(fn, kw)
            else:
                rec["obs"] = skip
            rec["all"] = self._call_all(self.kind_of(feats), q)
        self.reqs.append(rec)
        return rec

    def problem_request(self, q, p):
        L, F = self.L, self.factory
        problem = build_problem(q["ing"])
        with time_limit(LIMIT):
            kind = problem.kind
            feats = self._kind_ids(kind, "problem %s" % problem.name)
        for ing in q["ing"]:
            if ING_FEATURE[ing] not in kind.features:
                raise MachineryError("ingredient %s did not produce feature %s" % (ing, ING_FEATURE[ing]))
        rec = {"mode": q["mode"], "f": feats, "ck": "", "pk": "", "og": q["og"], "ag": "", "cks": [], "call": "problem", "p": p}
        if q["mode"] == "sequential_simulator":
            rec["obs"] = self._call(F.SequentialSimulator, {"problem": problem})
        elif q["mode"] == "action_selector":
            rec["obs"] = self._call(F.ActionSelector, {"problem": problem})
        elif q["mode"] == "replanner":
            kw = {"problem": problem}
            if q["og"]:
                kw["optimality_guarantee"] = self._val(L.OptimalityGuarantee, q["og"])
            rec["obs"] = self._call(F.Replanner, kw)
        else:
            raise MachineryError("no problem-based entry point for mode %r" % q["mode"])
        rec["all"] = self._call_all(kind, rec)
        rec["ing"] = sorted(q["ing"])
        self.reqs.append(rec)
        return rec

    # -- resulting kinds: the real resulting_problem_kind of every registered compiler that declares
    #    the compilation kind, on every kind that can reach the stage (a table, no selection) --------
    def _rk_closure(self, f, cks):
        L = self.L
        frontier = {frozenset(f)}
        for ck in cks:
            nxt = set()
            for fs in frontier:
                for i, rec in enumerate(self.engines):
                    if ck not in rec["comps"]:
                        continue
                    key = (i + 1, ck, fs)
                    if key not in self.rk:
                        try:
                            with time_limit(LIMIT):
                                out = self.classes[i].resulting_problem_kind(self.kind_of(fs), L.CompilationKind[ck])
                                self.rk[key] = {"k": "kind", "f": self._kind_ids(out, "resulting kind of %s" % rec["name"]), "x": ""}
                        except ImplTimeout:
                            self.rk[key] = {"k": "exc", "f": [], "x": "timeout"}
                        except MachineryError:
                            raise
                        except Exception as ex:
                            self.rk[key] = {"k": "exc", "f": [], "x": type(ex).__name__}
                    if self.rk[key]["k"] == "kind":
                        nxt.add(frozenset(self.rk[key]["f"]))
            frontier = nxt

    def _rk_groups(self):
        groups = {}
        for (e, ck, fs), out in sorted(self.rk.items(), key=lambda kv: (kv[0][0], kv[0][1], sorted(kv[0][2]))):
            groups.setdefault((e, ck), []).append({"in": sorted(fs), "out": out})
        return [{"e": e, "ck": ck, "rows": rows} for (e, ck), rows in groups.items()]

    def record(self, stats):
        return {
            "id": self.id,
            "nf": len(self.universe),
            "qm": sorted(self.fid[f] for f in self.L.quality_metrics),
            "stats": bool(stats),
            "engines": self.engines,
            "prefs": self.prefs,
            "rk": self._rk_groups(),
            "reqs": [{k: v for k, v in r.items() if k != "ing"} for r in self.reqs],
        }


# ----------------------------------------------------------------------------------------
# judging
# ----------------------------------------------------------------------------------------
def describe(batch, rec):
    """human-readable replay data for one request of a batch (names instead of ids)."""
    name = lambda i: batch.names[i - 1]
    out = {
        "mode": rec["mode"],
        "call": rec["call"],
        "problem_kind": [batch.ft[i - 1] for i in rec["f"]],
        "compilation_kind": rec["ck"],
        "plan_kind": rec["pk"],
        "optimality_guarantee": rec["og"],
        "anytime_guarantee": rec["ag"],
        "compilation_kinds": rec["cks"],
        "preference_list": [name(i) for i in batch.prefs[rec["p"] - 1]],
        "observed": {"k": rec["obs"]["k"], "engine": [name(i) for i in rec["obs"]["n"]], "stages": [[name(i) for i in s] for s in rec["obs"]["st"]], "exception": rec["obs"]["x"]},
        "get_all_applicable_engines": {"k": rec["all"]["k"], "names": [name(i) for i in rec["all"]["n"]], "exception": rec["all"]["x"]},
        "mocks": {e["name"]: {k: (e[k] if k != "feats" else [batch.ft[i - 1] for i in e[k] if i <= len(batch.universe)]) for k in ("modes", "feats", "plans", "comps", "opt", "any")} for e in batch.engines if "mock" in e["name"]},
    }
    if "ing" in rec:
        out["problem_ingredients"] = rec["ing"]
    if rec["cks"]:
        # the recorded rows of the resulting-kind table that can matter for this request: per stage, every
        # registered compiler declaring the stage's compilation kind on every kind that can reach the stage
        # (a walk through the recorded table; nothing is selected here)
        kind = lambda ids: [batch.ft[i - 1] for i in ids]
        rows, frontier = [], {frozenset(rec["f"])}
        for st, ck in enumerate(rec["cks"]):
            nxt = set()
            for fs in sorted(frontier, key=sorted):
                for e in range(1, len(batch.names) + 1):
                    o = batch.rk.get((e, ck, fs))
                    if o is None:
                        continue
                    rows.append({"stage": st + 1, "engine": name(e), "compilation_kind": ck, "in": kind(sorted(fs)), "out": kind(o["f"]) if o["k"] == "kind" else "raises " + o["x"]})
                    if o["k"] == "kind":
                        nxt.add(frozenset(o["f"]))
            frontier = nxt
        out["resulting_problem_kind_rows"] = rows[:60]
    return out


def signature(batch, rec, clause, stage, x):
    parts = [clause, rec["mode"] if rec["call"] != "pipe" else "pipeline"]
    if clause == "pipeline-resulting-kind-raises":
        # the engine whose resulting_problem_kind raises is determined by the specification's chain:
        # recover its name from the rk table (the only raising row for that compilation kind)
        ck = rec["cks"][stage - 1] if 0 < stage <= len(rec["cks"]) else "?"
        eng = sorted({batch.names[e - 1] for (e, c, fs), out in batch.rk.items() if c == ck and out["k"] == "exc" and out["x"] == x})
        parts = [clause, ck, "+".join(eng) or "?", x]
    elif x:
        parts.append(x)
    if clause.startswith("pipeline-stage-"):
        parts.append("stage%d" % stage)
    return "|".join(parts)


def printed_values(stdout):
    """PrintT output of the judge; TLC wraps long values over several lines."""
    out, cur = [], None
    for line in stdout.splitlines():
        ls = line.strip()
        if cur is None:
            if not ls.startswith("<<"):
                continue
            cur = ls
        else:
            cur += " " + ls
        if cur.count("<<") == cur.count(">>") and cur.count("{") == cur.count("}"):
            try:
                out.append(tlc.parse_value(cur))
            except ValueError:
                pass
            cur = None
        elif len(cur) > 20000:
            cur = None
    return out


def judge(ctx, label, batches, stats_all):
    d = ctx.sub("judge-" + label)
    path = os.path.join(d, "batches.ndjson")
    tlc.write_ndjson(path, [b.record(stats_all or k == 0) for k, b in enumerate(batches)])
    res = tlc.run_tlc("FactoryJudge", JUDGE_CFG, d, env={"BATCHES": path}, timeout=3000)
    if res.error or res.violated:
        raise MachineryError("FactoryJudge failed: %s %s" % (res.violated, res.error))
    expected = sum(len(b.reqs) + 1 for b in batches)
    if res.distinct != expected:
        raise MachineryError("judge consumed %d states, expected %d" % (res.distinct, expected))
    ctx.add_tlc("judge-" + label, res)
    ctx.cov["traces_validated_against_impl"] += sum(len(b.reqs) for b in batches)
    byid = {b.id: b for b in batches}
    lacks, outs = set(), set()
    for p in printed_values(res.stdout):
        if not isinstance(p, list) or not p:
            continue
        if p[0] == "FAIL":
            b = byid[p[1]]
            rec = b.reqs[p[2] - 1]
            clause, stage, x = p[3], p[4], p[5]
            ctx.violation(
                signature(b, rec, clause, stage, x),
                "Factory request (%s, %s): clause %s%s%s"
                % (rec["mode"], rec["call"], clause, (" at stage %d" % stage) if stage else "", (" [%s]" % x) if x else ""),
                {"batch": p[1], "request": describe(b, rec), "clause": clause, "stage": stage, "detail": x},
            )
        elif p[0] == "ASSUME":
            raise MachineryError(
                "assumption broken: supports() of %s is not inclusion in supported_kind().features" % byid[p[1]].names[p[2] - 1]
            )
        elif p[0] == "STATS":
            lacks |= set(p[2]["$set"])
            outs |= set(p[3]["$set"])
    return lacks, outs


# ----------------------------------------------------------------------------------------
def bounds(ctx):
    if ctx.quick:
        return dict(nf=6, groups=8, nc=24, pipelen=2, npipe=5, allck="FALSE", longlen=4, nlong=12)
    return dict(nf=8, groups=64, nc=80, pipelen=3, npipe=6, allck="TRUE", longlen=5, nlong=40)


def design_check(ctx):
    """T1: MCFactory, exhaustive."""
    d = ctx.sub("t1")
    if ctx.quick:
        cfgs = [
            dict(menu="all", three="FALSE", maxpipe=1, feats='{"f"}', overlap="TRUE", fullprefs="TRUE"),
            dict(menu="comp", three="FALSE", maxpipe=2, feats='{"f"}', overlap="FALSE", fullprefs="TRUE"),
        ]
    else:
        cfgs = [
            dict(menu="all", three="FALSE", maxpipe=1, feats='{"f", "g"}', overlap="TRUE", fullprefs="TRUE"),
            dict(menu="comp", three="FALSE", maxpipe=2, feats='{"f", "g"}', overlap="FALSE", fullprefs="TRUE"),
            dict(menu="comp", three="FALSE", maxpipe=3, feats='{"f"}', overlap="FALSE", fullprefs="TRUE"),
            dict(menu="comp", three="TRUE", maxpipe=2, feats='{"f"}', overlap="FALSE", fullprefs="FALSE"),
        ]
    for c in cfgs:
        res = tlc.run_tlc("MCFactory", MC_CFG % c, d, timeout=3000, coverage=True)
        if res.error:
            raise MachineryError(res.error)
        ctx.add_tlc("T1 %r" % (c,), res)
        if res.violated:
            ctx.violation(
                "T1|" + res.violated,
                "the implementation-shaped Factory layer violates %s (design-level counterexample)" % res.violated,
                {"config": c, "trace": [s["vars"] for s in res.trace]},
            )
        if res.distinct < 100:
            raise MachineryError("T1 explored only %d states" % res.distinct)
        # vacuity: no expression of the specification (module Factory) reached by the invariants may be left unevaluated
        dead = re.findall(r"(line \d+, col \d+ to line \d+, col \d+ of module Factory): 0\s*$", res.stdout, re.M)
        if dead:
            raise MachineryError("T1 %r never evaluates %s" % (c, dead[:5]))


def enumerate_cases(ctx, bnd):
    """G1: FactoryEnum; returns (universe record, kind requests, problem requests, configurations)."""
    d = ctx.sub("enum")
    outs = {k: os.path.join(d, k + ".ndjson") for k in ("univ", "reqs", "probs", "cfgs")}
    res = tlc.run_tlc(
        "FactoryEnum",
        ENUM_CFG % dict(bnd, seed=ctx.seed % 100000),
        d,
        env={"OUT_UNIV": outs["univ"], "OUT_REQS": outs["reqs"], "OUT_PROBS": outs["probs"], "OUT_CFGS": outs["cfgs"]},
        workers=1,
        timeout=3000,
    )
    if res.error:
        raise MachineryError(res.error)
    univ = tlc.read_ndjson(outs["univ"])[0]
    reqs = tlc.read_ndjson(outs["reqs"])
    probs = tlc.read_ndjson(outs["probs"])
    cfgs = sorted(tlc.read_ndjson(outs["cfgs"]), key=lambda c: c["id"])
    for r in reqs:
        r["xf"] = sorted(r["xf"])
    reqs.sort(key=lambda r: (r["mode"], r["call"], sorted(r["f"]), r["xf"], r["ck"], r["pk"], r["og"], r["ag"], r["cks"]))
    probs.sort(key=lambda r: (r["mode"], r["og"], sorted(r["ing"])))
    if len(reqs) < 1000 or len(cfgs) != bnd["nc"] or not probs:
        raise MachineryError("enumeration too small: %d requests, %d problem requests, %d configurations" % (len(reqs), len(probs), len(cfgs)))
    return univ, reqs, probs, cfgs


def collect(ctx, bnd, univ, reqs, probs, cfgs):
    """T2: issue every request on fresh Environments; returns the batches."""
    q = ctx.quick
    universe = univ["universe"]
    # the built-in registry: every request under the default preference list, every (quick) / every second
    # kind slice (thorough) under the reversed one, every fourth slice under a strict sub-list and a rotation
    batches = []
    b0 = Batch(ctx, 0, universe, [])
    for f in universe:
        if all(b0.fid[f] in e["feats"] for e in b0.engines):
            raise MachineryError("universe feature %s is supported by every built-in engine (does not straddle)" % f)
    for scheme, every in [("default", 1), ("reversed", 1 if q else 2), ("every_other", 4), ("rotated", 4)]:
        p = b0.install(scheme)
        for r in reqs:
            if r["grp"] % every == 0:
                b0.kind_request(r, p)
        for r in probs:
            if r["grp"] % every == 0:
                b0.problem_request(r, p)
    batches.append(b0)
    # registries with three mock engines: one kind slice each, two preference-list schemes
    for c in cfgs:
        b = Batch(ctx, c["id"], universe, c["mocks"])
        if len(b.mock_names) < len(c["mocks"]):
            raise MachineryError("mock engines were not registered: %r" % b.names)
        g = c["id"] % bnd["groups"]
        for scheme in c["schemes"]:
            p = b.install(scheme)
            for r in reqs:
                if r["grp"] == g:
                    b.kind_request(r, p)
            for r in probs:
                if r["grp"] == g:
                    b.problem_request(r, p)
        batches.append(b)
    return batches


def run(ctx):
    q = ctx.quick
    t0 = time.time()
    design_check(ctx)
    t_t1 = time.time()
    bnd = bounds(ctx)
    univ, reqs, probs, cfgs = enumerate_cases(ctx, bnd)
    universe = univ["universe"]
    t_enum = time.time()
    batches = collect(ctx, bnd, univ, reqs, probs, cfgs)
    b0 = batches[0]
    t_req = time.time()
    nreq = sum(len(b.reqs) for b in batches)
    ctx.cov["evaluations"] += nreq
    # outcomes as observed (counting only; verdicts are TLC's)
    seen = {}
    for b in batches:
        for r in b.reqs:
            k = r["obs"]["k"] + ((":" + r["obs"]["x"]) if r["obs"]["k"] == "exc" else "")
            seen[k] = seen.get(k, 0) + 1
    ctx.notes["observed_outcomes"] = seen
    ctx.cov["distinct_nontrivial"] = sum(n for k, n in seen.items() if k in ("engine", "pipeline"))
    mid = batches[len(batches) // 2]
    ctx.sample({"kind": "request on the built-in registry", "request": describe(b0, b0.reqs[len(b0.reqs) // 3])})
    ctx.sample({"kind": "request on a registry with mock engines", "request": describe(mid, mid.reqs[len(mid.reqs) // 2])})
    longs = [(b, r) for b in batches for r in b.reqs if len(r["cks"]) >= 3]
    ctx.notes["long_pipeline_requests"] = len(longs)
    ctx.notes["long_pipelines_returned"] = sum(1 for _, r in longs if r["obs"]["k"] == "pipeline")
    for b, r in longs:
        if r["obs"]["k"] == "pipeline":
            ctx.sample({"kind": "pipeline request of three or more stages", "request": describe(b, r)})
            break
    # ---- T3: TLC judges ------------------------------------------------------------------------
    lacks, outcomes = judge(ctx, "all", batches, stats_all=True)
    need = {"mode", "problem-kind", "compilation-kind", "plan-kind", "optimality-guarantee", "anytime-guarantee", ""}
    if not need <= lacks:
        raise MachineryError("vacuous run: clauses of Qualifies never decisive: %r" % sorted(need - lacks))
    if not {"engine", "none", "pipe-pipeline", "pipe-none", "long-pipeline", "long-none-at-late-stage"} <= outcomes:
        raise MachineryError("vacuous run: outcomes never demanded by the specification: %r" % sorted(outcomes))
    t_judge = time.time()
    ctx.notes["phase_seconds"] = {"t1": round(t_t1 - t0, 1), "enum": round(t_enum - t_t1, 1), "requests": round(t_req - t_enum, 1), "judge": round(t_judge - t_req, 1)}
    print("C32 phases (s): %r; observed outcomes: %r" % (ctx.notes["phase_seconds"], seen))
    ctx.notes["decisive_clauses"] = sorted(lacks)
    ctx.notes["specified_outcomes"] = sorted(outcomes)
    ctx.cov["rule"] = (
        "T1: exhaustive check of Factory's Impl layer against its Spec layer over small registries (MCFactory). "
        "T2/T3: TLC (FactoryEnum) emits every request over the %d-feature universe %s (%d kinds x modes x requirements, "
        "every pipeline of <= %d compilation kinds + %d sampled pipelines of 3..%d compilation kinds over kinds with further features, "
        "%d problem-based requests) and %d mock configurations (strided walk through a "
        "profile space of %d); the built-in registry answers all of them under its default preference list and whole kind slices under %d "
        "further lists (reversed, a strict sub-list, a rotation), each mock registry one kind slice (1/%d) under 2 preference lists; %d requests issued on %d fresh Environments, every answer judged by Factory!Select / Pipe. "
        "Non-trivial = the factory returned an engine or a pipeline."
        % (bnd["nf"], universe, univ["kinds"], bnd["pipelen"], univ["longpipes"], bnd["longlen"], len(probs), bnd["nc"], univ["space"], len(b0.prefs) - 1, bnd["groups"], nreq, len(batches))
    )
    ctx.cov["exhaustive"] = True
    ctx.assumptions += [
        "TLC and the CommunityModules Json reader are trusted",
        "kinds are of the latest ProblemKind version without deprecated features, where `kind <= supported_kind()` is feature "
        "inclusion (checked per engine class against its own supports() on every universe kind; version arithmetic is C33)",
        "the registry (modes, supported features, plan/compilation kinds, guarantees, resulting kinds) is read from the real "
        "engine classes; engine classes themselves are not judged",
        "candidates are the engines of the preference list (an engine registered but not listed is never selected, as documented)",
        "selection by name / names (Parallel) is outside the property",
    ]


def selftest(ctx):
    """./check C32 --selftest : the judge rejects corrupted observations of the unchanged tree
    (the source mutations tried by hand are listed in notes/C32.md)."""
    import copy

    bnd = bounds(ctx)
    univ, reqs, probs, cfgs = enumerate_cases(ctx, bnd)
    b = Batch(ctx, 0, univ["universe"], [])
    p = b.install("default")
    for r in reqs:
        if r["grp"] == 0:
            b.kind_request(r, p)
    clean = copy.deepcopy(b.reqs)

    def first(pred):
        return next(i for i, r in enumerate(clean) if pred(r))

    plans = []
    i = first(lambda r: r["obs"]["k"] == "engine")
    plans.append((i, "obs", {"k": "engine", "n": [clean[i]["obs"]["n"][0] % len(b.names) + 1], "st": [], "x": ""}, "another engine than the one returned"))
    i = first(lambda r: r["obs"]["k"] == "engine" and r["mode"] == "plan_validator")
    plans.append((i, "obs", {"k": "exc", "n": [], "st": [], "x": NO_SUITABLE}, "no-suitable-engine error instead of the engine"))
    i = first(lambda r: r["call"] == "mode" and r["obs"]["k"] == "exc" and r["obs"]["x"] == NO_SUITABLE and r["mode"] == "compiler")
    plans.append((i, "obs", {"k": "engine", "n": [b.eid["up_grounder"]], "st": [], "x": ""}, "an engine instead of the no-suitable-engine error"))
    i = first(lambda r: r["obs"]["k"] == "pipeline" and len(r["obs"]["st"]) == 2 and r["obs"]["st"][0] != r["obs"]["st"][1])
    plans.append((i, "obs", {"k": "pipeline", "n": [], "st": clean[i]["obs"]["st"][::-1], "x": ""}, "pipeline stages swapped"))
    i = first(lambda r: r["all"]["k"] == "names" and len(r["all"]["n"]) >= 1)
    plans.append((i, "all", {"k": "names", "n": clean[i]["all"]["n"][1:], "x": ""}, "get_all_applicable_engines loses an engine"))
    ok = True
    for i, field, val, what in plans:
        b.reqs = copy.deepcopy(clean)
        b.reqs[i][field] = val
        sub = Ctx_like(ctx)
        judge(sub, "selftest%d" % i, [b], stats_all=False)
        hit = [v for v in sub.violations if v.data["request"] == describe(b, b.reqs[i])]
        print("selftest corrupt (%s): %s" % (what, "rejected: " + hit[0].sig if hit else "NOT REJECTED"))
        ok = ok and bool(hit)
    b.reqs = clean
    return 0 if ok else 1


class Ctx_like:
    """collects violations of one judge run without touching the evidence of the outer context"""

    def __init__(self, ctx):
        self._ctx = ctx
        self.violations = []
        self.cov = {"states": 0, "transitions": 0, "traces_validated_against_impl": 0, "tlc_runs": []}
        self.quick = ctx.quick

    def sub(self, name):
        return self._ctx.sub(name)

    def add_tlc(self, label, res):
        pass

    def violation(self, sig, what, data):
        from ..common import Violation

        self.violations.append(Violation(sig, what, data))
