"""C20 -- the protobuf round trip is lossless.

A codec has one transition, y = Read(Write(x)); this is the thinnest use of the technique.  The
specification contributes
  (a) the exhaustive FORM SPACE (spec/ProtoForms.tla, G1): numeric type forms, constant forms up to
      and beyond int64 (limb form computed by TLC with BigArith), timepoint kinds x delays, interval
      openness, effect kinds, metric kinds, problem settings, plan kinds, result kinds -- TLC
      enumerates the sets and emits ONE minimal artefact (a complete UPJ problem + plan / result
      description) per combination; and
  (b) the independent notion of equality (spec/ProtoJudge.tla): NormUPJ(project(y)) =
      NormUPJ(project(x)) by TLC's value equality (bags where a model holds unordered collections),
      equality of the kinds' feature sets, and the implementation's own == (recorded because the
      property is phrased with it; reported only where it is the sole witness).
G2  seeded random problems (harness/gen.py Gen / TGen, built with upj.build), with half-bounded and
    large-constant variants, each with a random plan, a PlanGenerationResult around it, the
    ValidationResult of the real validator and CompilerResults of the real compilers.
G3  the bundled examples (incl. hierarchical and scheduling problems) and all their plans.
Classes upj.project cannot express (scheduling problems, hierarchical plans, schedules, temporal
oversubscription) are judged by ==, kind equality only (str() equality is recorded, not judged:
str() prints dictionaries in insertion order, which the protobuf maps do not keep).
Primary mode: process-global environment.  Secondary mode: a sample rebuilt in a fresh Environment,
every failure there is reported once under the signature `env-mixup`.
Node kind of constants: a number in the position of a constant expression node is {"k": "n"} for the node
the expression manager builds from the number (INT constant iff integral) and {"k": "r"} for the other
node with an integral value, the REAL constant Real(Fraction(3)) (type real[3, 3], != Int(3)); both ends
are projected with that distinction (`kinded`), ProtoForms puts such nodes in every constant position and
G2 re-writes integral constants of generated problems into them (`variants`).
Python holds no oracle: it builds objects, calls ProtobufWriter / ProtobufReader, projects to JSON.
"""
import contextlib
import dataclasses
import io
import os
import random
import traceback
from fractions import Fraction
from multiprocessing import Pool

from .. import tlc, upj, gen
from ..common import MachineryError, ImplTimeout, call_limited

ENUM_CFG = "INIT Init\nNEXT Next\n"
JUDGE_CFG = "SPECIFICATION Spec\nINVARIANT Judge\n"
NONE = {"k": "none"}
CATS = ("ntype", "const", "timing", "interval", "effect", "metric", "flags", "plan", "pgr", "vr", "cr")

# ----------------------------------------------------------------------------------------
# numbers beyond TLC's integers: pure re-grouping of decimal digits (no arithmetic)
# ----------------------------------------------------------------------------------------
BIG = 1 << 30
I64 = 1 << 63


def limbs(n):
    s = str(n)
    out = []
    while s:
        out.append(int(s[-4:]))
        s = s[:-4]
    while out and out[-1] == 0:
        out.pop()
    return out


def unlimbs(l):
    return int("".join("%04d" % x for x in reversed(l)) or "0")


def enc(v):
    """UPJ -> UPJ with every number beyond 2^30 in limb form (what TLC reads)."""
    if isinstance(v, dict):
        if v.get("k") in ("n", "r") and set(v) == {"k", "n", "d"}:
            if abs(v["n"]) >= BIG or v["d"] >= BIG:
                return {"k": v["k"].upper(), "s": -1 if v["n"] < 0 else 1, "n": limbs(abs(v["n"])), "d": limbs(v["d"])}
            return v
        return {k: enc(x) for k, x in v.items()}
    if isinstance(v, list):
        return [enc(x) for x in v]
    return v


def dec(v):
    """limb form -> Python integers (what upj.build reads)."""
    if isinstance(v, dict):
        if v.get("k") in ("N", "R"):
            return {"k": v["k"].lower(), "n": v["s"] * unlimbs(v["n"]), "d": unlimbs(v["d"])}
        return {k: dec(x) for k, x in v.items()}
    if isinstance(v, list):
        return [dec(x) for x in v]
    return v


def walk(v):
    yield v
    if isinstance(v, dict):
        for x in v.values():
            yield from walk(x)
    elif isinstance(v, list):
        for x in v:
            yield from walk(x)


def frac(v):
    return Fraction(v["n"], v["d"])


def num(v):
    f = frac(v)
    return int(f) if f.denominator == 1 else f


# ----------------------------------------------------------------------------------------
# the node kind of constants (structure only)
# ----------------------------------------------------------------------------------------
# harness/upj.py writes a numeric constant node as its value and builds the node the expression manager
# chooses for the value (Int iff integral).  The codec must also keep the OTHER node with an integral value:
# the REAL constant 3/1.  Here it is {"k": "r", "n", "d"}; inside `kinded()` upj.project / upj.build
# know it (the shared module is left as it is for the other checks; one process serves one check).
_UPJ_P_CONST, _UPJ_B_VAL = upj.p_const, upj.b_val


def p_const_k(e):
    if e.is_real_constant() and Fraction(e.constant_value()).denominator == 1:
        return {"k": "r", "n": Fraction(e.constant_value()).numerator, "d": 1}
    return _UPJ_P_CONST(e)


def b_val_k(v, sc):
    if v["k"] == "r":
        return sc.em.Real(Fraction(v["n"], v["d"]))
    return _UPJ_B_VAL(v, sc)


@contextlib.contextmanager
def kinded():
    old = upj.p_const, upj.b_val
    upj.p_const, upj.b_val = p_const_k, b_val_k
    try:
        yield
    finally:
        upj.p_const, upj.b_val = old


def build_k(P, env=None):
    with kinded():
        return upj.build(P, env)


# ----------------------------------------------------------------------------------------
# projections (structure only)
# ----------------------------------------------------------------------------------------
def px(e):
    """expression projection that also knows timing and presence nodes (task-network constraints)"""
    from unified_planning.model.operators import OperatorKind as OK

    nt = e.node_type
    if nt == OK.TIMING_EXP:
        t = e.timing()
        tp = t.timepoint
        return upj.E("timing", name="%s:%s" % (tp.kind.name, tp.container or ""), v=upj.NV(t.delay))
    if nt == OK.PRESENT_EXP:
        return upj.E("present", name=str(e.presence().container))
    if nt in (OK.EXISTS, OK.FORALL):
        vs = [{"name": v.name, "type": upj.p_type(v.type)} for v in e.variables()]
        return upj.E("exists" if nt == OK.EXISTS else "forall", [px(e.arg(0))], vars_=vs)
    if nt == OK.FLUENT_EXP:
        return upj.E("fluent", [px(a) for a in e.args], name=e.fluent().name)
    if nt in upj._OPS:
        return upj.E(upj._OPS[nt], [px(a) for a in e.args])
    return upj.p_expr(e)


def p_params(ps):
    return [{"name": p.name, "type": upj.p_type(p.type)} for p in ps]


def p_subtask(st):
    return {"id": st.identifier, "task": st.task.name, "args": [px(a) for a in st.parameters]}


def p_htn(problem):
    from unified_planning.model.htn import HierarchicalProblem

    if not isinstance(problem, HierarchicalProblem):
        return NONE
    tn = problem.task_network
    return {
        "k": "htn",
        "tasks": [{"name": t.name, "params": p_params(t.parameters)} for t in problem.tasks],
        "methods": [
            {
                "name": m.name,
                "params": p_params(m.parameters),
                "task": m.achieved_task.task.name,
                "targs": [px(a) for a in m.achieved_task.parameters],
                "subtasks": [p_subtask(s) for s in m.subtasks],
                "constraints": [px(c) for c in m.constraints],
                "pre": [px(c) for c in m.preconditions],
            }
            for m in problem.methods
        ],
        "netvars": p_params(tn.variables),
        "netsubtasks": [p_subtask(s) for s in tn.subtasks],
        "netconstraints": [px(c) for c in tn.constraints],
    }


def proj_problem(problem):
    """UPJ + the settings UPJ does not carry; None when the class has no projection."""
    try:
        with kinded():
            U = upj.project(problem)
            U["htn"] = p_htn(problem)
        U["epsilon"] = NONE if problem.epsilon is None else upj.NV(problem.epsilon)
        U["discrete"] = bool(problem.discrete_time)
        U["selfov"] = bool(problem.self_overlapping)
        return enc(U)
    except Exception:
        return None


NOPLAN = {"kind": "none", "steps": []}


def p_ai(ai, t=NONE, d=NONE):
    return {"a": ai.action.name, "args": [p_const_k(x) for x in ai.actual_parameters], "t": t, "d": d}


def proj_plan(plan):
    from unified_planning.plans import SequentialPlan, TimeTriggeredPlan

    if plan is None:
        return NOPLAN
    if type(plan) is SequentialPlan:
        return enc({"kind": "seq", "steps": [p_ai(a) for a in plan.actions]})
    if type(plan) is TimeTriggeredPlan:
        return enc({"kind": "tt", "steps": [p_ai(a, upj.NV(s), NONE if d is None else upj.NV(d)) for (s, a, d) in plan.timed_actions]})
    return None


def p_cont(x, item):
    return NONE if x is None else {"k": "some", "items": [item(i) for i in x]}


def p_map_back(res, problem):
    """the behaviour of map_back_action_instance on every ground action of the compiled problem"""
    from unified_planning.plans import ActionInstance
    from .. import simobs

    if res.map_back_action_instance is None or res.problem is None:
        return []
    Q = upj.project(res.problem)
    rows = []
    for g in gen.ground_actions(Q):
        qa = res.problem.action(g["a"])
        ai = ActionInstance(qa, simobs._params(res.problem, qa, g["args"]))
        b = res.map_back_action_instance(ai)
        rows.append({"q": p_ai(ai), "p": NONE if b is None else p_ai(b)})
    return rows


def proj_result(res, cls, problem):
    out = {"cls": cls, "status": "", "engine": str(res.engine_name), "plan": NOPLAN, "metrics": NONE, "logs": NONE,
           "reason": "", "inapp": NONE, "mevals": NONE, "map": [], "problem": NONE}
    out["metrics"] = p_cont(None if res.metrics is None else sorted(res.metrics.items()), lambda kv: [str(kv[0]), str(kv[1])])
    out["logs"] = p_cont(res.log_messages, lambda m: {"level": m.level.name, "msg": str(m.message)})
    if cls == "pgr":
        out["status"] = res.status.name
        pp = proj_plan(res.plan)
        if pp is None:
            return None
        out["plan"] = pp
    elif cls == "vr":
        out["status"] = res.status.name
        out["reason"] = "" if res.reason is None else res.reason.name
        out["inapp"] = NONE if res.inapplicable_action is None else p_ai(res.inapplicable_action)
        me = res.metric_evaluations
        out["mevals"] = p_cont(None if me is None else list(me.items()), lambda kv: {"m": type(kv[0]).__name__, "v": upj.NV(kv[1])})
    else:
        pp = proj_problem(res.problem)
        if pp is None:
            return None
        out["problem"] = {"k": "upj", "P": pp}
        out["map"] = p_map_back(res, problem)
    return enc(out)


# ----------------------------------------------------------------------------------------
# building the artefacts TLC describes (public API only)
# ----------------------------------------------------------------------------------------
def build_plan(problem, d):
    from unified_planning.plans import SequentialPlan, TimeTriggeredPlan, PartialOrderPlan, STNPlan, ActionInstance
    from unified_planning.plans.stn_plan import STNPlanNode
    from unified_planning.model.timing import TimepointKind
    from .. import simobs

    em = problem.environment.expression_manager

    def ai(s):
        a = problem.action(s["a"])
        args = []
        for v in s["args"]:
            if v["k"] == "o":
                args.append(em.ObjectExp(problem.object(v["o"])))
            elif v["k"] == "b":
                args.append(em.Bool(v["b"]))
            elif v["k"] == "r":
                args.append(em.Real(frac(v)))
            else:
                n = num(v)
                args.append(em.Int(n) if isinstance(n, int) else em.Real(n))
        return ActionInstance(a, tuple(args))

    ais = [ai(s) for s in d["steps"]]
    if d["kind"] == "seq":
        return SequentialPlan(ais)
    if d["kind"] == "tt":
        return TimeTriggeredPlan([(frac(s["t"]), a, None if s["d"]["k"] == "none" else frac(s["d"])) for s, a in zip(d["steps"], ais)])
    if d["kind"] == "po":
        return PartialOrderPlan({a: ais[i + 1 : i + 2] for i, a in enumerate(ais)})
    if d["kind"] == "stn":
        nodes = [(STNPlanNode(TimepointKind.START, a), STNPlanNode(TimepointKind.END, a)) for a in ais]
        cons = [(s, Fraction(0), Fraction(0), e) for s, e in nodes]
        cons += [(nodes[i][1], Fraction(1), None, nodes[i + 1][0]) for i in range(len(nodes) - 1)]
        return STNPlan(cons)
    raise MachineryError("plan kind %r" % (d,))


def build_result(problem, case):
    from unified_planning.engines import (PlanGenerationResult, PlanGenerationResultStatus, ValidationResult,
                                          ValidationResultStatus, LogMessage, LogLevel)
    from unified_planning.engines.results import FailedValidationReason
    from unified_planning.model.metrics import MinimizeSequentialPlanLength
    from unified_planning.plans import ActionInstance

    r = case["res"]
    metrics = {"none": None, "empty": {}, "one": {"time": "0.5"}, "many": {"time": "0.5", "nodes": "17", "": ""}}[r["metrics"]]
    logs = {
        "none": None,
        "empty": [],
        "one": [LogMessage(LogLevel.INFO, "searching")],
        "many": [LogMessage(LogLevel.DEBUG, "d"), LogMessage(LogLevel.INFO, "i é\n2nd line"), LogMessage(LogLevel.WARNING, ""),
                 LogMessage(LogLevel.ERROR, "e"), LogMessage(LogLevel.INFO, "i")],
    }[r["logs"]]
    if r["cls"] == "pgr":
        plan = None if case["plan"]["kind"] == "none" else build_plan(problem, case["plan"])
        return PlanGenerationResult(getattr(PlanGenerationResultStatus, r["status"]), plan, "some-engine", metrics, logs)
    if r["cls"] == "vr":
        inapp = None
        if r["inapp"]:
            em = problem.environment.expression_manager
            inapp = ActionInstance(problem.action("a"), (em.ObjectExp(problem.object("o1")),))
        me = {MinimizeSequentialPlanLength(problem.environment): 3} if r["mevals"] else None
        return ValidationResult(getattr(ValidationResultStatus, r["status"]), "some-validator", logs, me,
                                None if r["reason"] == "none" else getattr(FailedValidationReason, r["reason"]), inapp, metrics)
    from .. import compobs

    C, ckind = compobs.get_compiler(r["comp"])
    return C().compile(problem, ckind)


def apply_x(problem, x):
    from unified_planning.model.metrics import TemporalOversubscription
    from unified_planning.model.timing import TimeInterval, GlobalStartTiming

    if x["epsilon"]["k"] != "none":
        problem.epsilon = frac(x["epsilon"])
    if x["discrete"]:
        problem.discrete_time = True
    if x["selfov"]:
        problem.self_overlapping = True
    if x["toversub"]:
        em = problem.environment.expression_manager
        g = em.FluentExp(problem.fluent("b"), (em.ObjectExp(problem.object("o2")),))
        iv = TimeInterval(GlobalStartTiming(5), GlobalStartTiming(Fraction(22, 3)), True, False)
        problem.add_quality_metric(TemporalOversubscription({(iv, g): Fraction(1, 3), (iv, em.Not(g)): 4}, problem.environment))


# ----------------------------------------------------------------------------------------
# one observed transition
# ----------------------------------------------------------------------------------------
def _site(ex):
    tb = traceback.extract_tb(ex.__traceback__)
    for fr in reversed(tb):
        if "/unified_planning/" in fr.filename:
            return "%s:%s" % (fr.filename.split("/unified_planning/")[-1], fr.name)
    return "?"


def _exc(ex):
    return type(ex).__name__, _site(ex), str(ex)[:300]


def features(cls, obj, PJ):
    """small deterministic feature vector of the INPUT (for signatures of findings)"""
    fs = set()
    if cls not in ("problem", "cr"):
        PJ = None  # plans and the other results do not carry the problem
    for v in walk(PJ) if PJ is not None else ():
        if isinstance(v, dict):
            if v.get("k") == "real" and "lo" in v and (v["lo"]["k"] == "none") != (v["hi"]["k"] == "none"):
                fs.add("hbreal")
            if v.get("k") in ("N", "R") and (unlimbs(v["n"]) >= I64 + (1 if v["s"] < 0 else 0) or unlimbs(v["d"]) >= I64):
                fs.add("beyond-int64")
    if PJ is not None and any(t.get("op") == "const" for t in PJ.get("traj", [])):
        fs.add("const-traj")
    if PJ is not None:
        # an increase / decrease by a constant that lies outside the bounds of the fluent's type (compilers
        # produce them by substituting static fluents; the model-building API refuses to add them)
        ftypes = {f["name"]: dec(f["type"]) for f in PJ.get("fluents", [])}
        effs = [e for a in PJ.get("actions", []) for e in a["effects"]] + list(PJ.get("timed_effects", []))
        for e in effs:
            e = dec(e.get("e", e))
            t = ftypes.get(e["f"]["name"], {})
            if e["kind"] in ("inc", "dec") and e["v"]["op"] == "const" and e["v"]["v"]["k"] in ("n", "r") and t.get("k") in ("int", "real"):
                c = frac(e["v"]["v"])
                if (t["lo"]["k"] != "none" and c < frac(t["lo"])) or (t["hi"]["k"] != "none" and c > frac(t["hi"])):
                    fs.add("incdec-const-outside-bounds")
    try:
        if cls in ("plan", "pgr"):
            from unified_planning.plans import SequentialPlan, TimeTriggeredPlan

            plan = obj if cls == "plan" else obj.plan
            if plan is None:
                fs.add("no-plan")
            elif isinstance(plan, SequentialPlan) and len(plan.actions) == 0:
                fs.add("empty-plan")
            elif isinstance(plan, TimeTriggeredPlan) and any(d is not None and d == 0 for (_, _, d) in plan.timed_actions):
                fs.add("zero-duration")
        if cls == "cr" and obj.problem is not None and any(len(a.parameters) > 0 for a in obj.problem.actions):
            fs.add("lifted-actions")
    except Exception:
        pass
    return sorted(fs)


def transition(src, cls, obj, problem, must=False, env=None, meta=None):
    """Write, ship as bytes, Read; project both ends.  Returns the record for ProtoJudge."""
    from unified_planning.grpc.proto_writer import ProtobufWriter
    from unified_planning.grpc.proto_reader import ProtobufReader

    m = dict(meta or {})
    rec = {"src": src, "cls": cls, "must": bool(must), "w": "ok", "r": "skip", "mode": "opaque", "a": NONE, "b": NONE,
           "ka": [], "kb": [], "eq": False, "meta": m}
    pobj = obj if cls == "problem" else (obj.problem if cls == "cr" else None)
    PJ = None
    with contextlib.redirect_stdout(io.StringIO()):
        if cls == "vr":
            # the state trace and the computed interpreted functions are documented as not being part of
            # the protobuf representation (test_protobuf_io.py): removed from the input
            obj = dataclasses.replace(obj, trace=None, calculated_interpreted_functions=None)
        try:
            if cls == "problem":
                PJ = a = proj_problem(obj)
            elif cls == "plan":
                a = proj_plan(obj)
            else:
                a = proj_result(obj, cls, problem)
                PJ = a["problem"].get("P") if a is not None else None
        except ImplTimeout:
            raise
        except Exception as ex:
            a = None
            m["project_exc"] = repr(ex)[:200]
        if PJ is None and problem is not None and cls != "problem":
            PJ = m.get("PJ")
        m["feats"] = features(cls, obj, PJ)
        m.pop("PJ", None)
        m["class"] = type(obj).__name__
        try:
            if pobj is not None:
                rec["ka"] = sorted(pobj.kind.features)
        except Exception as ex:
            m["kind_exc"] = repr(ex)[:200]
        try:
            data = call_limited(lambda: ProtobufWriter().convert(obj).SerializeToString(), 30)
        except ImplTimeout:
            rec["w"] = "raise"
            m["wexc"], m["wsite"], m["wdetail"] = "TIMEOUT", "?", ""
            return rec
        except Exception as ex:
            rec["w"] = "raise"
            m["wexc"], m["wsite"], m["wdetail"] = _exc(ex)
            return rec
        import unified_planning.grpc.generated.unified_planning_pb2 as proto

        mcls = {"problem": proto.Problem, "plan": proto.Plan, "pgr": proto.PlanGenerationResult,
                "vr": proto.ValidationResult, "cr": proto.CompilerResult}[cls]

        def read():
            msg = mcls()
            msg.ParseFromString(data)
            if cls == "problem":
                return ProtobufReader().convert(msg) if env is None else ProtobufReader().convert(msg, env)
            if cls == "vr":
                return ProtobufReader().convert(msg)
            return ProtobufReader().convert(msg, problem)

        try:
            back = call_limited(read, 30)
            rec["r"] = "ok"
        except ImplTimeout:
            rec["r"] = "raise"
            m["rexc"], m["rsite"], m["rdetail"] = "TIMEOUT", "?", ""
            return rec
        except Exception as ex:
            rec["r"] = "raise"
            m["rexc"], m["rsite"], m["rdetail"] = _exc(ex)
            return rec
        try:
            if cls == "cr":
                rec["eq"] = bool(call_limited(lambda: obj.problem == back.problem, 60, 10))
            else:
                rec["eq"] = bool(call_limited(lambda: obj == back, 60, 10))
        except ImplTimeout:
            m["eq_exc"] = "TIMEOUT"
        except Exception as ex:
            m["eq_exc"] = repr(ex)[:200]
        try:
            m["streq"] = str(obj.problem if cls == "cr" else obj) == str(back.problem if cls == "cr" else back)
        except Exception:
            m["streq"] = False
        bobj = back if cls == "problem" else (back.problem if cls == "cr" else None)
        try:
            if bobj is not None:
                rec["kb"] = sorted(bobj.kind.features)
        except Exception as ex:
            m["kind_exc"] = repr(ex)[:200]
            rec["kb"] = ["<kind raises %s>" % type(ex).__name__]
        b = None
        if a is not None:
            try:
                if cls == "problem":
                    b = proj_problem(back)
                elif cls == "plan":
                    b = proj_plan(back)
                else:
                    b = proj_result(back, cls, problem)
            except Exception as ex:
                m["project_back_exc"] = repr(ex)[:200]
            if b is None:
                # the class of the result has no projection although the original had one: keep the
                # comparison meaningful by projecting only what both have (class names)
                a, b = {"kind": "class:" + type(obj).__name__, "steps": []}, {"kind": "class:" + type(back).__name__, "steps": []}
                if cls != "plan":
                    a = b = None
        if a is not None and b is not None:
            rec["mode"], rec["a"], rec["b"] = "proj", a, b
    return rec


# ----------------------------------------------------------------------------------------
# jobs (run in worker processes; one environment per process)
# ----------------------------------------------------------------------------------------
def _fresh_env(fresh):
    import unified_planning as up

    return up.environment.Environment() if fresh else None


def job_g1(job):
    case, fresh = job["case"], job.get("fresh", False)
    meta = {"cat": case["cat"], "form": case["form"], "job": job}
    src = "fresh" if fresh else "g1"
    env = _fresh_env(fresh)
    try:
        with contextlib.redirect_stdout(io.StringIO()):
            problem = call_limited(lambda: build_k(dec(case["P"]), env), 30)
            apply_x(problem, dec(case["x"]))
            if case["res"]["cls"] != "none":
                cls, obj = case["res"]["cls"], call_limited(lambda: build_result(problem, case), 60)
            elif case["plan"]["kind"] != "none":
                cls, obj = "plan", build_plan(problem, dec(case["plan"]))
            else:
                cls, obj = "problem", problem
    except ImplTimeout:
        return [{"unbuildable": "TIMEOUT", "meta": meta}]
    except MachineryError:
        raise
    except Exception as ex:
        return [{"unbuildable": "%s@%s: %s" % _exc(ex), "meta": meta}]
    meta["PJ"] = proj_problem(problem)
    return [transition(src, cls, obj, problem, case["must"], env, meta)]


STATUSES = ["SOLVED_SATISFICING", "SOLVED_OPTIMALLY", "UNSOLVABLE_PROVEN", "UNSOLVABLE_INCOMPLETELY", "TIMEOUT", "MEMOUT",
            "INTERNAL_ERROR", "UNSUPPORTED_PROBLEM", "INTERMEDIATE"]


def job_g2(job):
    """a generated problem and the objects derived from it"""
    from unified_planning.engines import PlanGenerationResult, PlanGenerationResultStatus, LogMessage, LogLevel
    from .. import timeobs, compobs

    P, fresh = job["P"], job.get("fresh", False)
    rng = random.Random(job["seed"])
    meta = {"cat": "g2", "form": job["flavour"], "job": job}
    src = "fresh" if fresh else "g2"
    env = _fresh_env(fresh)
    try:
        with contextlib.redirect_stdout(io.StringIO()):
            problem = call_limited(lambda: build_k(P, env), 30)
    except ImplTimeout:
        return [{"unbuildable": "TIMEOUT", "meta": meta}]
    except Exception as ex:
        return [{"unbuildable": "%s@%s: %s" % _exc(ex), "meta": meta}]
    out = [transition(src, "problem", problem, problem, False, env, meta)]
    if fresh:
        return out
    PJ = out[0]["a"] if out[0]["mode"] == "proj" else None
    meta = dict(meta, PJ=PJ)
    try:
        with contextlib.redirect_stdout(io.StringIO()):
            if job["temporal"]:
                steps = gen.random_tt_plan(rng, P)
                plan = timeobs.build_tt_plan(problem, steps)
                from unified_planning.engines.plan_validator import TimeTriggeredPlanValidator as V
            else:
                gas = gen.ground_actions(P)
                steps = [rng.choice(gas) for _ in range(rng.choice([0, 1, 2, 3]))] if gas else []
                plan = timeobs.build_seq_plan(problem, steps)
                from unified_planning.engines.plan_validator import SequentialPlanValidator as V
    except Exception as ex:
        return out + [{"unbuildable": "plan %s@%s: %s" % _exc(ex), "meta": meta}]
    out.append(transition(src, "plan", plan, problem, False, None, meta))
    logs = rng.choice([None, [LogMessage(LogLevel.INFO, "x %d" % job["seed"])], [LogMessage(LogLevel.WARNING, "w"), LogMessage(LogLevel.DEBUG, "")]])
    metrics = rng.choice([None, {"t": "1"}, {"a": "1", "b": "x y"}])
    pgr = PlanGenerationResult(getattr(PlanGenerationResultStatus, rng.choice(STATUSES)), plan, "engine %d" % (job["seed"] % 7), metrics, logs)
    out.append(transition(src, "pgr", pgr, problem, False, None, meta))
    with contextlib.redirect_stdout(io.StringIO()):
        _, _, vres = timeobs.validate(V, problem, plan)
    if vres is not None:
        out.append(transition(src, "vr", vres, problem, False, None, meta))
    if job.get("compiler"):
        C, ckind = compobs.get_compiler(job["compiler"])
        try:
            with contextlib.redirect_stdout(io.StringIO()):
                ok = C.supports(problem.kind)
                cres = call_limited(lambda: C().compile(problem, ckind), 40) if ok else None
        except ImplTimeout:
            cres = None
        except Exception:
            cres = None  # compiler failures are C08's subject
        if cres is not None:
            out.append(transition(src, "cr", cres, problem, False, None, dict(meta, compiler=job["compiler"])))
    return out


_EX = None


def job_ex(job):
    """the bundled example problems (slice k of K, by sorted name) and their plans"""
    global _EX
    if _EX is None:
        from unified_planning.test.examples import get_example_problems

        with contextlib.redirect_stdout(io.StringIO()):
            _EX = get_example_problems()
    out = []
    for name in sorted(_EX)[job["k"] :: job["K"]]:
        e = _EX[name]
        j1 = {"kind": "ex", "k": sorted(_EX).index(name), "K": len(_EX)}
        meta = {"cat": "example", "form": name, "job": j1}
        first = transition("ex", "problem", e.problem, e.problem, False, None, meta)
        out.append(first)
        PJ = first["a"] if first["mode"] == "proj" else None
        for i, pl in enumerate(list(e.valid_plans) + list(e.invalid_plans)):
            out.append(transition("ex", "plan", pl, e.problem, False, None, dict(meta, form="%s plan %d" % (name, i), PJ=PJ)))
    return out


def worker(job):
    try:
        return {"g1": job_g1, "g2": job_g2, "ex": job_ex}[job["kind"]](job)
    except MachineryError as ex:
        return [{"harness": str(ex)}]
    except Exception:
        return [{"harness": traceback.format_exc()[-1500:]}]


# ----------------------------------------------------------------------------------------
# corpus
# ----------------------------------------------------------------------------------------
def variants(rng, P):
    """half-bounded numeric types and constants of large magnitude inside generated problems"""
    flav = []
    for f in P["fluents"]:
        t = f["type"]
        if t["k"] in ("int", "real") and not f["sig"] and rng.random() < 0.25:
            if t["lo"]["k"] != "none" and t["hi"]["k"] != "none":
                t[rng.choice(["lo", "hi"])] = NONE
                flav.append("half-bounded-" + t["k"])
            elif t["lo"]["k"] == "none" and t["hi"]["k"] == "none" and t["k"] == "real" and rng.random() < 0.5:
                t["lo"] = upj.NV(rng.choice([-1000, Fraction(-7, 3)]))
                flav.append("half-bounded-real")
    if rng.random() < 0.3:
        cands = [i for i in P["init"] if i["v"]["k"] == "n"]
        for f in P["fluents"]:
            if f["type"]["k"] == "real" and f["type"]["lo"]["k"] == "none" and f["type"]["hi"]["k"] == "none" and cands:
                for i in cands:
                    if i["f"] == f["name"]:
                        i["v"] = upj.NV(rng.choice([Fraction(10 ** 12, 7), -(10 ** 15), Fraction(1, 3 ** 30), 2 ** 62 + 1]))
                        flav.append("big-constant")
                        break
    if rng.random() < 0.4:
        flav += real_nodes(rng, P)
    return flav


def _is_int_const(v):
    return v.get("k") == "n" and v["d"] == 1


def real_nodes(rng, P):
    """integral constant nodes of a generated problem re-written as REAL constant nodes ({"k": "r"}), each with
    probability 1/2, in the positions where the model-building API takes a real for an integer: initial and
    default values of real fluents, values assigned / added to real fluents, the constant side of a comparison
    (conditions, goals, constraints, effect conditions) and constant duration bounds"""
    n = [0]

    def flip(v):
        if _is_int_const(v) and rng.random() < 0.5:
            v["k"] = "r"
            n[0] += 1

    def in_expr(e):
        if isinstance(e, dict) and "op" in e:
            for a in e["args"]:
                if e["op"] in ("le", "lt", "eq") and a["op"] == "const":
                    flip(a["v"])
                in_expr(a)

    real = {f["name"] for f in P["fluents"] if f["type"]["k"] == "real"}
    for f in P["fluents"]:
        if f["name"] in real:
            flip(f["default"])
    for i in P["init"]:
        if i["f"] in real:
            flip(i["v"])

    def in_effect(e):
        if e["f"]["name"] in real and e["v"]["op"] == "const":
            flip(e["v"]["v"])
        in_expr(e["v"])
        in_expr(e["c"])

    for a in P["actions"]:
        for c in a["pre"]:
            in_expr(c)
        for c in a["conds"]:
            in_expr(c["c"])
        for e in a["effects"]:
            in_effect(e.get("e", e))
        if a["dur"].get("k") != "none":
            for b in ("lo", "hi"):
                if a["dur"][b]["op"] == "const":
                    flip(a["dur"][b]["v"])
                in_expr(a["dur"][b])
    for k in ("goals", "invariants", "traj"):
        for g in P.get(k, []):
            in_expr(g)
    for tg in P.get("timed_goals", []):
        in_expr(tg["g"])
    for te in P.get("timed_effects", []):
        in_effect(te["e"])
    m = P.get("metric", {"kind": "none"})
    if m["kind"] != "none":
        for c in m["costs"]:
            if c["c"]["op"] == "const":
                flip(c["c"]["v"])
        for e in (m["default"], m["expr"]):
            if e["op"] == "const":
                flip(e["v"])
            in_expr(e)
    return ["real-int-node"] if n[0] else []


COMPS = ["grounder", "cerm", "dcrm", "ncrm", "qrm", "btrm", "sirm", "utfrm"]


def g2_jobs(ctx, n):
    jobs = []
    for i in range(n):
        temporal = i % 2 == 1
        if temporal:
            P = gen.TGen(ctx.rng).problem()
        else:
            P = gen.Gen(ctx.rng, metric="any" if i % 4 == 0 else None, traj=(i % 6 == 2)).problem()
        flav = variants(ctx.rng, P)
        jobs.append({"kind": "g2", "P": P, "seed": ctx.rng.randrange(1 << 30), "temporal": temporal,
                     "flavour": ("temporal" if temporal else "classical") + "".join("+" + f for f in sorted(set(flav))),
                     "compiler": None if temporal else COMPS[(i // 2) % len(COMPS)]})
    return jobs


# ----------------------------------------------------------------------------------------
# judging
# ----------------------------------------------------------------------------------------
WIRE = ("id", "src", "cls", "must", "w", "r", "mode", "a", "b", "ka", "kb", "eq")


def judge(ctx, label, recs):
    for i, r in enumerate(recs):
        r["id"] = i + 1
    d = ctx.sub("judge-" + label)
    path = os.path.join(d, "batch.ndjson")
    tlc.write_ndjson(path, [{k: r[k] for k in WIRE} for r in recs])
    res = tlc.run_tlc("ProtoJudge", JUDGE_CFG, d, env={"BATCH": path}, timeout=3000)
    if res.error or res.violated:
        raise MachineryError("ProtoJudge failed: %s %s" % (res.violated, (res.error or "")[-3000:]))
    if res.distinct != len(recs):
        raise MachineryError("judge consumed %d of %d records" % (res.distinct, len(recs)))
    ctx.add_tlc("ProtoJudge-" + label, res)
    fails = {}
    for p in res.printed:
        if p and p[0] == "FAIL":
            fails.setdefault(p[1], set()).add(p[2])
    return fails


def signature(r, clause):
    m = r["meta"]
    if clause == "env-mixup":
        return "env-mixup"
    detail = ""
    if clause == "write-raises":
        detail = "%s@%s" % (m.get("wexc"), m.get("wsite"))
    elif clause == "read-raises":
        detail = "%s@%s" % (m.get("rexc"), m.get("rsite"))
    return "|".join([clause, r["cls"], detail, "+".join(m.get("feats", []))])


def report(ctx, recs, fails):
    byid = {r["id"]: r for r in recs}
    for rid in sorted(fails):
        r = byid[rid]
        m = r["meta"]
        for clause in sorted(fails[rid]):
            data = {"clause": clause, "source": r["src"], "class": m.get("class"), "category": m.get("cat"), "form": m.get("form"),
                    "features": m.get("feats"), "writer": {"exc": m.get("wexc"), "site": m.get("wsite"), "detail": m.get("wdetail")},
                    "reader": {"exc": m.get("rexc"), "site": m.get("rsite"), "detail": m.get("rdetail")},
                    "impl_eq": r["eq"], "impl_eq_exc": m.get("eq_exc"), "str_eq": m.get("streq"), "kind_original": r["ka"], "kind_read_back": r["kb"], "job": m.get("job")}
            if clause.startswith("upj-") and r["cls"] == "problem" and r["mode"] == "proj":
                sec = clause[4:]
                data["original"], data["read_back"] = r["a"].get(sec), r["b"].get(sec)
            elif r["mode"] == "proj" and r["cls"] != "problem":
                data["original"] = {k: v for k, v in r["a"].items() if k != "problem"}
                data["read_back"] = {k: v for k, v in r["b"].items() if k != "problem"}
            what = "%s of %s (%s %s): %s" % (
                clause, m.get("class"), m.get("cat"), m.get("form"),
                m.get("wdetail") if clause == "write-raises" else m.get("rdetail") if clause in ("read-raises", "env-mixup") and m.get("rdetail") else "Read(Write(x)) differs from x")
            ctx.violation(signature(r, clause), what[:300], data)


def collect(ctx, results, stats):
    recs = []
    for lst in results:
        for r in lst:
            if "harness" in r:
                raise MachineryError(r["harness"])
            if "unbuildable" in r:
                stats["unbuildable"] += 1
                stats["unbuildable_by_cat"][r["meta"]["cat"]] = stats["unbuildable_by_cat"].get(r["meta"]["cat"], 0) + 1
                stats["unbuildable_examples"].setdefault(r["unbuildable"].split(":")[0][:80], r["meta"]["form"])
                continue
            recs.append(r)
    return recs


def account(ctx, recs, stats):
    for r in recs:
        key = r["src"] + ":" + r["cls"]
        s = stats["by_source"].setdefault(key, {"judged_in_full": 0, "writer_rejects": 0, "reader_raises": 0, "opaque": 0})
        if r["w"] == "raise":
            s["writer_rejects"] += 1
            if not r["must"]:
                ctx.cov["unspecified"] += 1
                stats["writer_rejections"].setdefault("%s %s@%s" % (r["cls"], r["meta"].get("wexc"), r["meta"].get("wsite")), r["meta"].get("form"))
        elif r["r"] == "raise":
            s["reader_raises"] += 1
        else:
            s["judged_in_full"] += 1
            if r["mode"] == "opaque":
                s["opaque"] += 1
            if r["meta"].get("streq") is False and r["eq"]:
                stats["str_differs_although_equal"] += 1


def warm_up():
    """per worker process, outside every time limit: create the global environment (its factory imports
    every engine module) and touch the writer, the reader, the validators and the compilers once"""
    from .. import compobs

    with contextlib.redirect_stdout(io.StringIO()):
        import unified_planning.grpc.proto_writer, unified_planning.grpc.proto_reader  # noqa: F401
        import unified_planning.engines.plan_validator  # noqa: F401
        from unified_planning.shortcuts import get_environment

        get_environment()
        for c in COMPS:
            compobs.get_compiler(c)
        rng = random.Random(0)
        job_g2({"kind": "g2", "P": gen.Gen(rng, max_actions=2, max_fluents=2).problem(), "seed": 0, "temporal": False,
                "flavour": "warm-up", "compiler": "grounder"})


def run_jobs(jobs, nproc=6):
    if not jobs:
        return []
    slow = [j for j in jobs if j["kind"] == "ex"]
    fast = [j for j in jobs if j["kind"] != "ex"]
    with Pool(nproc, initializer=warm_up) as pool:
        r1 = pool.map_async(worker, slow, chunksize=1)
        r2 = pool.map_async(worker, fast, chunksize=4)
        return r2.get() + r1.get()


def enumerate_forms(ctx):
    d = ctx.sub("forms")
    out = os.path.join(d, "cases.ndjson")
    res = tlc.run_tlc("ProtoForms", ENUM_CFG, d, env={"OUT": out}, workers=1, timeout=3000)
    if res.error:
        raise MachineryError(res.error)
    cases = tlc.read_ndjson(out)
    em = [p for p in res.printed if p and p[0] == "EMITTED"]
    if not em or em[0][1] != len(cases) or sum(em[0][2:]) != len(cases):
        raise MachineryError("ProtoForms emitted %r, read %d" % (em, len(cases)))
    ctx.add_tlc("ProtoForms", res)
    return cases, dict(zip(CATS, em[0][2:]))


def new_stats():
    return {"unbuildable": 0, "unbuildable_by_cat": {}, "unbuildable_examples": {}, "by_source": {}, "writer_rejections": {},
            "str_differs_although_equal": 0}


def run(ctx):
    q = ctx.quick
    stats = new_stats()
    # ---- G1: the form space, enumerated by TLC ----------------------------------------------------
    cases, sizes = enumerate_forms(ctx)
    jobs = [{"kind": "g1", "case": c} for c in cases]
    # ---- G2: generated problems and derived objects -----------------------------------------------
    g2 = g2_jobs(ctx, 120 if q else 1500)
    # ---- G3: bundled examples ----------------------------------------------------------------------
    ex = [{"kind": "ex", "k": k, "K": 6} for k in range(6)]
    # ---- secondary mode: fresh Environment ---------------------------------------------------------
    fresh = [dict(j, fresh=True) for j in g2[: 24 if q else 120]]
    fresh += [dict(j, fresh=True) for j in jobs if j["case"]["cat"] in ("ntype", "effect", "plan", "pgr") and j["case"]["form"].endswith(
        ("int:zero:seven:fluent", "assign:num:cond:forall:inst", "seq:aa:none:none", "SOLVED_SATISFICING:seq:none:none"))]
    results = run_jobs(jobs + g2 + ex + fresh, 6 if q else 12)
    recs = collect(ctx, results, stats)
    fails = judge(ctx, "all", recs)
    report(ctx, recs, fails)
    account(ctx, recs, stats)
    # ---- vacuity ----------------------------------------------------------------------------------
    full = {}
    for r in recs:
        if r["src"] == "g1" and r["w"] == "ok" and r["r"] == "ok" and r["mode"] == "proj":
            full[r["meta"]["cat"]] = full.get(r["meta"]["cat"], 0) + 1
    missing = [c for c in CATS if full.get(c, 0) == 0]
    if missing:
        raise MachineryError("vacuous: no artefact of the categories %r was written, read and projected" % (missing,))
    for src in ("g2:problem", "g2:plan", "g2:pgr", "g2:vr", "g2:cr", "ex:problem", "ex:plan"):
        if stats["by_source"].get(src, {}).get("judged_in_full", 0) == 0:
            raise MachineryError("vacuous: nothing judged for " + src)
    nfull = sum(s["judged_in_full"] for s in stats["by_source"].values())
    ctx.cov["evaluations"] = len(recs)
    ctx.cov["traces_validated_against_impl"] = len(recs)
    ctx.cov["distinct_nontrivial"] = nfull
    ctx.cov["exhaustive"] = True
    ctx.cov["form_space"] = sizes
    ctx.cov["g1_judged_in_full_by_category"] = full
    ctx.cov.update({k: v for k, v in stats.items()})
    ctx.cov["rule"] = (
        "one evaluation = one transition y = Read(Write(x)) on the real ProtobufWriter / ProtobufReader (through the "
        "serialised bytes), judged by ProtoJudge; G1: all %d artefacts of the form space of ProtoForms (%r), G2: %d generated "
        "problems each with a plan, a PlanGenerationResult, a real ValidationResult and (classical) a real CompilerResult, G3: "
        "every bundled example problem and plan, + a fresh-Environment sample.  Non-trivial = both calls returned and the "
        "judge compared the two ends; writer rejections of forms the property does not name are counted as unspecified."
        % (len(cases), sizes, len(g2))
    )
    sam = next((r for r in recs if r["src"] == "g1" and r["meta"]["cat"] == "const" and r["w"] == "ok" and r["r"] == "ok"), None)
    if sam is not None:
        ctx.sample({"form": sam["meta"]["form"], "original_init": sam["a"]["init"], "read_back_init": sam["b"]["init"],
                    "original_goals": sam["a"]["goals"], "impl_eq": sam["eq"]})
    sam = next((r for r in recs if r["src"] == "g1" and r["cls"] == "plan" and r["mode"] == "proj"), None)
    if sam is not None:
        ctx.sample({"form": sam["meta"]["form"], "original": sam["a"], "read_back": sam["b"], "impl_eq": sam["eq"]})
    ctx.assumptions += [
        "TLC, the CommunityModules Json reader, harness/upj.py build/project and the projections of harness/drivers/c20.py are trusted",
        "level_note: a codec has a single transition; the specification contributes the exhaustive form space and the independent equality, not a state space",
        "numbers beyond 2^30 travel as base-10^4 limb lists (computed by TLC for G1, transcribed digit group by digit group by Python)",
        "scheduling problems, hierarchical plans, schedules and temporal-oversubscription metrics have no projection: only == and kind equality are judged there",
        "ValidationResult.trace and .calculated_interpreted_functions are removed from the input (documented as not part of the protobuf representation)",
        "CompilerResult: == is taken on the compiled problems and map_back_action_instance is compared by its behaviour on every ground action (the dataclass == compares callables by identity)",
    ]


# ----------------------------------------------------------------------------------------
# replay / selftest
# ----------------------------------------------------------------------------------------
def replay(ctx, doc):
    from ..common import finish

    job = doc["data"]["job"]
    recs = collect(ctx, [worker(job)], new_stats())
    fails = judge(ctx, "replay", recs)
    report(ctx, recs, fails)
    ctx.cov["evaluations"] = len(recs)
    return finish(ctx)


def selftest(ctx):
    """(a) corrupting one recorded field of an accepted observation makes the judge reject it, clause by
    clause; (b) re-ordering the collections a model holds without order is accepted (the bags of NormUPJ)"""
    import copy

    cases, _ = enumerate_forms(ctx)
    pick = {"ntype": "int:zero:seven:fluent", "const": "big12_7:init", "timing": "end:neg2third:dcond", "interval": "TF:dur:rat",
            "effect": "dec:num:cond:forall:inst", "metric": "costs-all", "flags": "hundredth:TF", "plan": "tt:ad:third:third",
            "pgr": "SOLVED_SATISFICING:seq:one:many", "vr": "VALID:one:one:none:FF", "cr": "grounder"}
    jobs = [{"kind": "g1", "case": c} for c in cases if pick.get(c["cat"]) == c["form"]]
    recs = collect(ctx, [worker(j) for j in jobs], new_stats())
    # REAL constant nodes with an integral value (kept apart from `pick`: one form per category there)
    pick_rn = {"const": "large~realnode:goal", "plan": "seq:n-realnode:none:none"}
    rn = collect(ctx, [worker({"kind": "g1", "case": c}) for c in cases if pick_rn.get(c["cat"]) == c["form"]], new_stats())
    rn = {r["meta"]["cat"]: r for r in rn if r["mode"] == "proj"}
    if len(rn) != len(pick_rn) or judge(ctx, "clean-realnode", list(rn.values())):
        print("selftest: the clean observations with REAL constant nodes are not accepted")
        return 1
    # the grounder's result has log_messages None, read back as []: a listed finding, not part of this test
    recs = [r for r in recs if r["mode"] == "proj"]
    clean = judge(ctx, "clean", recs)
    if len(recs) != len(pick) or any(c - {"absent-vs-empty-log_messages"} for c in clean.values()):
        print("selftest: the clean observations are not accepted", clean)
        return 1
    by = {r["meta"]["cat"]: r for r in recs}
    ex = upj.E("fluent", [upj.E("obj", name="o1")], name="b")
    empty_htn = {"k": "htn", "tasks": [], "methods": [], "netvars": [], "netsubtasks": [], "netconstraints": []}
    C = [  # (category, expected clause, corruption of the read-back projection)
        ("ntype", "upj-fluents", lambda b: b["fluents"][1]["type"].__setitem__("hi", NONE)),
        ("ntype", "upj-name", lambda b: b.__setitem__("name", "q")),
        ("ntype", "upj-types", lambda b: b["types"].append({"name": "U", "parent": "T"})),
        ("ntype", "upj-objects", lambda b: b["objects"].pop()),
        ("ntype", "upj-goals", lambda b: b["goals"].append(ex)),
        ("ntype", "upj-invariants", lambda b: b["invariants"].append(ex)),
        ("ntype", "upj-traj", lambda b: b["traj"].append(upj.E("sometime", [ex]))),
        ("ntype", "upj-nmetrics", lambda b: b.__setitem__("nmetrics", 1)),
        ("ntype", "upj-htn", lambda b: b.__setitem__("htn", empty_htn)),
        ("const", "upj-init", lambda b: b["init"][0]["v"]["n"].__setitem__(0, b["init"][0]["v"]["n"][0] + 1)),
        ("timing", "upj-actions", lambda b: b["actions"][0]["conds"][0]["iv"]["lo"]["delay"].__setitem__("n", 2)),
        ("interval", "upj-actions", lambda b: b["actions"][0]["dur"].__setitem__("lopen", False)),
        ("effect", "upj-actions", lambda b: b["actions"][0]["effects"][0].__setitem__("kind", "inc")),
        ("effect", "upj-actions", lambda b: b["actions"][0]["effects"].append(b["actions"][0]["effects"][0])),  # multiplicity
        ("metric", "upj-metric", lambda b: b["metric"]["costs"].pop()),
        ("flags", "upj-epsilon", lambda b: b.__setitem__("epsilon", upj.NV(1))),
        ("flags", "upj-discrete", lambda b: b.__setitem__("discrete", False)),
        ("flags", "upj-selfov", lambda b: b.__setitem__("selfov", True)),
        ("plan", "plan-step-duration", lambda b: b["steps"][1].__setitem__("d", upj.NV(Fraction(2, 3)))),
        ("plan", "plan-step-start", lambda b: b["steps"][0].__setitem__("t", upj.NV(0))),
        ("plan", "plan-step-action", lambda b: b["steps"][0].__setitem__("a", "n")),
        ("plan", "plan-step-arguments", lambda b: b["steps"][0].__setitem__("args", [upj.OV("o2")])),
        ("plan", "plan-length", lambda b: b["steps"].pop()),
        ("plan", "plan-kind", lambda b: b.__setitem__("kind", "seq")),
        ("pgr", "res-log_messages", lambda b: b["logs"]["items"][1].__setitem__("level", "ERROR")),
        ("pgr", "res-log_messages", lambda b: b["logs"]["items"].reverse()),
        ("pgr", "res-engine", lambda b: b.__setitem__("engine", "other")),
        ("pgr", "res-metrics", lambda b: b["metrics"]["items"][0].__setitem__(1, "0.6")),
        ("pgr", "absent-vs-empty-metrics", None),
        ("pgr", "plan-step-arguments", lambda b: b["plan"]["steps"][1].__setitem__("args", [upj.OV("o1")])),
        ("vr", "res-status", lambda b: b.__setitem__("status", "INVALID")),
        ("vr", "res-reason", lambda b: b.__setitem__("reason", "MUTEX_CONFLICT")),
        ("cr", "res-map_back", lambda b: b["map"][0]["p"]["args"].__setitem__(0, upj.OV("o2"))),
        ("cr", "res-problem", lambda b: b.__setitem__("problem", NONE)),
        ("cr", "upj-actions", lambda b: b["problem"]["P"]["actions"].pop()),
    ]
    bad, expect = [], []
    for cat, clause, f in C:
        r = copy.deepcopy(by[cat])
        if f is None:  # empty container on one side, absent on the other
            r["a"]["metrics"], r["b"]["metrics"] = {"k": "some", "items": []}, NONE
        else:
            f(r["b"])
        bad.append(r)
        expect.append(clause)
    # the node kind of a constant is part of the projection: REAL 10^9/1 read back as INT 10^9, REAL 1/1 as INT 1
    r = copy.deepcopy(rn["const"])
    r["b"]["goals"][0]["args"][1]["v"]["k"] = "n"
    bad.append(r)
    expect.append("upj-goals")
    r = copy.deepcopy(rn["plan"])
    r["b"]["steps"][0]["args"][1]["k"] = "n"
    bad.append(r)
    expect.append("plan-step-arguments")
    for extra, clause in ((dict(kb=by["ntype"]["kb"] + ["CONDITIONAL_EFFECTS"]), "kind-gained-CONDITIONAL_EFFECTS"),
                          (dict(kb=by["ntype"]["kb"][1:]), "kind-lost-" + by["ntype"]["kb"][0]), (dict(eq=False), "impl-eq"),
                          (dict(r="raise"), "read-raises"), (dict(w="raise", must=True), "write-raises"),
                          (dict(src="fresh", r="raise"), "env-mixup")):
        bad.append(dict(copy.deepcopy(by["ntype"]), **extra))
        expect.append(clause)
    # (b) permutations that must be accepted
    perm = []
    for cat in ("ntype", "effect", "metric", "cr"):
        r = copy.deepcopy(by[cat])
        P = r["b"]["problem"]["P"] if cat == "cr" else r["b"]
        for k in ("types", "objects", "fluents", "init", "actions", "goals", "timed_goals", "timed_effects"):
            P[k].reverse()
        for a in P["actions"]:
            a["pre"].reverse(), a["effects"].reverse(), a["conds"].reverse()
        P["metric"]["costs"].reverse()
        if cat == "cr":
            r["b"]["map"].reverse()
        perm.append(r)
    fails = judge(ctx, "corrupted", bad + perm)
    ok = True
    for r, clause in zip(bad, expect):
        got = sorted(fails.get(r["id"], []))
        good = clause in got
        ok = ok and good
        print("selftest: %-8s expect %-32s got %s%s" % (r["meta"]["cat"], clause, got, "" if good else "   <-- MISSED"))
    for r in perm:
        got = sorted(fails.get(r["id"], set()) - {"absent-vs-empty-log_messages"})
        ok = ok and not got
        print("selftest: %-8s re-ordered collections: %s" % (r["meta"]["cat"], "accepted" if not got else "REJECTED %s" % got))
    print("selftest:", "ok" if ok else "FAILED")
    return 0 if ok else 1
