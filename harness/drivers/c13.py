"""C13 -- substitution replaces exactly the free occurrences of its keys.

G1/T1  spec/SubstEnum.tla (= SubstCases + MCSubst): TLC enumerates (expression, map) cases over the
       world of spec/Subst.tla and, one state per case, checks that the reference algorithm Subst
       equals the positional reading SubstDecl of the property statement, that the semantic corollary
       Eval(Subst(e, m), sigma) = Eval(e, sigma[m]) holds, that well-sortedness is preserved, ...
Bind   every case is built into real FNodes (harness.upj.b_expr, public constructors only) and
       FNode.substitute / Substituter.substitute is called; recorded: the projected result or the
       exception class, the size of the expression manager's table before/after, the projections of
       the expression, keys and values before/after.
Judge  spec/SubstTrace.tla: Subst!Fails decides every clause (Reject, RejectClass,
       RejectClean, Accept, EitherClass, Result, Semantic, InputsUntouched).
Python builds, calls, projects and numbers records; it never compares a result with an expectation.
"""
import json
import os

from .. import tlc
from ..common import MachineryError, time_limit, ImplTimeout

INVARIANTS = ["LayersAgree", "Corollary", "SortPreserved", "NormalForm", "NoOccurrence", "WellFormedCase"]

ENUM_CFG = """INIT Init
NEXT Next
%(inv)s
CONSTANTS Thorough = %(thorough)s
 SS = %(SS)d
 SD = %(SD)d
 S1 = %(S1)d
 SE = %(SE)d
 S2 = %(S2)d
 SQ = %(SQ)d
 SP = %(SP)d
 Off = %(Off)d
 FS = %(FS)d
"""

NBLOCKS = 64  # MCSubst!NB

TRACE_CFG = """SPECIFICATION TraceSpec
INVARIANT Verdict
"""

# clauses that are verdicts on the machinery (builder / projection), never on the library
MACHINERY_CLAUSES = {"BuildFaithful"}


# ----------------------------------------------------------------------------------------
# numbering of expression records (structure only)
# ----------------------------------------------------------------------------------------
class Table:
    def __init__(self):
        self.ids = {}
        self.rows = []

    def num(self, rec):
        key = json.dumps(rec, sort_keys=True, separators=(",", ":"))
        i = self.ids.get(key)
        if i is None:
            self.rows.append(rec)
            i = len(self.rows)
            self.ids[key] = i
        return i


# ----------------------------------------------------------------------------------------
# the world of Subst!W as real objects (public API only)
# ----------------------------------------------------------------------------------------
class World:
    def __init__(self, desc):
        from unified_planning.environment import Environment
        from unified_planning.model import Fluent, Object, Parameter, Problem, Variable
        from .. import upj

        self.upj = upj
        env = Environment()
        self.env = env
        self.em = env.expression_manager
        tm = env.type_manager
        problem = Problem("c13", env)
        types = {}
        pending = list(desc["types"])
        while pending:
            rest = []
            for t in pending:
                if t["parent"] == "":
                    types[t["name"]] = tm.UserType(t["name"])
                elif t["parent"] in types:
                    types[t["name"]] = tm.UserType(t["name"], types[t["parent"]])
                else:
                    rest.append(t)
            if len(rest) == len(pending):
                raise MachineryError("cyclic type hierarchy in the world description")
            pending = rest
        objects = {}
        for o in desc["objects"]:
            objects[o["name"]] = Object(o["name"], types[o["type"]], env)
            problem.add_object(objects[o["name"]])
        fluents = {}
        for f in desc["fluents"]:
            sig = [Parameter(p["name"], upj.b_type(p["type"], env, types), env) for p in f["sig"]]
            fluents[f["name"]] = Fluent(f["name"], upj.b_type(f["type"], env, types), sig, env)
            problem.add_fluent(fluents[f["name"]])
        params = {p["name"]: Parameter(p["name"], upj.b_type(p["type"], env, types), env) for p in desc["params"]}
        variables = {v["name"]: Variable(v["name"], upj.b_type(v["type"], env, types), env) for v in desc["vars"]}
        self.sc = upj.Scope(problem, types, fluents, objects, params, variables)
        self.built = {}
        self.calls = 0

    def build(self, i, rec):
        e = self.built.get(i)
        if e is None:
            e = self.upj.b_expr(rec, self.sc)
            self.built[i] = e
        return e

    def clean(self):
        s = self.env.substituter
        return len(s.stack) == 0 and len(s.memoization) == 0


def replay_case(ctx, world, tab, cid, e_rec, m_rec, entry):
    """Build one case, call substitute, record.  Returns the observation (or None on a time-out)."""
    upj = world.upj
    ei = tab.num(e_rec)
    mk = [tab.num(p["k"]) for p in m_rec]
    mv = [tab.num(p["v"]) for p in m_rec]
    try:
        with time_limit(10):
            e = world.build(ei, e_rec)
            keys = [world.build(i, p["k"]) for i, p in zip(mk, m_rec)]
            vals = [world.build(i, p["v"]) for i, p in zip(mv, m_rec)]
    except ImplTimeout:
        raise MachineryError("building case %d does not terminate" % cid)
    except Exception as ex:
        raise MachineryError("case %d cannot be built through the public constructors: %r (%s)" % (cid, ex, json.dumps({"e": e_rec, "m": m_rec})[:600]))
    subs = dict(zip(keys, vals))
    if len(subs) != len(keys):
        raise MachineryError("case %d: distinct key records were built into the same FNode" % cid)
    o = {"id": cid, "e": ei, "mk": mk, "mv": mv, "entry": entry}
    o["eb"] = tab.num(upj.p_expr(e))
    o["kb"] = [tab.num(upj.p_expr(k)) for k in keys]
    o["vb"] = [tab.num(upj.p_expr(v)) for v in vals]
    o["n0"] = len(world.em.expressions)
    o["kind"], o["exc"], o["res"] = "exc", "", 0
    world.calls += 1
    try:
        with time_limit(5):
            if entry == "fnode":
                r = e.substitute(subs)
            elif entry == "env":
                r = world.env.substituter.substitute(e, subs)
            else:
                from unified_planning.model.walkers import Substituter

                r = Substituter(world.env).substitute(e, subs)
        try:
            o["res"] = tab.num(upj.p_expr(r))
            o["kind"] = "val"
        except Exception as ex:  # not an expression of the modelled fragment
            o["kind"], o["exc"] = "bad", "unprojectable:" + type(ex).__name__
    except ImplTimeout:
        ctx.violation(
            "impl-nonterminating",
            "substitute does not return within 5 s",
            {"e": e_rec, "m": m_rec, "entry": entry},
        )
        return None
    except Exception as ex:
        o["exc"] = type(ex).__name__
    o["n1"] = len(world.em.expressions)
    o["ea"] = tab.num(upj.p_expr(e))
    o["ka"] = [tab.num(upj.p_expr(k)) for k in keys]
    o["va"] = [tab.num(upj.p_expr(v)) for v in vals]
    return o


ENTRIES = ("fnode", "env", "fresh")
MAX_TIMEOUTS = 4


def replay_all(ctx, desc, groups):
    """All cases on shared worlds; a world is replaced when a call left the shared walker or the
    expression table in a state that could influence later calls (hygiene, not a verdict)."""
    tab = Table()
    obs = []
    cases = {}
    world = World(desc)
    cid = 0
    timeouts = 0
    for g in groups:
        for m in g["ms"]:
            cid += 1
            cases[cid] = (g["e"], m)
            if world.calls >= 3000:
                world = World(desc)
            o = replay_case(ctx, world, tab, cid, g["e"], m, ENTRIES[cid % 3])
            if o is None:
                world = World(desc)
                timeouts += 1
                if timeouts >= MAX_TIMEOUTS:
                    # every further case may cost the full time limit: judge what has been recorded
                    ctx.notes["replay_stopped_after_timeouts"] = cid
                    return tab, obs, cases
                continue
            obs.append(o)
            if o["kind"] != "val" and (o["n0"] != o["n1"] or not world.clean() or o["exc"] != "UPTypeError"):
                world = World(desc)
    return tab, obs, cases


def corrupt(obs, tab):
    """Vacuity guard: corrupted copies of real observations which the judge must reject.
    Returns [(observation, clauses one of which the judge has to name, description)]."""
    out = []

    def pick(pred, frac):
        xs = [o for o in obs if pred(o)]
        return dict(xs[int(len(xs) * frac)]) if xs else None

    def add(o, want, what, **changes):
        if o is not None:
            o.update(changes)
            out.append((o, want, what))

    changed = lambda o: o["kind"] == "val" and o["res"] != o["e"]
    rejected = lambda o: o["kind"] == "exc" and o["exc"] == "UPTypeError"
    o = pick(changed, 0.5)
    add(o, "Result", "nothing was replaced", res=o and o["e"])
    o = pick(changed, 0.25)
    add(o, "Result", "another expression was returned", res=o and (o["mk"][0] if o["mk"][0] != o["res"] else o["mv"][0]))
    o = pick(lambda o: o["kind"] == "val" and o["res"] == o["e"] and o["mk"], 0.5)
    add(o, "Result", "something was replaced although no key occurs", res=o and (o["mv"][0] if o["mv"][0] != o["e"] else o["mk"][0]))
    o = pick(rejected, 0.5)
    add(o, "RejectClean", "a node was created before the rejection", n1=o and o["n0"] + 1)
    o = pick(rejected, 0.7)
    add(o, "RejectClean", "the expression changed during a rejected call", ea=o and o["mk"][0] if o and o["mk"][0] != o["eb"] else o and o["mv"][0])
    o = pick(rejected, 0.3)
    add(o, "Reject", "the ill-sorted map was accepted", kind="val", exc="", res=o and o["e"])
    o = pick(rejected, 0.4)
    add(o, "RejectClass|EitherClass", "the rejection raised another exception class", exc="AssertionError")
    o = pick(lambda o: o["kind"] == "val" and o["mk"], 0.5)
    add(o, "Accept|EitherClass", "a compatible map raised", kind="exc", exc="KeyError", res=0)
    o = pick(lambda o: o["kind"] == "val" and len(o["mk"]) >= 1, 0.6)
    add(o, "InputsUntouched", "a key changed during the call", ka=o and [o["e"] if o["kb"][0] != o["e"] else o["res"]] + o["kb"][1:])
    o = pick(lambda o: o["kind"] == "val", 0.4)
    add(o, "ReturnsExpression", "the call returned something that is not an expression", kind="bad", exc="unprojectable:AttributeError", res=0)
    o = pick(lambda o: o["kind"] == "val", 0.2)
    add(o, "BuildFaithful", "the built expression does not project back to the case", eb=o and o["eb"] + 1, ea=o and o["eb"] + 1)
    for n, (o, _, _) in enumerate(out):
        o["id"] = 1000000000 + n
    return out


def judge(ctx, label, tab, obs, cases, guard, desc=None):
    d = ctx.sub("judge-" + label)
    tpath = os.path.join(d, "tab.ndjson")
    opath = os.path.join(d, "obs.ndjson")
    allobs = obs + [o for o, _, _ in guard]
    tlc.write_ndjson(tpath, tab.rows)
    tlc.write_ndjson(opath, allobs)
    res = tlc.run_tlc("SubstTrace", TRACE_CFG, d, env={"TAB": tpath, "TRACES": opath}, timeout=3000)
    if res.error or res.violated:
        raise MachineryError("SubstTrace failed: %s %s" % (res.violated, res.error))
    if res.distinct != 2 * len(allobs):
        raise MachineryError("judge consumed %d states, expected %d" % (res.distinct, 2 * len(allobs)))
    ctx.add_tlc("judge-" + label, res)
    ctx.cov["traces_validated_against_impl"] += len(obs)
    byid = {o["id"]: o for o in allobs}
    guard_hit = {}
    nfail = sum(1 for p in res.printed if p and p[0] == "FAIL")
    if nfail != res.stdout.count('"FAIL"'):
        raise MachineryError("judge printed %d FAIL records, %d were parsed (line wrapping?)" % (res.stdout.count('"FAIL"'), nfail))
    for p in res.printed:
        if not p or p[0] != "FAIL":
            continue
        _, cid, clause, verdict, feat = p
        if cid >= 1000000000:
            guard_hit.setdefault(cid, set()).add(clause)
            continue
        o = byid[cid]
        e_rec, m_rec = cases[cid]
        if clause == "UNSPECIFIED":
            ctx.cov["unspecified"] += 1
            continue
        data = {
            "e": e_rec,
            "m": m_rec,
            "entry": o["entry"],
            "observed": {"kind": o["kind"], "exc": o["exc"], "res": tab.rows[o["res"] - 1] if o["res"] else None, "n0": o["n0"], "n1": o["n1"]},
            "clause": clause,
            "world": desc,
        }
        if clause in MACHINERY_CLAUSES:
            raise MachineryError("judge clause %s fails on case %d: %s" % (clause, cid, json.dumps(data)[:800]))
        ctx.violation(
            "%s|%s|%s" % (clause, verdict, feat),
            "substitute: clause %s fails on a map the specification marks '%s' (%s)" % (clause, verdict, feat),
            data,
        )
    for o, want, what in guard:
        got = guard_hit.get(o["id"], set())
        if not (got & set(want.split("|"))):
            raise MachineryError("vacuity guard: corrupted observation %d (%s) expected to fail %s, judge said %s" % (o["id"], what, want, sorted(got)))
    ctx.notes["vacuity_guard"] = ["%s -> %s" % (what, want) for _, want, what in guard]
    return res


def enumerate_cases(ctx, knobs, label, invariants=True):
    d = ctx.sub("enum-" + label)
    out = os.path.join(d, "groups.ndjson")
    desc = os.path.join(d, "world.json")
    knobs = dict({"SP": 40}, **knobs)  # replay files written before the pinned-key family have no SP
    cfg = ENUM_CFG % dict(knobs, inv="\n".join("INVARIANT " + i for i in INVARIANTS) if invariants else "")
    res = tlc.run_tlc("SubstEnum", cfg, d, env={"OUT": out, "DESC": desc}, timeout=3000)
    if res.error:
        raise MachineryError(res.error)
    feats = {}
    emitted = None
    for p in res.printed:
        if p and p[0] == "EMITTED":
            emitted = p[1]
        if p and p[0] == "FEATURE":
            feats[(p[1], p[2])] = p[3]
    if emitted is None:
        raise MachineryError("SubstEnum did not report the number of cases")
    groups = tlc.read_ndjson(out)
    ncases = sum(len(g["ms"]) for g in groups)
    if ncases != emitted:
        raise MachineryError("SubstEnum emitted %d cases, file holds %d" % (emitted, ncases))
    ctx.add_tlc("T1+enum-" + label, res)
    if res.violated:
        st = res.trace[-1]["vars"] if res.trace else {}
        g = groups[st["gi"] - 1] if "gi" in st else None
        ctx.violation(
            "T1|" + res.violated,
            "design level: invariant %s of MCSubst fails on an enumerated case" % res.violated,
            {"state": st, "e": g["e"] if g else None, "m": g["ms"][st["mi"] - 1] if g else None, "knobs": knobs},
        )
    elif invariants and res.distinct != ncases + NBLOCKS:
        raise MachineryError("T1 visited %d states for %d cases" % (res.distinct - NBLOCKS, ncases))
    with open(desc) as fh:
        world = json.loads(fh.readline())
    return world, groups, feats, ncases


# every class of cases that has to be present (vacuity guard on the generator)
REQUIRED = [
    (v, k)
    for v in ("accept", "reject")
    for k in ("identity-pair", "key-has-bound-var", "nested-keys", "key-in-value", "compound-key", "leaf-key", "no-occurrence")
] + [("either", "leaf-key"), ("either", "compound-key"), ("either", "identity-pair")]


def run(ctx):
    q = ctx.quick
    off = ctx.rng.randrange(0, 997)
    if q:
        knobs = dict(thorough="FALSE", SS=1, SD=10, S1=6, SE=10, S2=14, SQ=8, SP=100, Off=off, FS=1)
    else:
        knobs = dict(thorough="TRUE", SS=3, SD=8, S1=6, SE=10, S2=20, SQ=5, SP=25, Off=off, FS=3)
    desc, groups, feats, ncases = enumerate_cases(ctx, knobs, "main")
    for cls in REQUIRED:
        if feats.get(cls, 0) == 0:
            raise MachineryError("vacuous generator: no case of class %s/%s" % cls)
    tab, obs, cases = replay_all(ctx, desc, groups)
    ctx.cov["evaluations"] += len(obs)
    guard = corrupt(obs, tab)
    if len(guard) < 11:
        raise MachineryError("vacuity guard could not be built (%d corrupted observations)" % len(guard))
    judge(ctx, "main", tab, obs, cases, guard, desc)
    nontrivial = sum(1 for o in obs if o["kind"] != "val" or o["res"] != o["e"])
    ctx.cov["distinct_nontrivial"] = nontrivial
    kinds = {}
    for o in obs:
        k = o["kind"] if o["kind"] != "exc" else "exc:" + o["exc"]
        kinds[k] = kinds.get(k, 0) + 1
    ctx.notes["outcomes"] = kinds
    ctx.notes["features"] = {"%s/%s" % k: v for k, v in sorted(feats.items())}
    mid = obs[len(obs) // 2]
    ctx.sample({"kind": "case", "e": cases[mid["id"]][0], "m": cases[mid["id"]][1], "observed": {"kind": mid["kind"], "exc": mid["exc"]}})
    ctx.cov["rule"] = (
        "SubstEnum (tier constants %r): every expression of depth <= 1 over the tier's leaves with all maps of the families "
        "M0-M3, Id1 (one identity pair k -> k) and Pin (an identity pair on a sub-term together with a pair on another "
        "sub-term: keys inside / around a pinned key) of SubstCases (exhaustive), expressions of depth 2 and the fixed "
        "quantifier family thinned deterministically (strides SD/S1/SE/S2/SQ/SP, rotation Off drawn from the seed); %d cases in %d groups; outcome classes %r. T1 "
        "(LayersAgree, Corollary, SortPreserved, NormalForm, NoOccurrence, WellFormedCase) on every emitted case; every case "
        "replayed on FNode.substitute / env.substituter.substitute / a fresh Substituter (round robin) and judged by "
        "SubstTrace. A case counts as non-trivial when the call raised or returned something different from its input."
        % (knobs, ncases, len(groups), kinds)
    )
    ctx.cov["exhaustive"] = True
    ctx.assumptions += [
        "TLC and the CommunityModules Json reader are trusted",
        "harness.upj b_expr / p_expr transcribe structure faithfully (checked per case: BuildFaithful)",
        "acceptance of numeric pairs whose key has a bounded or constant type, and of int keys with real values, is not judged (interval inference is C15): only the outcome after acceptance / the cleanliness of a rejection is",
        "a result containing a division by a closed zero term cannot be constructed at all (ZeroDivisionError in the type checker): counted as unspecified",
        "numeric fluents and parameters of the world are unbounded; fluent arguments are user-typed",
    ]


def replay(ctx, data):
    """Re-run the case of a replay file on the current tree and judge it again."""
    d = data["data"]
    if data["signature"].startswith("T1|"):
        desc, groups, feats, ncases = enumerate_cases(ctx, d["knobs"], "replay")
    else:
        desc = d["world"]
        tab = Table()
        world = World(desc)
        o = replay_case(ctx, world, tab, 1, d["e"], d["m"], d.get("entry", "fnode"))
        if o is not None:
            print("observed: kind=%s exc=%s n0=%s n1=%s" % (o["kind"], o["exc"], o["n0"], o["n1"]))
            if o["res"]:
                print("result: %s" % json.dumps(tab.rows[o["res"] - 1]))
            judge(ctx, "replay", tab, [o], {1: (d["e"], d["m"])}, [], desc)
    for v in ctx.violations:
        print("REPLAY %s: %s" % (v.sig, v.what))
    print("replayed 1 case: %d clause(s) fail" % len(ctx.violations))
    return 1 if ctx.violations else 0


def selftest(ctx):
    """The judge must reject every corrupted observation (and accept the uncorrupted ones)."""
    knobs = dict(thorough="FALSE", SS=4, SD=100000, S1=1000, SE=1000, S2=1000, SQ=1000, SP=1000, Off=0, FS=1)
    desc, groups, feats, ncases = enumerate_cases(ctx, knobs, "selftest", invariants=False)
    tab, obs, cases = replay_all(ctx, desc, groups)
    guard = corrupt(obs, tab)
    judge(ctx, "selftest", tab, obs, cases, guard, desc)  # raises MachineryError when a corruption is missed
    for _, want, what in guard:
        print("selftest: %-70s rejected (%s)" % (what, want))
    print("selftest: %d corrupted observations rejected, %d genuine observations judged, %d violation(s)" % (len(guard), len(obs), len(ctx.violations)))
    return 0 if len(guard) >= 11 and not ctx.violations else 1
