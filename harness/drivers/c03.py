"""C03 -- sequential plan validation decides validity and metric values exactly.

G2 problems with none or one quality metric -> plans (all short plans incl. the empty plan, plus
seeded longer ones biased towards executable prefixes) -> real SequentialPlanValidator -> recorded
status / metric / exception -> spec/SeqPlanObs.tla judges each against UPSeqSem!SeqVerdict and
MetricValue.
"""
import itertools
import os
import random
from fractions import Fraction
from multiprocessing import Pool

from .. import tlc, upj, simobs
from ..common import MachineryError, time_limit, ImplTimeout, call_limited
from ..gen import Gen, ground_actions

CFG = "SPECIFICATION Spec\nINVARIANT Judge\n"


def _plans(P, problem, rng, L, cap):
    """plan candidates as lists of ground-action dicts (structure only; validity is decided by TLC)"""
    from unified_planning.engines.sequential_simulator import UPSequentialSimulator

    gas = ground_actions(P)
    out = [[]]
    seen = {"[]"}

    def add(pl):
        k = repr(pl)
        if k not in seen and len(out) < cap:
            seen.add(k)
            out.append(pl)

    if len(gas) <= 8:
        for n in (1, 2):
            for t in itertools.product(range(len(gas)), repeat=n):
                add([gas[i] for i in t])
    else:
        for g in gas:
            add([g])
    # random walks of the implementation's simulator: long executable prefixes (generator heuristic only)
    try:
        sim = UPSequentialSimulator(problem, error_on_failed_checks=False)
        s0 = sim.get_initial_state()
        for _ in range(30):
            st, pl = s0, []
            for _step in range(rng.randint(1, L)):
                cands = list(range(len(gas)))
                rng.shuffle(cands)
                nxt = None
                for i in cands[:6]:
                    a = problem.action(gas[i]["a"])
                    try:
                        ns = sim.apply(st, a, simobs._params(problem, a, gas[i]["args"]))
                    except Exception:
                        sim = UPSequentialSimulator(problem, error_on_failed_checks=False)
                        ns = None
                    if ns is not None:
                        nxt = (i, ns)
                        break
                if nxt is None:
                    break
                pl.append(gas[nxt[0]])
                st = nxt[1]
                add(list(pl))
            # and the same walk with one arbitrary (possibly inapplicable) last step
            if gas:
                add(pl + [rng.choice(gas)])
    except Exception:
        pass
    for _ in range(20):
        add([rng.choice(gas) for _ in range(rng.randint(1, L))] if gas else [])
    return out


def worker(job):
    pid, P, L, cap, seed = job
    import unified_planning as up
    from unified_planning.engines.plan_validator import SequentialPlanValidator
    from unified_planning.plans import SequentialPlan, ActionInstance

    rng = random.Random(seed)
    rec = {"pid": pid, "P": P, "keys": upj.keys_of(P), "plans": [], "skip": ""}
    try:
        with time_limit(20):
            problem = upj.build(P)
        if not SequentialPlanValidator.supports(problem.kind):
            rec["skip"] = "unsupported-kind"
            return rec
    except ImplTimeout:
        rec["skip"] = "build-timeout"
        return rec
    except Exception as ex:
        rec["skip"] = "build:" + type(ex).__name__
        return rec
    try:
        with time_limit(60):
            plans = _plans(P, problem, rng, L, cap)
    except ImplTimeout:
        rec["skip"] = "plans-timeout"
        return rec
    for pl in plans:
        r = {"steps": pl, "status": "", "metric": upj.NONE, "reason": ""}
        try:
            ais = []
            for g in pl:
                a = problem.action(g["a"])
                ais.append(ActionInstance(a, simobs._params(problem, a, g["args"])))
            res = call_limited(lambda: SequentialPlanValidator().validate(problem, SequentialPlan(ais)), 20)
            r["status"] = res.status.name
            r["reason"] = res.reason.name if res.reason is not None else ""
            if res.metric_evaluations:
                vals = list(res.metric_evaluations.values())
                r["metric"] = upj.NV(Fraction(vals[0]))
        except ImplTimeout:
            r["status"] = "X:TIMEOUT"
        except Exception as ex:
            r["status"] = "X:" + type(ex).__name__
            r["reason"] = str(ex)[:200]
        rec["plans"].append(r)
    return rec


def run(ctx):
    q = ctx.quick
    n = 160 if q else 1500
    L = 3 if q else 5
    cap = 120 if q else 300
    g_plain = Gen(ctx.rng)
    g_metric = Gen(ctx.rng, metric="any")
    g_if = Gen(ctx.rng, metric="any", ifuns=True)
    corpus = [(g_if if i % 5 == 4 else g_metric if i % 3 else g_plain).problem() for i in range(n)]
    jobs = [(i + 1, P, L, cap, ctx.seed * 7919 + i) for i, P in enumerate(corpus)]
    with Pool(14, maxtasksperchild=40) as pool:
        recs = pool.map(worker, jobs, chunksize=2)
    skipped = {}
    for r in recs:
        if r["skip"]:
            skipped[r["skip"]] = skipped.get(r["skip"], 0) + 1
    batch = [r for r in recs if not r["skip"] and r["plans"]]
    if not batch:
        raise MachineryError("no problem could be built")
    d = ctx.sub("judge")
    path = os.path.join(d, "batch.ndjson")
    tlc.write_ndjson(path, batch)
    res = tlc.run_tlc("SeqPlanObs", CFG, d, env={"BATCH": path}, timeout=3000, heap="16g")
    if res.error or res.violated:
        raise MachineryError("SeqPlanObs failed: %s %s" % (res.violated, (res.error or "")[-3000:]))
    nplans = sum(len(r["plans"]) for r in batch)
    if res.distinct != nplans:
        raise MachineryError("judge consumed %d of %d plans" % (res.distinct, nplans))
    ctx.add_tlc("SeqPlanObs", res)
    byid = {r["pid"]: r for r in batch}
    for p in res.printed:
        if p and p[0] == "U":
            ctx.cov["unspecified"] += 1
        elif p and p[0] == "FAIL":
            _, pid, pi, clause = p
            r = byid[pid]
            pl = r["plans"][pi - 1]
            sig = clause
            if clause.startswith("raises-") or clause.startswith("metric-missing"):
                sig += "|len=%s" % ("0" if not pl["steps"] else "n")
            ctx.violation(
                sig,
                "sequential validator disagrees with UPSeqSem: %s" % clause,
                {"clause": clause, "problem": r["P"], "plan": pl},
            )
    ctx.cov["evaluations"] = nplans
    ctx.cov["traces_validated_against_impl"] = nplans
    valid = sum(1 for r in batch for pl in r["plans"] if pl["status"] == "VALID")
    ctx.cov["distinct_nontrivial"] = len({(r["pid"], repr(pl["steps"])) for r in batch for pl in r["plans"] if pl["steps"] and pl["status"] in ("VALID",) or (pl["reason"] == "UNSATISFIED_GOALS" and pl["steps"])})
    ctx.cov["valid_plans"] = valid
    ctx.cov["with_metric"] = sum(1 for r in batch for pl in r["plans"] if pl["metric"]["k"] == "n")
    ctx.cov["problems_judged"] = len(batch)
    ctx.cov["problems_skipped"] = skipped
    ctx.cov["rule"] = (
        "G2 problems (2/3 with one quality metric: action costs incl. parameter/fluent dependent and default costs, "
        "plan length, min/max final value, oversubscription); per problem the empty plan, all plans of length <= 2 when "
        "<= 8 ground actions, seeded simulator walks up to length %d with an arbitrary extra last step, and random plans "
        "(cap %d). One evaluation = one validated plan judged by SeqVerdict/MetricValue; non-trivial = non-empty plans "
        "that are executable to the end (VALID or goal unsatisfied)." % (L, cap)
    )
    ex = next((r for r in batch if any(pl["status"] == "VALID" and pl["steps"] for pl in r["plans"])), batch[0])
    ctx.sample({"problem": ex["P"], "plans": [pl for pl in ex["plans"] if pl["status"] == "VALID"][:2] + ex["plans"][:2]})
    ctx.assumptions += [
        "TLC, the Json reader and harness/upj.py (structure only) are trusted",
        "which failure reason is reported is not judged (DESIGN.md 7.1-6); unspecified zones are skipped and counted",
    ]


def replay(ctx, rec):
    from unified_planning.engines.plan_validator import SequentialPlanValidator
    from .. import timeobs

    P, pl = rec["data"]["problem"], rec["data"]["plan"]
    problem = upj.build(P)
    st, why, res = timeobs.validate(SequentialPlanValidator, problem, timeobs.build_seq_plan(problem, pl["steps"]))
    r = {"steps": pl["steps"], "status": st, "metric": upj.NONE, "reason": why}
    if res is not None and res.metric_evaluations:
        r["metric"] = upj.NV(Fraction(list(res.metric_evaluations.values())[0]))
    d = ctx.sub("replay")
    path = os.path.join(d, "batch.ndjson")
    tlc.write_ndjson(path, [{"pid": 1, "P": P, "keys": upj.keys_of(P), "plans": [r]}])
    out = tlc.run_tlc("SeqPlanObs", CFG, d, env={"BATCH": path}, timeout=1200)
    if out.error or out.violated:
        raise MachineryError(out.error or out.violated)
    fails = [p for p in out.printed if p and p[0] == "FAIL"]
    for f in fails:
        print("REPRODUCED property=C03 clause=%s" % f[3])
    if not fails:
        print("replay: no violation on the current tree (status %s)" % st)
    return 1 if fails else 0
