"""C30 -- the K_S0 conformant-to-classical compilation (Ks0Compiler) is sound and complete.

Inputs   small Boolean conformant problems from the G2 grammar (Boolean-only mask, <= 6 ground fluents,
         conditional / forall effects, negative / disjunctive / quantified conditions, at most one effect per
         ground fluent per ground action) x possible initial states, given
           explicit    as 1-4 seeded states passed to Ks0Compiler(possible_initial_states=...), plus variants
                       with duplicated / reordered states and with added states the compiler drops as dominated
           contingent  by a ContingentProblem's oneof / or / unknown constraints (the state set is then DEFINED
                       by spec/Belief.tla!ConsStates from the constraints read off the real object).
         plus a `chain` stratum (gen_chain_problem): the goal at the end of a dependency chain of 2-3 conditional
         effects with seeded polarities at every junction (transitive / complement steps of the relevance relation),
         possible initial states that differ in ONE fluent (mostly the chain's source), both orders of the states.
Bind     the real Ks0Compiler.compile; the compiled problem K projected with upj.project; the real
         plan_back_conversion tabulated on every ground action of K (and on sampled multi-action plans); the
         initial states the compiler kept as tags read off K's initial state.
Oracle   spec/Belief.tla explored exhaustively by TLC: mode K = all behaviours of K with the belief of the
         mapped-back plan (Sound), modes P / PK = full belief-space exploration of the original problem;
         spec/BeliefJudge.tla compares the answers (complete, raises, dominated, variants, actionwise).
Python only builds objects, calls the API, projects to JSON and carries TLC's printed flags into the judge.
"""
import os
import re
import traceback
from multiprocessing import Pool

from .. import tlc, upj
from ..common import MachineryError, time_limit, ImplTimeout, call_limited
from ..gen import Gen, ground_actions

MASK = dict(numeric=False, objfluents=False, equality=False, undefined=False, invariants=False,
            bool_expr_assign=False, real=False, bounded=False, incdec=False, fluent_assign=False,
            max_fluents=3, max_objects=2, max_actions=4)
MAX_KEYS = 6
MAX_KACTS = 40
MAX_KKEYS = 110
CASE_CAP = 200000  # distinct states of one exploration; larger cases are skipped and counted
POOL = 8
WORKERS = 8

CFG = "SPECIFICATION Spec\nCONSTANTS Track = %s\n Cap = %d\nINVARIANT Verdict\nINVARIANT WithinCap\n%s"
JUDGE_CFG = "SPECIFICATION Spec\nINVARIANT Verdict\n"


# ----------------------------------------------------------------------------------------
# input generation (structure only)
# ----------------------------------------------------------------------------------------
def _walk(e):
    yield e
    for a in e.get("args", []):
        yield from _walk(a)


def one_effect_per_ground_fluent(P):
    """syntactic input filter: no ground action writes one ground fluent through two effect instances"""
    for g in ground_actions(P):
        a = [x for x in P["actions"] if x["name"] == g["a"]][0]
        env = {p["name"]: v["o"] for p, v in zip(a["params"], g["args"])}
        seen = set()
        for ef in a["effects"]:
            insts = [dict(env)]
            for v in ef["forall"]:
                insts = [dict(i, **{v["name"]: o}) for i in insts for o in upj.objs_of(P, v["type"]["name"])]
            for en in insts:
                args = []
                for x in ef["f"]["args"]:
                    if x["op"] == "obj":
                        args.append(x["name"])
                    elif x["op"] in ("param", "var"):
                        args.append(en[x["name"]])
                    else:
                        return False
                k = (ef["f"]["name"], tuple(args))
                if k in seen:
                    return False
                seen.add(k)
    return True


def features(P):
    """deterministic syntactic features of the original problem used in signatures"""
    fs = set()
    disj = ("or", "implies", "iff", "exists")

    def shape(e, tag):
        ops = {n["op"] for n in _walk(e)}
        if ops & set(disj) or any(n["op"] == "not" and n["args"][0]["op"] not in ("fluent",) for n in _walk(e)):
            fs.add("disj-" + tag)
        if any(n["op"] == "const" for n in _walk(e)) and e["op"] != "const":
            fs.add("constatom")

    for a in P["actions"]:
        for c in a["pre"]:
            shape(c, "pre")
        for ef in a["effects"]:
            shape(ef["c"], "effcond")
    for g in P["goals"]:
        shape(g, "goal")
    return sorted(fs)


def gen_problem(g, conj, cond=False):
    """conj: preconditions and goals are conjunctions of literals (possibly under forall) -- the class on which
    the disjunction-splitting normalisation of the compiler is not involved; cond: at least two conditional
    effects, one of them a delete (the effects for which tags, cancellation and relevance matter)"""
    for _ in range(20000):
        P = g.problem()
        if not (1 <= len(upj.keys_of(P)) <= MAX_KEYS and one_effect_per_ground_fluent(P)):
            continue
        if conj and {"disj-pre", "disj-goal"} & set(features(P)):
            continue
        if cond:
            ce = [ef for a in P["actions"] for ef in a["effects"] if ef["c"]["op"] != "const"]
            if len(ce) < 2 or not any(ef["v"]["op"] == "const" and ef["v"]["v"]["b"] is False for ef in ce):
                continue
        return P
    raise MachineryError("generator yields no problem inside the C30 input class")


def retarget_goal(rng, P):
    """replace the goals by a conjunction of 1-2 ground literals that some effect can write (syntactic choice):
    such goals are rarely true in every possible initial state, so that plans are not empty"""
    cands = []
    for a in P["actions"]:
        for ef in a["effects"]:
            if ef["v"]["op"] != "const":
                continue
            types = {p["name"]: p["type"]["name"] for p in a["params"]}
            types.update({v["name"]: v["type"]["name"] for v in ef["forall"]})
            args = []
            for x in ef["f"]["args"]:
                if x["op"] == "obj":
                    args.append(x["name"])
                elif x["op"] in ("param", "var"):
                    args.append(rng.choice(upj.objs_of(P, types[x["name"]])))
                else:
                    args = None
                    break
            if args is not None:
                cands.append((ef["f"]["name"], tuple(args), ef["v"]["v"]["b"]))
    if not cands:
        return P
    goals, used = [], set()
    for name, args, pos in rng.sample(cands, min(len(cands), rng.choice([1, 2, 2]))):
        if (name, args) in used:
            continue
        used.add((name, args))
        fe = upj.E("fluent", [upj.E("obj", name=o) for o in args], name=name)
        goals.append(fe if pos else upj.E("not", [fe]))
    return dict(P, goals=goals)


def gen_states(rng, n):
    """1-4 seeded states that differ from a base state in a few ground fluents"""
    base = [rng.random() < 0.5 for _ in range(n)]
    out = [base]
    for _ in range(rng.choice([0, 1, 1, 2, 2, 3])):
        s = list(base)
        for i in rng.sample(range(n), min(n, rng.choice([1, 1, 2, 3]))):
            s[i] = not s[i]
        if rng.random() < 0.15:
            s = [rng.random() < 0.5 for _ in range(n)]
        out.append(s)
    rng.shuffle(out)
    return out


def _fl(key):
    return upj.E("fluent", [upj.E("obj", name=o) for o in key[1]], name=key[0])


def _lit(key, pos):
    return _fl(key) if pos else upj.E("not", [_fl(key)])


def _ground_action(name, pre, effs):
    """parameterless action; effs = [(key, value, [condition literals as (key, pos)])]"""
    out = []
    for key, val, cond in effs:
        cl = [_lit(k, p) for k, p in cond]
        c = upj.TRUE_E if not cl else cl[0] if len(cl) == 1 else upj.E("and", cl)
        out.append({"kind": "assign", "f": {"name": key[0], "args": [upj.E("obj", name=o) for o in key[1]]},
                    "v": upj.E("const", v=upj.BV(val)), "c": c, "forall": []})
    return {"name": name, "kind": "inst", "params": [], "pre": [_lit(k, p) for k, p in pre], "effects": out,
            "conds": [], "dur": upj.NONE, "sim": False}


def gen_chain_problem(rng, g):
    """`chain` stratum: the goal hangs at the end of a DEPENDENCY CHAIN of 2-3 conditional effects over distinct
    ground fluents (edge i: `when lit(k_i) [and side literal]: k_{i+1} := v_i`), with seeded polarities at every
    junction: the condition of edge i+1 is either the literal edge i writes (the chain is a transitive chain of effect
    rules) or its complement (the chain exists only through the complement rule of the compiler's relevance relation,
    alone or interleaved with transitive steps).  Whether a possible initial state is dominated then hinges on
    literals that are relevant to the goal only through several steps of that relation.  Vocabulary (types, objects,
    fluents, declared initial values) from the G2 grammar; besides the chain: 0-2 unconditional setter actions, now
    and then a precondition, two edges in one action, a final action whose precondition (a merge target that is not a
    goal) is the chain's end.  Returns (problem, info) with info = indices of the chain's ground fluents `ch`, the
    polarity `cpos[i]` of edge i's condition on ch[i], the literals `false0` (goal, end of the chain) that a base
    state should falsify."""
    for _ in range(20000):
        V = g.problem()
        if 3 <= len(upj.keys_of(V)) <= MAX_KEYS:
            break
    else:
        raise MachineryError("generator yields no vocabulary for the C30 chain stratum")
    keys = upj.keys_of(V)
    n = len(keys)
    L = min(n - 1, rng.choice([2, 2, 2, 3]))
    ch = rng.sample(range(n), L + 1)
    edges, cpos = [], []
    for i in range(L):
        cpos.append(rng.random() < 0.5)
        cond = [(keys[ch[i]], cpos[i])]
        if rng.random() < 0.15:
            side = [j for j in range(n) if j not in ch]
            if side:
                cond.append((keys[rng.choice(side)], rng.random() < 0.5))
                rng.shuffle(cond)
        edges.append((keys[ch[i + 1]], rng.random() < 0.5, cond))
    groups = [[e] for e in edges]
    if rng.random() < 0.2:
        i = rng.randrange(L - 1)
        groups[i:i + 2] = [groups[i] + groups[i + 1]]
    gk, gpos = ch[L], edges[-1][1]
    false0 = [(gk, gpos)]
    acts = []
    for i, grp in enumerate(groups):
        pre = []
        if rng.random() < 0.15:
            pre = [(keys[rng.randrange(n)], rng.random() < 0.5)]
        acts.append(_ground_action("e%d" % i, pre, grp))
    free = [j for j in range(n) if j not in ch]
    if free and rng.random() < 0.25:
        # the end of the chain is a precondition; the goal is written by that action
        j = rng.choice(free)
        v = rng.random() < 0.5
        acts.append(_ground_action("fin", [(keys[gk], gpos)], [(keys[j], v, [])]))
        gk, gpos = j, v
        false0.append((gk, gpos))
    for i in range(rng.choice([0, 0, 1, 1, 2])):
        cands = [j for j in range(n) if j != gk]
        acts.append(_ground_action("s%d" % i, [], [(keys[rng.choice(cands)], rng.random() < 0.5, [])]))
    rng.shuffle(acts)
    goals = [_lit(keys[gk], gpos)]
    if rng.random() < 0.15:
        j = rng.choice([j for j in range(n) if j != gk])
        goals.append(_lit(keys[j], rng.random() < 0.5))
    P = dict(V, actions=acts, goals=goals)
    if not one_effect_per_ground_fluent(P):
        raise MachineryError("chain stratum: two effects on one ground fluent in one action")
    return P, {"ch": ch, "cpos": cpos, "false0": false0}


def gen_chain_base(rng, n, info):
    """a base state in which the goal (and the end of the chain) is false and, mostly, the conditions of the later
    edges hold (the later part of the chain can fire: whether it still does after the earlier edges were applied is
    what depends on the first fluents of the chain)"""
    base = [rng.random() < 0.5 for _ in range(n)]
    for i in range(1, len(info["cpos"])):
        if rng.random() < 0.8:
            base[info["ch"][i]] = info["cpos"][i]
    for j, pos in info["false0"]:
        base[j] = not pos
    return base


def gen_chain_states(rng, n, info):
    """2-4 states around a base state: every other state flips ONE fluent -- mostly the source of the chain, else
    any fluent (one outside the chain is irrelevant to the goal, a later one of the chain usually decides whether
    the goal is reachable at all) --, now and then a second one: whether a state is dominated is then decided by a
    single literal"""
    base = gen_chain_base(rng, n, info)
    out = [base]
    ch = info["ch"]
    for t in range(rng.choice([1, 1, 2, 2, 3])):
        s = list(base)
        j = ch[0] if rng.random() < (0.85 if t == 0 else 0.3) else rng.randrange(n)
        s[j] = not s[j]
        if t > 0 and rng.random() < 0.25:
            j = rng.randrange(n)
            s[j] = not s[j]
        if s not in out:
            out.append(s)
    rng.shuffle(out)
    return out


def gen_constraints(rng, n, among=None):
    """oneof / or / unknown groups over <= 3 hidden ground fluents (key indices; taken from `among` if given),
    satisfiable by construction: a seeded witness valuation satisfies every group"""
    pool = list(range(n)) if among is None else list(among)
    hid = rng.sample(pool, min(len(pool), rng.choice([1, 2, 3, 3, 3])))
    w = {i: rng.random() < 0.5 for i in hid}
    cons = []
    rest = list(hid)
    rng.shuffle(rest)
    while rest:
        k = rng.choice(["unknown", "unknown", "oneof", "oneof", "or"])
        if k == "unknown" or len(rest) == 1:
            i = rest.pop()
            cons.append({"kind": "unknown", "lits": [[i, False]]})
            continue
        m = min(len(rest), rng.choice([2, 3, 3]))
        grp, rest = rest[:m], rest[m:]
        if k == "oneof":
            j = rng.randrange(m)
            # literal j agrees with the witness, the others disagree with it
            lits = [[i, (not w[i]) if x == j else w[i]] for x, i in enumerate(grp)]
        else:
            lits = [[i, rng.random() < 0.4] for i in grp]
            if not any(w[i] != neg for i, neg in lits):
                lits[0][1] = not w[lits[0][0]]
        cons.append({"kind": k, "lits": lits})
    # now and then a second constraint over already hidden atoms (overlapping groups)
    if len(hid) >= 2 and rng.random() < 0.25:
        grp = rng.sample(hid, 2)
        lits = [[i, rng.random() < 0.5] for i in grp]
        if not any(w[i] != neg for i, neg in lits):
            lits[0][1] = not w[lits[0][0]]
        cons.append({"kind": "or", "lits": lits})
    return cons


# ----------------------------------------------------------------------------------------
# running the real compiler (pool worker)
# ----------------------------------------------------------------------------------------
def _site(ex):
    tb = traceback.extract_tb(ex.__traceback__)
    for fr in reversed(tb):
        if "/unified_planning/" in fr.filename:
            return "%s:%s" % (fr.filename.split("/unified_planning/")[-1], fr.name)
    return "?"


def _fexp(problem, key):
    name, args = key
    return problem.fluent(name)(*[problem.object(a) for a in args])


def _compile(job):
    """returns (problem given to the compiler, CompilerResult or None, P as UPJ, cons as rows, raised, detail)"""
    from unified_planning.engines.compilers.ks0_compiler import Ks0Compiler
    from unified_planning.engines.mixins.compiler import CompilationKind
    from unified_planning.model import UPState
    from unified_planning.model.contingent import ContingentProblem

    P = job["P"]
    keys = upj.keys_of(P)
    base = call_limited(lambda: upj.build(P), 30, 6)
    with time_limit(120):
        em = base.environment.expression_manager
        if job["fam"] == "explicit":
            problem = base
            fes = [_fexp(base, k) for k in keys]
            states = [UPState({fe: em.Bool(bool(v)) for fe, v in zip(fes, vec)}, base) for vec in job["inits"]]
            comp = Ks0Compiler(possible_initial_states=states)
            Pj, cons = P, []
        else:
            problem = ContingentProblem(base.name, base.environment)
            for f in base.fluents:
                problem.add_fluent(f, default_initial_value=base.fluents_defaults.get(f))
            problem.add_objects(base.all_objects)
            for a in base.actions:
                problem.add_action(a)
            for gl in base.goals:
                problem.add_goal(gl)
            for fe, v in base.explicit_initial_values.items():
                problem.set_initial_value(fe, v)
            for c in job["cons"]:
                lits = [em.Not(_fexp(base, keys[i])) if neg else _fexp(base, keys[i]) for i, neg in c["lits"]]
                if c["kind"] == "unknown":
                    problem.add_unknown_initial_constraint(lits[0])
                elif c["kind"] == "oneof":
                    problem.add_oneof_initial_constraint(lits)
                else:
                    problem.add_or_initial_constraint(lits)
            comp = Ks0Compiler()
            Pj = upj.project(problem)
            if upj.keys_of(Pj) != keys:
                raise MachineryError("contingent copy changed the ground fluents")
            # the constraints as the real object holds them
            kidx = {(k[0], tuple(k[1])): i + 1 for i, k in enumerate(keys)}
            cons = []
            for kind, groups in (("oneof", problem.oneof_constraints), ("or", problem.or_constraints)):
                for grp in groups:
                    lits = []
                    for l in grp:
                        neg = l.is_not()
                        fe = l.arg(0) if neg else l
                        lits.append({"i": kidx[(fe.fluent().name, tuple(upj.arg_key(a) for a in fe.args))], "neg": neg})
                    cons.append({"kind": kind, "lits": lits})
        supported = Ks0Compiler.supports(problem.kind)
    if not supported:
        return problem, None, Pj, cons, "unsupported-kind", ""
    try:
        res = call_limited(lambda: comp.compile(problem, CompilationKind.CONFORMANT_TO_CLASSICAL), 30, 6)
    except ImplTimeout:
        return problem, None, Pj, cons, "TIMEOUT", ""
    except Exception as ex:
        m = re.search(r"but found `([^`]*)`", str(ex))
        what = ""
        if m:
            x = m.group(1)
            what = "false" if x == "false" else "iff" if " iff " in x else "negated-conjunction" if x.startswith("(not (") else "other"
        msg = re.sub(r"\s+", " ", re.sub(r"`[^`]*`.*$", "", str(ex), flags=re.S))[:70].strip()
        return problem, None, Pj, cons, "%s:%s:%s" % (type(ex).__name__, msg, what), "%s @ %s" % (str(ex)[:300], _site(ex))
    return problem, res, Pj, cons, "none", ""


def _back(res, q, names):
    from unified_planning.plans import ActionInstance, SequentialPlan

    plan = SequentialPlan([ActionInstance(q.action(n)) for n in names])
    out = res.plan_back_conversion(plan)
    return [{"a": x.action.name, "args": [upj.p_const(p) for p in x.actual_parameters]} for x in out.actions]


def _kept(K, pkeys):
    """the initial states the compiler kept as tags s0, s1, ..., read off K's initial state"""
    tags = set()
    for f in K["fluents"]:
        m = re.match(r"^K_.*_s(\d+)$", f["name"])
        if m:
            tags.add(int(m.group(1)))
    true = {(i["f"], tuple(a["o"] for a in i["args"])) for i in K["init"] if i["v"].get("b") is True}
    kept = []
    for t in sorted(tags):
        vec = []
        for name, args in pkeys:
            pos = ("K_%s_s%d" % (name, t), tuple(args)) in true
            neg = ("K_not_%s_s%d" % (name, t), tuple(args)) in true
            if pos == neg:
                return None
            vec.append(upj.BV(pos))
        kept.append(vec)
    return kept


def _warm():
    """pool initializer: import the library and create the global environment outside any time limit (an alarm
    that fires in the middle of a first import leaves half-initialised modules behind)"""
    import unified_planning.shortcuts  # noqa: F401
    import unified_planning.engines.compilers.ks0_compiler  # noqa: F401
    import unified_planning.model.contingent  # noqa: F401
    import unified_planning.engines.sequential_simulator  # noqa: F401

    unified_planning.environment.get_environment().factory  # noqa: B018


def worker(job):
    import random

    rec = {"id": job["id"], "fam": job["fam"], "base": job.get("base", 0), "variant": job.get("variant", ""),
           "P": job["P"], "pkeys": upj.keys_of(job["P"]), "K": job["P"], "kkeys": upj.keys_of(job["P"]), "back": [],
           "inits": [[upj.BV(v) for v in vec] for vec in job.get("inits", [])], "cons": [], "kept": [],
           "modes": ["P"], "raised": "none", "detail": "", "skip": "", "samples": [], "job": job}
    try:
        try:
            problem, res, Pj, cons, raised, detail = _compile(job)
        except ImplTimeout:
            rec["skip"] = "build-timeout"
            return rec
        rec["P"], rec["cons"] = Pj, cons
        if raised == "unsupported-kind":
            rec["skip"] = raised
            return rec
        if raised != "none":
            rec["raised"], rec["detail"] = raised, detail
            return rec
        q = res.problem
        with time_limit(120):
            K = upj.project(q)
            gas = ground_actions(K)
            if any(g["args"] for g in gas):
                raise MachineryError("compiled problem has lifted actions")
            if len(gas) > MAX_KACTS or len(upj.keys_of(K)) > MAX_KKEYS:
                rec["skip"] = "compiled-too-big"
                return rec
            rec["K"], rec["kkeys"] = K, upj.keys_of(K)
            rec["back"] = [{"qa": g["a"], "qargs": [], "pas": _back(res, q, [g["a"]])} for g in gas]
            rng = random.Random(job["seed"])
            names = [g["a"] for g in gas]
            for _ in range(3):
                ks = [rng.choice(names) for _ in range(rng.randint(2, 5))]
                rec["samples"].append({"k": ks, "p": _back(res, q, ks)})
        kept = _kept(K, rec["pkeys"])
        rec["modes"] = ["K", "P"]
        if kept is not None:
            rec["kept"] = kept
            if job["fam"] == "contingent" or {tuple(v["b"] for v in s) for s in kept} != {tuple(bool(v) for v in s) for s in job["inits"]}:
                # explicit family: PK only where the compiler dropped states (structure comparison that only
                # saves work: P and PK explore the same space otherwise); contingent: always
                rec["modes"].append("PK")
        else:
            rec["kept_unreadable"] = True
        return rec
    except MachineryError as ex:
        rec["skip"] = "HARNESS:" + str(ex)
        return rec
    except ImplTimeout:
        rec["raised"] = "TIMEOUT-project"
        return rec
    except Exception as ex:
        rec["skip"] = "HARNESS:" + traceback.format_exc()[-1500:]
        return rec


# ----------------------------------------------------------------------------------------
# TLC stages
# ----------------------------------------------------------------------------------------
ROW_FIELDS = ("id", "fam", "P", "pkeys", "K", "kkeys", "back", "inits", "cons", "kept", "modes")


def explore(ctx, rows, label, stats):
    """Belief.tla on `rows`; a batch that exceeds its state cap is bisected; single cases above CASE_CAP are
    skipped and counted.  Returns (printed tuples, ids skipped)."""
    if not rows:
        return [], []
    cap = max(CASE_CAP, 20000 * len(rows))
    d = ctx.sub("belief-%s" % label)
    path = os.path.join(d, "batch.ndjson")
    tlc.write_ndjson(path, [{k: r[k] for k in ROW_FIELDS} for r in rows])
    res = tlc.run_tlc("Belief", CFG % ("FALSE", cap, ""), d, env={"BATCH": path}, workers=WORKERS, timeout=3000, heap="12g")
    if res.violated == "WithinCap":
        if len(rows) == 1:
            stats["above_cap"] += 1
            return [], [rows[0]["id"]]
        h = len(rows) // 2
        p1, s1 = explore(ctx, rows[:h], label + "a", stats)
        p2, s2 = explore(ctx, rows[h:], label + "b", stats)
        return p1 + p2, s1 + s2
    if res.error or res.violated:
        raise MachineryError("Belief failed: %s %s" % (res.violated, (res.error or "")[-3000:]))
    m = re.search(r"Finished computing initial states: (\d+) distinct state", res.stdout)
    want = sum(len(r["modes"]) for r in rows)
    if not m or int(m.group(1)) != want:
        raise MachineryError("Belief started from %s initial states, expected %d" % (m and m.group(1), want))
    ctx.add_tlc("Belief " + label, res)
    return res.printed, []


def witness(ctx, row, mode, inv, n):
    """shortest counterexample of the real invariant `inv` on one row: the plan as a list of ground actions"""
    d = ctx.sub("witness-%d" % n)
    path = os.path.join(d, "batch.ndjson")
    tlc.write_ndjson(path, [dict({k: row[k] for k in ROW_FIELDS}, modes=[mode])])
    res = tlc.run_tlc("Belief", CFG % ("TRUE", 5 * CASE_CAP, "INVARIANT %s\n" % inv), d, env={"BATCH": path},
                      workers=1, timeout=3000, heap="8g")
    if res.violated != inv:
        return None
    plan = []
    for st in res.trace:
        last = st["vars"].get("last")
        if isinstance(last, list) and last:
            plan.append(last[0])
    return plan


def judge(ctx, rows):
    d = ctx.sub("judge")
    path = os.path.join(d, "rows.ndjson")
    tlc.write_ndjson(path, rows)
    res = tlc.run_tlc("BeliefJudge", JUDGE_CFG, d, env={"BATCH": path}, workers=WORKERS, timeout=3000)
    if res.error or res.violated:
        raise MachineryError("BeliefJudge failed: %s %s" % (res.violated, (res.error or "")[-3000:]))
    if res.distinct != len(rows):
        raise MachineryError("BeliefJudge consumed %d rows, expected %d" % (res.distinct, len(rows)))
    ctx.add_tlc("BeliefJudge", res)
    return [p for p in res.printed if p and p[0] == "FAIL"]


# ----------------------------------------------------------------------------------------
def make_jobs(ctx, n_explicit, n_contingent, n_dom_trials, n_chain=0, n_chain_contingent=0):
    g = Gen(ctx.rng, **MASK)
    jobs = []
    nid = [0]

    def add(**kw):
        nid[0] += 1
        kw["id"] = nid[0]
        kw["seed"] = ctx.rng.randrange(1 << 30)
        jobs.append(kw)
        return kw

    for k in range(n_explicit):
        P = gen_problem(g, k % 2 == 0, k % 3 != 0)
        if k % 4 < 2:
            P = retarget_goal(ctx.rng, P)
        n = len(upj.keys_of(P))
        S = gen_states(ctx.rng, n)
        b = add(fam="explicit", P=P, inits=S)
        # variant: duplicates and another order
        D = S + [list(ctx.rng.choice(S)) for _ in range(ctx.rng.randint(1, 2))]
        ctx.rng.shuffle(D)
        if k % 2 == 0:
            add(fam="explicit", P=P, inits=D, base=b["id"], variant="dup")
        # variants: one added state at a seeded position (the judge decides from the tags the compiler kept
        # whether it was dropped as dominated)
        for _ in range(n_dom_trials):
            x = list(ctx.rng.choice(S))
            for i in ctx.rng.sample(range(n), min(n, ctx.rng.choice([1, 1, 2]))):
                x[i] = not x[i]
            if x in S:
                continue
            E = list(S)
            E.insert(ctx.rng.randint(0, len(E)), x)
            add(fam="explicit", P=P, inits=E, base=b["id"], variant="ext")
    for k in range(n_contingent):
        P = gen_problem(g, k % 2 == 0, k % 3 != 0)
        if k % 4 < 2:
            P = retarget_goal(ctx.rng, P)
        add(fam="contingent", P=P, cons=gen_constraints(ctx.rng, len(upj.keys_of(P))))
    # `chain` stratum (generated after the other strata, which therefore stay what they were for a given seed)
    for k in range(n_chain):
        P, info = gen_chain_problem(ctx.rng, g)
        n = len(upj.keys_of(P))
        S = gen_chain_states(ctx.rng, n, info)
        b = add(fam="explicit", P=P, inits=S, strat="chain", chain=info)
        # the same states in the opposite order (of states the reduction ranks equal, the first is kept)
        if len(S) > 1:
            add(fam="explicit", P=P, inits=S[::-1], base=b["id"], variant="rev", strat="chain")
    for k in range(n_chain_contingent):
        P, info = gen_chain_problem(ctx.rng, g)
        keys = upj.keys_of(P)
        base = gen_chain_base(ctx.rng, len(keys), info)
        P = dict(P, init=[{"f": k_[0], "args": [upj.OV(a) for a in k_[1]], "v": upj.BV(v)} for k_, v in zip(keys, base)])
        # hidden: the source of the chain, often together with 1-2 other fluents that are not the end of the chain
        others = [j for j in range(len(keys)) if j not in (info["ch"][0], info["ch"][-1])]
        pool = [info["ch"][0]]
        if others and ctx.rng.random() < 0.6:
            pool += ctx.rng.sample(others, min(len(others), ctx.rng.choice([1, 1, 2])))
        add(fam="contingent", P=P, cons=gen_constraints(ctx.rng, len(keys), among=pool), strat="chain", chain=info)
    return jobs


def run(ctx):
    q = ctx.quick
    n_explicit, n_contingent, n_dom = (50, 40, 2) if q else (250, 250, 3)
    n_chain, n_chain_cont = (22, 6) if q else (120, 40)
    jobs = make_jobs(ctx, n_explicit, n_contingent, n_dom, n_chain, n_chain_cont)
    with Pool(POOL, initializer=_warm) as pool:
        recs = pool.map(worker, jobs, chunksize=2)
    stats = {"jobs": len(jobs), "skipped": {}, "raised": {}, "above_cap": 0}
    rows = []
    for r in recs:
        if r["skip"].startswith("HARNESS"):
            raise MachineryError("harness error: %s" % r["skip"])
        if r["skip"]:
            stats["skipped"][r["skip"]] = stats["skipped"].get(r["skip"], 0) + 1
            continue
        if r["raised"] != "none":
            stats["raised"][r["raised"]] = stats["raised"].get(r["raised"], 0) + 1
        rows.append(r)
    if not any(r["raised"] == "none" for r in rows):
        raise MachineryError("no compilation succeeded")
    # ---- stage 1+2: exhaustive explorations (K with beliefs; belief space of P) ---------------------------
    chunk = 64
    printed, skipped = [], []
    for i in range(0, len(rows), chunk):
        p, s = explore(ctx, rows[i:i + chunk], "b%d" % (i // chunk), stats)
        printed += p
        skipped += s
    kg, pg, pgk, unspec, sfail, ofail = set(), set(), set(), set(), {}, {}
    for p in printed:
        if p[0] == "KG":
            kg.add(p[1])
        elif p[0] == "PG":
            (pg if p[2] == "P" else pgk).add(p[1])
        elif p[0] == "UNSPEC":
            unspec.add(p[1])
        elif p[0] == "FAIL":
            (sfail if p[2].startswith("mapped-back") else ofail).setdefault(p[1], set()).add(p[2])
    byid = {r["id"]: r for r in rows}
    live = [r for r in rows if r["id"] not in skipped]
    ctx.cov["unspecified"] += len(unspec)
    # ---- stage 3: the judge compares the answers -----------------------------------------------------------
    jrows = []
    for r in live:
        i = r["id"]
        jrows.append({"id": i, "fam": r["fam"], "raised": r["raised"], "unspec": i in unspec, "kg": i in kg, "pg": i in pg,
                      "pgk": i in pgk, "haspgk": "PK" in r["modes"], "sf": i in sfail,
                      "base": r["base"] if r["base"] in byid and r["base"] not in skipped else 0,
                      "inits": r["inits"], "kept": r["kept"], "samples": r["samples"], "back": r["back"]})
    jfails = judge(ctx, jrows)
    # ---- report --------------------------------------------------------------------------------------------
    nwit = [0]

    def data_of(r, clause, plan_k=None, plan_p=None):
        dropped = len({tuple(v["b"] for v in s) for s in r["inits"]}) - len(r["kept"]) if r["fam"] == "explicit" else None
        return {"clause": clause, "family": r["fam"], "variant": r["variant"], "problem": r["P"], "possible_initial_states": r["inits"],
                "constraints": r["cons"], "job": {k: v for k, v in r["job"].items() if k != "P"}, "kept_tags": r["kept"],
                "states_dropped_by_compiler": dropped, "raised": r["raised"], "detail": r["detail"],
                "compiled_actions": [a["name"] for a in r["K"]["actions"]] if r["raised"] == "none" else [],
                "compiled_plan": plan_k, "conformant_plan": plan_p, "features": features(r["P"])}

    def sig_of(r, clause):
        fs = features(r["P"])
        reduced = r["fam"] == "explicit" and len(r["kept"]) < len({tuple(v["b"] for v in s) for s in r["inits"]})
        extra = []
        if clause.startswith(("mapped-back", "dropping", "added", "compiled-solvable", "tag-is-not")):
            extra.append(r["fam"])
            extra.append("reduced" if reduced else "all-tags")
            if clause.startswith(("dropping", "added")):
                # domination is computed per literal AFTER disjunctions were split (known incompleteness class)
                extra.append(",".join(f for f in fs if f in ("constatom", "disj-pre", "disj-goal")) or "conj")
            else:
                extra += [f for f in fs if f == "constatom"]
        if clause.startswith("conformant-plan-exists"):
            extra.append(",".join(f for f in fs if f in ("constatom", "disj-pre", "disj-goal")) or "conj")
        if clause.startswith("compiler-raises"):
            extra.append(r["raised"])
        return "|".join([clause] + extra)

    seen_sig = {}
    for i in sorted(sfail):
        for clause in sorted(sfail[i]):
            r = byid[i]
            sig = sig_of(r, clause)
            seen_sig[sig] = seen_sig.get(sig, 0) + 1
            kp = None
            if seen_sig[sig] <= 1 and nwit[0] < 6:
                nwit[0] += 1
                kp = witness(ctx, r, "K", "NoFail", nwit[0])
            ctx.violation(sig, "Ks0Compiler unsound: a plan of the compiled problem maps back to a non-conformant plan (%s)" % clause,
                          data_of(r, clause, plan_k=kp))
    for p in [("FAIL", i, c) for i in sorted(ofail) for c in sorted(ofail[i])] + jfails:
        _, i, clause = p
        r = byid[i]
        sig = sig_of(r, clause)
        seen_sig[sig] = seen_sig.get(sig, 0) + 1
        pp = None
        if seen_sig[sig] <= 1 and nwit[0] < 6 and clause in ("conformant-plan-exists-but-compiled-unsolvable", "compiler-raises-but-conformant-plan-exists"):
            nwit[0] += 1
            pp = witness(ctx, r, "P", "NoPGoal", nwit[0])
        ctx.violation(sig, "Ks0Compiler: %s" % clause, data_of(r, clause, plan_p=pp))
    # ---- evidence ------------------------------------------------------------------------------------------
    judged = [r for r in live if r["raised"] == "none"]
    stats["judged"] = len(judged)
    stats["conformant_solvable"] = sum(1 for r in judged if r["id"] in pg)
    stats["compiled_solvable"] = sum(1 for r in judged if r["id"] in kg)
    stats["with_dropped_states"] = sum(1 for r in judged if r["fam"] == "explicit" and "PK" in r["modes"])
    stats["contingent"] = sum(1 for r in judged if r["fam"] == "contingent")
    stats["variants_dup"] = sum(1 for r in judged if r["variant"] in ("dup", "rev"))
    stats["chain_stratum"] = sum(1 for r in judged if r["job"].get("strat") == "chain")
    stats["chain_stratum_conformant_solvable"] = sum(1 for r in judged if r["job"].get("strat") == "chain" and r["id"] in pg)
    stats["chain_stratum_with_dropped_states"] = sum(
        1 for r in judged if r["job"].get("strat") == "chain" and r["fam"] == "explicit" and "PK" in r["modes"])
    stats["variants_ext_all_dropped"] = sum(
        1 for r in judged if r["variant"] == "ext" and r["base"] in byid and byid[r["base"]]["raised"] == "none"
        and sorted(map(str, r["kept"])) == sorted(map(str, byid[r["base"]]["kept"])))
    stats["raised_total"] = sum(stats["raised"].values())
    ctx.cov["c30"] = stats
    ctx.cov["evaluations"] = len(live)
    ctx.cov["traces_validated_against_impl"] = len(judged)
    ctx.cov["distinct_nontrivial"] = stats["conformant_solvable"]
    ctx.cov["exhaustive"] = True
    ctx.cov["rule"] = (
        "%d explicit-state base problems (each with a duplicate/reorder variant and up to %d added-state variants), %d "
        "contingent problems, and %d + %d dependency-chain problems (explicit with a reversed-order variant / contingent); one evaluation = one (problem, possible initial states, compiled problem, map-back table) "
        "record whose compiled state space (with the belief of the mapped-back plan) and whose belief space are explored "
        "exhaustively by TLC (cap %d distinct states per exploration: %d above the cap); non-trivial = a conformant plan exists."
        % (n_explicit, n_dom, n_contingent, n_chain, n_chain_cont, CASE_CAP, stats["above_cap"]))
    ex = judged[0]
    ctx.sample({"family": ex["fam"], "problem": ex["P"], "possible_initial_states": ex["inits"], "constraints": ex["cons"],
                "compiled_actions": [a["name"] for a in ex["K"]["actions"]], "back": ex["back"][:6], "kept_tags": ex["kept"]})
    ctx.assumptions += [
        "TLC, the CommunityModules Json reader and harness/upj.py build/project (structure only) are trusted",
        "knowledge fluents are named K_<fluent>_<tag> / K_not_<fluent>_<tag> (used only to read the kept tags off the compiled initial state)",
        "Boolean problems with <= 6 ground fluents and <= 40 compiled ground actions; at most one effect per ground fluent per action",
    ]
