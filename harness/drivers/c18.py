"""C18 -- PDDL write/read round trip preserves problem semantics and plans.

G2 problems in the PDDL-expressible fragment (harness/gen.py with the C18 mask; adversarial
identifiers applied by a pure renaming of the UPJ value; a bounded-numeric slice for the known
"bounds dropped" defect; a classical slice the third-party grammar can read; a temporal slice
from TGen) are built through the public API, written with the real PDDLWriter, read back with
BOTH readers (PDDLReader(force_up_pddl_reader=True) and PDDLReader(force_ai_planning_reader=True)),
projected (harness/upj.project) and renamed back to the original identifiers with the writer's own
look-up (get_item_named).  Plans (simulator walks / seeded time-triggered plans) are written with
get_plan and parsed back with parse_plan_string.

Python only builds, calls, projects and renames; every verdict is a TLA+ definition evaluated by TLC:
  * spec/Bisim.tla          A vs re-read B on every state reachable in A to the depth bound
  * spec/PddlRoundTrip.tla  the three judging rules for failures (writer / UP reader / third-party
                            reader), SameTemporalStructure, plan round trip (parsed plan = original
                            under renaming, same SeqVerdict / TimeVerdict, same metric value).
"""
import copy
import os
import random
import re
import traceback
import warnings
from fractions import Fraction
from multiprocessing import Pool

from .. import tlc, upj, simobs, timeobs
from ..common import MachineryError, time_limit, ImplTimeout, call_limited
from ..gen import Gen, TGen, ground_actions, random_tt_plan, const_num

CFG = "SPECIFICATION Spec\nINVARIANT Judge\n"
CFG_BISIM = "SPECIFICATION Spec\nINVARIANT Equivalent\n"
NPROC = 8

# ----------------------------------------------------------------------------------------
# pure renaming of UPJ values (structure only)
# ----------------------------------------------------------------------------------------


def _r_type(t, ren):
    if t["k"] == "user":
        return {"k": "user", "name": ren("type", t["name"])}
    return t


def _r_val(v, ren):
    if v["k"] == "o":
        return {"k": "o", "o": ren("object", v["o"])}
    return v


def _r_expr(e, ren):
    op = e["op"]
    out = {"op": op, "args": [_r_expr(a, ren) for a in e["args"]], "name": e["name"], "v": _r_val(e["v"], ren),
           "vars": [{"name": ren("var", v["name"]), "type": _r_type(v["type"], ren)} for v in e["vars"]]}
    if op == "obj":
        out["name"] = ren("object", e["name"])
    elif op == "fluent":
        out["name"] = ren("fluent", e["name"])
    elif op == "param":
        out["name"] = ren("param", e["name"])
    elif op == "var":
        out["name"] = ren("var", e["name"])
    return out


def _r_eff(ef, ren):
    return {"kind": ef["kind"], "f": {"name": ren("fluent", ef["f"]["name"]), "args": [_r_expr(a, ren) for a in ef["f"]["args"]]},
            "v": _r_expr(ef["v"], ren), "c": _r_expr(ef["c"], ren),
            "forall": [{"name": ren("var", v["name"]), "type": _r_type(v["type"], ren)} for v in ef["forall"]]}


def _r_action(a, ren):
    out = dict(a)
    out["name"] = ren("action", a["name"])
    out["params"] = [{"name": ren("param", p["name"]), "type": _r_type(p["type"], ren)} for p in a["params"]]
    out["pre"] = [_r_expr(c, ren) for c in a["pre"]]
    if a["kind"] == "dur":
        out["effects"] = [{"t": te["t"], "e": _r_eff(te["e"], ren)} for te in a["effects"]]
        out["conds"] = [{"iv": c["iv"], "c": _r_expr(c["c"], ren)} for c in a["conds"]]
        d = a["dur"]
        out["dur"] = {"lo": _r_expr(d["lo"], ren), "hi": _r_expr(d["hi"], ren), "lopen": d["lopen"], "ropen": d["ropen"]}
    else:
        out["effects"] = [_r_eff(e, ren) for e in a["effects"]]
    return out


def rename_upj(P, ren):
    """P with every identifier n of kind k replaced by ren(k, n)  (k: type object fluent action param var)"""
    Q = {"name": P["name"]}
    Q["types"] = [{"name": ren("type", t["name"]), "parent": ren("type", t["parent"]) if t["parent"] else ""} for t in P["types"]]
    Q["objects"] = [{"name": ren("object", o["name"]), "type": ren("type", o["type"])} for o in P["objects"]]
    Q["fluents"] = [{"name": ren("fluent", f["name"]), "type": _r_type(f["type"], ren),
                     "sig": [{"name": ren("param", p["name"]), "type": _r_type(p["type"], ren)} for p in f["sig"]],
                     "default": _r_val(f["default"], ren)} for f in P["fluents"]]
    Q["init"] = [{"f": ren("fluent", i["f"]), "args": [_r_val(a, ren) for a in i["args"]], "v": _r_val(i["v"], ren)} for i in P["init"]]
    Q["actions"] = [_r_action(a, ren) for a in P["actions"]]
    Q["goals"] = [_r_expr(g, ren) for g in P["goals"]]
    Q["invariants"] = [_r_expr(g, ren) for g in P.get("invariants", [])]
    Q["traj"] = [_r_expr(g, ren) for g in P.get("traj", [])]
    Q["timed_goals"] = [{"iv": tg["iv"], "g": _r_expr(tg["g"], ren)} for tg in P.get("timed_goals", [])]
    Q["timed_effects"] = [{"t": te["t"], "e": _r_eff(te["e"], ren)} for te in P.get("timed_effects", [])]
    m = P["metric"]
    Q["metric"] = {"kind": m["kind"], "costs": [{"a": ren("action", c["a"]), "c": _r_expr(c["c"], ren)} for c in m["costs"]],
                   "default": _r_expr(m["default"], ren), "expr": _r_expr(m["expr"], ren),
                   "goals": [{"g": _r_expr(g["g"], ren), "w": g["w"]} for g in m["goals"]]}
    Q["nmetrics"] = P.get("nmetrics", 0)
    Q["ifuns"] = P.get("ifuns", [])
    return Q


def rename_steps(steps, ren):
    return [{"a": ren("action", s["a"]), "args": [_r_val(a, ren) for a in s["args"]], "t": s["t"], "d": s["d"]} for s in steps]


# ----------------------------------------------------------------------------------------
# adversarial identifiers (the generator emits t0 o1 f2 a3 p0 x y v0 w)
# ----------------------------------------------------------------------------------------
ADV = {
    # PDDL keywords / section names / requirement names / connectives, in several cases
    "kw": ["and", "not", "or", "when", "forall", "exists", "imply", "at", "start", "end", "over", "all", "object", "number",
           "increase", "decrease", "assign", "total-cost", "total-time", "define", "domain", "problem", "either", "init",
           "goal", "duration", "condition", "effect", "action", "typing", "strips", "always", "sometime", "minimize", "AND", "At",
           "Object", "NOT", "Increase", "oneof", "unknown", "observe", "scale-up", "within", "at-most-once", "process", "event",
           "length", "true", "false", "undefined", "constraints", "predicates", "functions", "types", "objects"],
    "upper": ["A", "a", "Move", "move", "MOVE", "ON", "On", "on", "Loc", "loc", "X", "x", "T", "t", "B", "b"],
    "digit": ["1a", "2", "007", "3_x", "9-b", "0", "42nd", "1A"],
    "symbol": ["a.b", "a b", "a_b", "a-b", "x@y", "p/q", "c:d", "#t", "?v", "a,b", "(q)", "a+b", "x'", "a.b.c", "a_b_c", "a__b",
               "été", "_u", "-m", "a_0", "a_1", "f_0", "o_0", "x_0", "p_0"],
}


def adversarial_names(P, rng, strength=0.7, keywords=True):
    """a consistent renaming of P to adversarial identifiers; names stay pairwise distinct (unified-planning
    rejects two items with one name) but may collide after lower-casing / symbol replacement."""
    used = set()
    table = {}
    pool = (ADV["kw"] if keywords else []) + ADV["upper"] + ADV["digit"] + ADV["symbol"]

    def pick(kind, name):
        key = (kind, name)
        if key in table:
            return table[key]
        new = name
        if rng.random() < strength:
            for _ in range(20):
                cand = rng.choice(pool)
                if kind in ("param", "var") and cand.startswith("?"):
                    continue
                if cand not in used:
                    new = cand
                    break
        if new in used:
            new = name
        used.add(new)
        table[key] = new
        return new

    # global names first, in a fixed order; parameters / variables share one table (consistent per spelling)
    for t in P["types"]:
        pick("type", t["name"])
    for o in P["objects"]:
        pick("object", o["name"])
    for f in P["fluents"]:
        pick("fluent", f["name"])
    for a in P["actions"]:
        pick("action", a["name"])
    # reserve the remaining generated spellings so that a picked name never equals another item's original name
    for k in ("x", "y", "w", "p0", "p_0", "z", "x_y", "v0", "v1", "v2"):
        used.add(k)

    def ren(kind, name):
        if kind in ("param", "var"):
            key = ("pv", name)
            if key not in table:
                new = name
                if rng.random() < strength:
                    for _ in range(20):
                        cand = rng.choice(pool)
                        if not cand.startswith("?") and cand not in used:
                            new = cand
                            break
                used.add(new)
                table[key] = new
            return table[key]
        return pick(kind, name)

    return rename_upj(P, ren)


# ----------------------------------------------------------------------------------------
# the round trip on the real code
# ----------------------------------------------------------------------------------------
def _exc(ex):
    return type(ex).__name__


def _limited(fn, limit):
    """a generous limit and one longer retry: on a busy machine a spurious time-out inside the parsers could be
    mistaken for a parse error (the alarm is a BaseException raised at an arbitrary point of third-party code)"""
    return call_limited(fn, limit, 5)


def _where(ex):
    """innermost frames of the traceback (walked by hand: the third-party parser leaves sys.tracebacklimit at 0,
    which empties traceback.extract_tb)"""
    fr = []
    tb = ex.__traceback__
    while tb is not None:
        co = tb.tb_frame.f_code
        fr.append("%s:%s" % (os.path.basename(co.co_filename), co.co_name))
        tb = tb.tb_next
    # keep the outermost unified_planning frames and the innermost ones
    return ">".join(fr[:1] + [f for f in fr[1:-3] if f.startswith("from_pddl.py")][:1] + fr[-3:])


def _msg(ex):
    return re.sub(r"\s+", " ", str(ex))[:240]


class BackRenamer:
    """rename a projected re-read problem back to the original identifiers with the writer's own look-up"""

    def __init__(self, writer):
        self.w = writer
        self.miss = []

    def __call__(self, kind, name):
        key = ("?" + name) if kind in ("param", "var") else name
        try:
            item = self.w.get_item_named(key)
        except Exception:
            if (kind, name) not in self.miss:
                self.miss.append((kind, name))
            return name
        n = getattr(item, "name", None)
        return n if isinstance(n, str) else name


def _steps_of_plan(plan):
    """project a parsed plan (structure only)"""
    from unified_planning.plans import SequentialPlan, TimeTriggeredPlan

    out = []
    if isinstance(plan, SequentialPlan):
        for ai in plan.actions:
            out.append({"a": ai.action.name, "args": [upj.p_const(p) for p in ai.actual_parameters], "t": upj.NV(0), "d": upj.NV(0)})
        return "seq", out
    if isinstance(plan, TimeTriggeredPlan):
        for (s, ai, d) in plan.timed_actions:
            out.append({"a": ai.action.name, "args": [upj.p_const(p) for p in ai.actual_parameters], "t": upj.NV(s),
                        "d": upj.NV(d if d is not None else 0)})
        return "tt", out
    return type(plan).__name__, out


READERS = (("up", dict(force_up_pddl_reader=True)), ("ai", dict(force_ai_planning_reader=True)))


def _read(kw, dom, prob):
    from unified_planning.io import PDDLReader

    return PDDLReader(**kw).parse_problem_string(dom, prob)


def round_trip(P, plans, temporal, limit=120, ai_on_temporal=True):
    """write P, read it back with both readers; returns (write record, [read records])
    plans: list of (kind, steps) over P's identifiers."""
    from unified_planning.io import PDDLWriter, PDDLReader

    W = {"wexc": "none", "wmsg": "", "dom": "", "prob": ""}
    try:
        problem = _limited(lambda: upj.build(P), limit)
    except ImplTimeout:
        return {"skip": "build-timeout"}, []
    except Exception as ex:
        return {"skip": "build:" + _exc(ex), "detail": _msg(ex)}, []
    try:
        w = PDDLWriter(problem)
        W["dom"], W["prob"] = _limited(lambda: (w.get_domain(), w.get_problem()), limit)
    except ImplTimeout:
        W["wexc"] = "TIMEOUT"
        return W, []
    except Exception as ex:
        W["wexc"], W["wmsg"] = _exc(ex), _msg(ex)
        return W, []
    dom, prob = W["dom"], W["prob"]
    reads = []
    for rname, kw in READERS:
        if rname == "ai" and temporal and not ai_on_temporal:
            # the third-party grammar has no durative actions: it is offered only a sample of the temporal slice
            continue
        if True:
            variant = "default"
            R = {"reader": rname, "variant": variant, "rexc": "none", "rmsg": "", "B": None, "miss": [], "plans": []}
            try:
                with warnings.catch_warnings():
                    warnings.simplefilter("ignore")
                    q = _limited(lambda: _read(kw, dom, prob), limit)
            except ImplTimeout:
                R["rexc"] = "TIMEOUT"
                q = None
            except Exception as ex:
                R["rexc"], R["rmsg"] = _exc(ex), _msg(ex)
                R["rwhere"] = _where(ex)
                q = None
            if q is not None:
                try:
                    back = BackRenamer(w)
                    R["B"] = rename_upj(upj.project(q), back)
                    R["miss"] = ["%s:%s" % m for m in back.miss]
                except Exception as ex:
                    R["rexc"], R["rmsg"] = "PROJECT:" + _exc(ex), _msg(ex)
                    R["B"] = None
            reads.append(R)
            # ---- plans --------------------------------------------------------------------
            if q is None or R["B"] is None:
                continue
            rd = PDDLReader(**kw)
            for (kind, steps) in plans:
                pr = {"kind": kind, "steps": steps, "text": "", "wexc": "none", "back": [], "bkind": "", "bexc": "none",
                      "via": [], "vkind": "", "vexc": "none"}
                try:
                    pl = timeobs.build_seq_plan(problem, steps) if kind == "seq" else timeobs.build_tt_plan(problem, steps)
                    pr["text"] = _limited(lambda: w.get_plan(pl), limit)
                except ImplTimeout:
                    pr["wexc"] = "TIMEOUT"
                except Exception as ex:
                    pr["wexc"] = _exc(ex)
                if pr["wexc"] == "none":
                    # (a) against the re-read problem, by PDDL names
                    try:
                        bp = _limited(lambda: rd.parse_plan_string(q, pr["text"]), limit)
                        pr["bkind"], bsteps = _steps_of_plan(bp)
                        pr["back"] = rename_steps(bsteps, BackRenamer(w))
                    except ImplTimeout:
                        pr["bexc"] = "TIMEOUT"
                    except Exception as ex:
                        pr["bexc"] = _exc(ex)
                    # (b) against the original problem, through the writer's look-up
                    try:
                        vp = _limited(lambda: rd.parse_plan_string(problem, pr["text"], w.get_item_named), limit)
                        pr["vkind"], pr["via"] = _steps_of_plan(vp)
                    except ImplTimeout:
                        pr["vexc"] = "TIMEOUT"
                    except Exception as ex:
                        pr["vexc"] = _exc(ex)
                R["plans"].append(pr)
    return W, reads


# ----------------------------------------------------------------------------------------
# corpus
# ----------------------------------------------------------------------------------------
MASK = dict(objfluents=False, bounded=False, bool_expr_assign=False, boolconst=False, metric="any", undefined=False,
            invariants=False)


class GenAI(Gen):
    """the part of the C18 grammar the third-party (AI-planning `pddl`) grammar can read: no negative literals,
    no binary minus, every action has a precondition (generator restrictions only)"""

    def num_expr(self, depth, params, vs, intonly=False, nodiv=True):
        e = Gen.num_expr(self, depth, params, vs, intonly, nodiv)
        return self._positive(e)

    def _positive(self, e):
        if e["op"] == "const" and e["v"]["k"] == "n" and e["v"]["n"] < 0:
            return upj.E("const", v=upj.NV(-Fraction(e["v"]["n"], e["v"]["d"])))
        if e["op"] == "minus":
            return upj.E("plus", [self._positive(a) for a in e["args"]])
        if e["args"]:
            out = dict(e)
            out["args"] = [self._positive(a) for a in e["args"]]
            return out
        return e

    def atom(self, params, vs):
        # more fluent-vs-constant comparisons around the initial values, so that the boundary case of <= / < is
        # reached within the depth bound (generator bias only)
        nfl = [f for f in self.P["fluents"] if f["type"]["k"] in ("int", "real")]
        if nfl and self.o["numeric"] and self.r.random() < 0.3:
            app = self.fluent_app(self.r.choice(nfl), params, vs)
            if app is not None:
                c = upj.E("const", v=upj.NV(self.r.choice([0, 1, 1, 2, 2, 3])))
                return upj.E(self.r.choice(["le", "le", "lt"]), self.r.choice([[app, c], [c, app]]))
        return Gen.atom(self, params, vs)

    def const_of_type(self, t, wide=False):
        v = Gen.const_of_type(self, t, wide)
        if v["k"] == "n" and v["n"] < 0:
            return upj.NV(-Fraction(v["n"], v["d"]))
        return v

    def action(self, name):
        a = Gen.action(self, name)
        params = {p["name"]: p["type"] for p in a["params"]}
        while not a["pre"]:
            a["pre"] = [self.bool_expr(self.r.choice([0, 1]), params, {})]
        return a

    def problem(self):
        P = Gen.problem(self)
        # the third-party PROBLEM parser accepts neither or / imply / quantifiers / = in goals (it never sees the
        # declared requirements): conjunctive goals over literals and numeric comparisons
        keep = dict(self.o)
        self.o.update(disjunction=False, quantifiers=False, equality=False, implies=False)
        P["goals"] = [self.bool_expr(1, {}, {}) for _ in range(self.r.randint(1, 2))]
        self.o = keep
        return P


def _writable_metric(g, P):
    # PDDL has no oversubscription metric (the writer raises NotImplementedError): generator restriction
    while P["metric"]["kind"] == "oversub":
        P["metric"] = g.metric()
    P["nmetrics"] = 0 if P["metric"]["kind"] == "none" else 1
    return P


def _reads_state(e):
    return e["op"] in ("fluent", "param", "var") or any(_reads_state(a) for a in e["args"])


def _const_atom(e):
    """a comparison / equality over constants only (it simplifies to true or false)"""
    if e["op"] in ("le", "lt", "eq") and not _reads_state(e):
        return True
    return any(_const_atom(a) for a in e["args"])


def _constant_conditions(P):
    cs = list(P["goals"])
    for a in P["actions"]:
        effs = [te["e"] for te in a["effects"]] if a["kind"] == "dur" else a["effects"]
        cs += a["pre"] + [c["c"] for c in a["conds"]] + [e["c"] for e in effs]
    cs += [te["e"]["c"] for te in P.get("timed_effects", [])]
    return any(_const_atom(c) for c in cs)


def _gen(g, i):
    """the writer rejects conditions that simplify to a Boolean constant (outside the PDDL fragment): most of the
    corpus avoids comparisons of constants (generator restriction); one problem in eight is left as generated"""
    P = g.problem()
    if i % 8:
        for _ in range(6):
            if not _constant_conditions(P):
                break
            P = g.problem()
    return P


def make_corpus(rng, counts):
    """[(slice, P)]; every random choice comes from rng"""
    out = []
    g_num = Gen(rng, **MASK)
    g_ai = GenAI(rng, **dict(MASK, implies=False))
    g_cls = GenAI(rng, **dict(MASK, numeric=False, implies=False))
    g_bnd = Gen(rng, **dict(MASK, bounded=True, real=False))
    g_tmp = TGen(rng, objfluents=False, bounded=False, bool_expr_assign=False, boolconst=False, undefined=False, invariants=False,
                 intermediate=False, quantifiers=True)
    for i in range(counts["num"]):
        P = _writable_metric(g_num, _gen(g_num, i))
        out.append(("num", adversarial_names(P, rng) if i % 4 else P))
    for i in range(counts["ai"]):
        g = g_cls if i % 3 == 0 else g_ai
        P = _writable_metric(g, _gen(g, i))
        # (the third-party parser rejects every identifier that is a keyword of its grammar: none here)
        out.append(("ai", adversarial_names(P, rng, 0.5, keywords=False) if i % 3 == 0 else P))
    for i in range(counts["bnd"]):
        P = _gen(g_bnd, i)
        if not _bounded(P):
            continue
        out.append(("bnd", _writable_metric(g_bnd, P)))
    for i in range(counts["tmp"]):
        P = _gen(g_tmp, i)
        if i % 10:
            P["timed_goals"] = []  # the writer rejects timed goals (kept in a tenth of the slice to exercise the rejection)
        for j, te in enumerate(P["timed_effects"]):
            # PDDL timed initial literals are unconditional; a quarter keeps its condition (known finding: the
            # writer emits "(at t (when ...))", which no reader accepts)
            if (i + j) % 4:
                te["e"]["c"] = upj.TRUE_E
        if i % 3 == 0:
            P["metric"] = {"kind": "makespan", "costs": [], "default": upj.E("none"), "expr": upj.E("none"), "goals": []}
            P["nmetrics"] = 1
        out.append(("tmp", adversarial_names(P, rng, 0.6) if i % 2 else P))
    return out


def _bounded(P):
    return any(f["type"]["k"] in ("int", "real") and (f["type"]["lo"]["k"] != "none" or f["type"]["hi"]["k"] != "none")
               for f in P["fluents"])


def _has_fluent(e):
    return e["op"] == "fluent" or any(_has_fluent(a) for a in e["args"])


def _ops(e, acc):
    acc.add(e["op"])
    for a in e["args"]:
        _ops(a, acc)
    return acc


PDDL3_KW = {"constraints", "preferences", "is-violated", "preference", "always", "sometime", "within", "at-most-once",
            "sometime-after", "sometime-before", "always-within", "hold-during", "hold-after"}
TEMPORAL_KW = {"durative-action", "duration", "condition", "at", "over", "start", "end", "all"}


def _idents(P):
    out = [t["name"] for t in P["types"]] + [o["name"] for o in P["objects"]] + [f["name"] for f in P["fluents"]]
    out += [a["name"] for a in P["actions"]]
    for f in P["fluents"]:
        out += [p["name"] for p in f["sig"]]
    for a in P["actions"]:
        out += [p["name"] for p in a["params"]]
    return out


def _sexprs(text):
    toks = re.findall(r"\(|\)|[^\s()]+", text)
    stack = [[]]
    for t in toks:
        if t == "(":
            stack.append([])
        elif t == ")":
            if len(stack) > 1:
                x = stack.pop()
                stack[-1].append(x)
        else:
            stack[-1].append(t)
    return stack[0]


def _rep_sx(x):
    if not isinstance(x, list):
        return False
    if x and x[0] in ("+", "*"):
        def flat(y):
            out = []
            for a in y[1:]:
                out += flat(a) if isinstance(a, list) and a and a[0] == y[0] else [repr(a)]
            return out
        ops = flat(x)
        if len(ops) != len(set(ops)):
            return True
    return any(_rep_sx(a) for a in x)


def _rep_text(text):
    try:
        return _rep_sx(_sexprs(text))
    except Exception:
        return False


def features(P, W=None):
    """deterministic syntactic features of the input and of the written text (known-finding signatures are
    keyed on them; they play no part in any verdict)"""
    fs = set()
    if _bounded(P):
        fs.add("bounded")
    m = P["metric"]
    if m["kind"] in ("minfinal", "maxfinal") and not _has_fluent(m["expr"]):
        fs.add("metric-without-fluents")
    low = {n.lower() for n in _idents(P)}
    if low & PDDL3_KW and not P.get("traj"):
        fs.add("name:pddl3-keyword")
    if low & TEMPORAL_KW and not any(a["kind"] == "dur" for a in P["actions"]):
        fs.add("name:temporal-keyword")
    if "total-cost" in low:
        fs.add("name:total-cost")
    if len(P["types"]) > 1 and any(t["name"].lower() == "object" for t in P["types"]):
        fs.add("name:type-object")
    if "assign" in low:
        fs.add("name:assign")
    if low & {"oneof", "unknown", "observe"}:
        fs.add("name:contingent-keyword")
    if any(te["e"]["c"] != upj.TRUE_E for te in P.get("timed_effects", [])):
        fs.add("conditional-timed-effect")
    if W is not None:
        if re.search(r"\(:metric (minimize|maximize) -?[0-9.]+\)", W["prob"]):
            fs.add("metric-constant-in-text")
        if re.search(r"\(at [0-9.]+\)", W["prob"]):
            fs.add("empty-timed-effect-in-text")
        # sums / products with a repeated operand in the written text (the third-party parser drops them)
        if _rep_text(W["dom"]):
            fs.add("repeated-operand@domain")
        if _rep_text(W["prob"]):
            fs.add("repeated-operand@problem")
    return sorted(fs)


# ----------------------------------------------------------------------------------------
# plans (generator heuristics on the real simulator / validator; validity is decided by TLC)
# ----------------------------------------------------------------------------------------
def _seq_plans(P, problem, rng, L, k):
    from unified_planning.engines.sequential_simulator import UPSequentialSimulator

    gas = ground_actions(P)
    plans = [[]]
    if not gas:
        return plans, 0
    keys = upj.keys_of(P)
    acts = [(problem.action(g["a"]), simobs._params(problem, problem.action(g["a"]), g["args"])) for g in gas]
    safe = 0
    try:
        sim = UPSequentialSimulator(problem, error_on_failed_checks=False)
        s0 = sim.get_initial_state()
        vec0 = upj.state_vector(s0, problem, keys)
        seen = {repr(vec0)}
        frontier = [(s0, [])]
        goals, walks = [], []
        big = simobs._big(vec0)
        for depth in range(1, L + 1):
            if big:
                break
            nxt = []
            for st, path in frontier:
                for i, (a, params) in enumerate(acts):
                    try:
                        ns = sim.apply(st, a, params)
                    except Exception:
                        sim = UPSequentialSimulator(problem, error_on_failed_checks=False)
                        ns = None
                    if ns is None:
                        continue
                    vec = upj.state_vector(ns, problem, keys)
                    if simobs._big(vec):
                        big = True
                    kx = repr(vec)
                    if kx in seen:
                        continue
                    seen.add(kx)
                    p2 = path + [i]
                    nxt.append((ns, p2))
                    try:
                        if sim.is_goal(ns) and len(goals) < 8:
                            goals.append(p2)
                    except Exception:
                        sim = UPSequentialSimulator(problem, error_on_failed_checks=False)
            if not big:
                safe = depth
            if len(seen) > 600 or not nxt:
                if not nxt:
                    safe = L
                break
            frontier = nxt
            walks += [p for _, p in nxt[:40]]
        rng.shuffle(goals)
        for p in goals[:max(1, k - 2)]:
            plans.append([gas[i] for i in p])
        if walks:
            plans.append([gas[i] for i in rng.choice(walks)])
            # an executable prefix followed by an arbitrary step
            plans.append([gas[i] for i in rng.choice(walks)] + [rng.choice(gas)])
    except Exception:
        pass
    plans.append([rng.choice(gas) for _ in range(rng.randint(1, L))])
    out, seen_p = [], set()
    for pl in plans:
        if repr(pl) not in seen_p and _small_run(problem, P, keys, gas, acts, pl):
            seen_p.add(repr(pl))
            out.append(pl)
    return out[:k + 1], safe


def _small_run(problem, P, keys, gas, acts, pl):
    """TLC integers are 32 bit: keep only plans whose executable prefix stays within simobs.MAG on the real
    simulator (a bound on what TLC is asked to expand, not a verdict)"""
    from unified_planning.engines.sequential_simulator import UPSequentialSimulator

    try:
        sim = UPSequentialSimulator(problem, error_on_failed_checks=False)
        st = sim.get_initial_state()
        if simobs._big(upj.state_vector(st, problem, keys)):
            return False
        for g in pl:
            a, params = acts[gas.index(g)]
            st = sim.apply(st, a, params)
            if st is None:
                return True
            if simobs._big(upj.state_vector(st, problem, keys)):
                return False
    except Exception:
        return True
    return True


def _tt_plans(P, problem, rng, k):
    from unified_planning.engines.plan_validator import TimeTriggeredPlanValidator

    valid, other, seen = [], [], set()
    for _ in range(5 * k):
        steps = random_tt_plan(rng, P, 3)
        if not steps or repr(steps) in seen:
            continue
        seen.add(repr(steps))
        st, _, _ = timeobs.validate(TimeTriggeredPlanValidator, problem, timeobs.build_tt_plan(problem, steps), limit=10)
        (valid if st == "VALID" else other).append(steps)
    return (valid[: max(1, k - 2)] + other)[:k]


def _steps(pl):
    return [{"a": g["a"], "args": g["args"], "t": upj.NV(0), "d": upj.NV(0)} for g in pl]


def worker(job):
    cid, slice_, P, L, k, seed = job
    rec = {"cid": cid, "slice": slice_, "P": P, "skip": "", "safe": 0, "W": None, "reads": [], "job": [cid, slice_, P, L, k, seed]}
    try:
        temporal = slice_ == "tmp"
        plans = []
        def mk_plans():
            # a fresh seeded generator per attempt: a retry after a time-out makes the same choices
            r2 = random.Random(seed)
            problem = upj.build(P)
            if temporal:
                return [("tt", s) for s in _tt_plans(P, problem, r2, k)], 0
            pls, safe = _seq_plans(P, problem, r2, L, k)
            return [("seq", _steps(pl)) for pl in pls], safe

        try:
            plans, rec["safe"] = call_limited(mk_plans, 240, 5)
        except ImplTimeout:
            rec["skip"] = "plans-timeout"
            return rec
        except Exception as ex:
            rec["skip"] = "build:" + _exc(ex)
            rec["detail"] = _msg(ex)
            return rec
        W, reads = round_trip(P, plans, temporal, ai_on_temporal=(cid % 5 == 0))
        if "skip" in W:
            rec["skip"] = W["skip"]
            return rec
        rec["W"], rec["reads"] = W, reads
    except Exception as ex:  # harness error: machinery failure in the driver
        rec["skip"] = "HARNESS:" + _exc(ex)
        rec["detail"] = traceback.format_exc()[-1500:]
    return rec


# ----------------------------------------------------------------------------------------
# judging (TLC)
# ----------------------------------------------------------------------------------------
def _stage(R):
    """where the reader raised (an observation taken from the traceback): inside unified_planning's converter of
    the third-party parse result, or while the third-party parser read the problem file / the domain file"""
    w = R.get("rwhere", "")
    if R["reader"] != "ai":
        return "parse"
    if "from_pddl.py" in w:
        return "convert"
    return "parse-problem" if "problem.py:" in w else "parse-domain"


def _plan_rec(pr):
    return {"kind": pr["kind"], "steps": pr["steps"], "wexc": pr["wexc"], "bexc": pr["bexc"], "bkind": pr["bkind"], "back": pr["back"],
            "vexc": pr["vexc"], "vkind": pr["vkind"], "via": pr["via"]}


def build_batches(recs, D):
    """-> (round-trip batch for PddlRoundTrip, {depth: Bisim batch}, index cid -> (rec, read))"""
    rt, bis, index = [], {}, {}
    for rec in recs:
        if rec["skip"]:
            continue
        P, W = rec["P"], rec["W"]
        akeys = upj.keys_of(P)
        temporal = rec["slice"] == "tmp"
        base = {"A": P, "akeys": akeys, "B": P, "bkeys": akeys, "hasB": False, "wexc": W["wexc"], "reader": "up", "rexc": "none",
                "stage": "parse", "nmiss": 0, "temporal": temporal, "plans": []}
        if W["wexc"] != "none":
            cid = len(rt) + 1
            rt.append(dict(base, cid=cid))
            index[cid] = (rec, None)
            continue
        for R in rec["reads"]:
            cid = len(rt) + 1
            r = dict(base, cid=cid, reader=R["reader"], rexc=R["rexc"], stage=_stage(R), nmiss=len(R["miss"]))
            if R["B"] is not None:
                try:
                    bkeys = upj.keys_of(R["B"])
                except Exception:
                    bkeys = None
                if bkeys is None:
                    r["rexc"] = "PROJECT:keys"
                else:
                    r.update(B=R["B"], bkeys=bkeys, hasB=True, plans=[_plan_rec(pr) for pr in R["plans"]])
                    if not temporal:
                        d = D if rec["safe"] >= D else min(rec["safe"], 1)
                        bis.setdefault(d, []).append({"cid": cid, "A": P, "B": R["B"], "akeys": akeys, "bkeys": bkeys, "depth": d,
                                                      "length_as_unit_costs": True})
            rt.append(r)
            index[cid] = (rec, R)
    return rt, bis, index


_READ_FEATS = ["metric-constant-in-text", "empty-timed-effect-in-text", "name:pddl3-keyword", "name:temporal-keyword",
               "name:total-cost", "name:assign", "name:contingent-keyword", "conditional-timed-effect"]
# behavioural clauses x the input features known findings are keyed on (prefix match on the clause)
RELEVANT = [
    ("applicability-A-inv-B-ok", ["bounded"]),
    ("initial-state-validity-differs", ["bounded"]),
    ("plan-validity-A-INVALID-inv", ["bounded"]),
    ("plan-validity-A-INVALID-init", ["bounded"]),
    ("plan-validity-A-INVALID-bnds", ["bounded"]),
]
RELEVANT_AI = [
    ("action-cost-differs", ["repeated-operand@domain"]),
    ("applicability-", ["repeated-operand@domain"]),
    ("successor-differs", ["repeated-operand@domain"]),
    ("goal-verdict-", ["repeated-operand@problem"]),
    ("plan-validity-", ["repeated-operand@domain", "repeated-operand@problem"]),
    ("plan-metric-value-differs", ["repeated-operand@domain", "repeated-operand@problem"]),
]


def signature(reader, clause, feats, extra=""):
    rel = []
    if clause.startswith("up-reader-raises-"):
        rel = _READ_FEATS
    else:
        for pre, fl in RELEVANT + (RELEVANT_AI if reader == "ai" else []):
            if clause.startswith(pre):
                rel = rel + fl
    rel = list(rel) + ["name:type-object"]
    keep = [f for f in feats if f in rel]
    return "%s|%s%s%s" % (reader, clause, ("|" + ",".join(keep)) if keep else "", ("|" + extra) if extra else "")


def _requirement(msg):
    m = re.search(r"(:[a-z-]+)", msg or "")
    return m.group(1) if m else "?"


def run_judges(ctx, rt, bis, index, tag=""):
    """returns (fails, tallies, valid, unspec): fails = [(cid, pi, clause, detail)]"""
    fails, tallies, valid, unspec = [], {}, set(), 0
    d = ctx.sub("roundtrip" + tag)
    path = os.path.join(d, "batch.ndjson")
    tlc.write_ndjson(path, rt)
    res = tlc.run_tlc("PddlRoundTrip", CFG, d, env={"BATCH": path}, workers=8, timeout=3000, heap="12g")
    if res.error or res.violated:
        raise MachineryError("PddlRoundTrip failed: %s %s" % (res.violated, (res.error or "")[-3000:]))
    expect = sum(1 + len(r["plans"]) for r in rt)
    if res.distinct != expect:
        raise MachineryError("PddlRoundTrip consumed %d of %d (record, plan) pairs" % (res.distinct, expect))
    ctx.add_tlc("PddlRoundTrip", res)
    for p in res.printed:
        if not p:
            continue
        if p[0] == "FAIL":
            fails.append((p[1], p[2], p[3], p[4]))
        elif p[0] == "T":
            tallies[p[2]] = tallies.get(p[2], 0) + 1
        elif p[0] == "V":
            valid.add((p[1], p[2]))
        elif p[0] == "U":
            unspec += 1
    nb = 0
    for depth in sorted(bis):
        batch = bis[depth]
        d = ctx.sub("bisim%s-%d" % (tag, depth))
        path = os.path.join(d, "batch.ndjson")
        tlc.write_ndjson(path, batch)
        res = tlc.run_tlc("Bisim", CFG_BISIM, d, env={"BATCH": path}, workers=8, timeout=3000, heap="12g")
        if res.error or res.violated:
            raise MachineryError("Bisim failed: %s %s" % (res.violated, (res.error or "")[-3000:]))
        m = re.search(r"Finished computing initial states: (\d+) distinct state", res.stdout)
        if not m or int(m.group(1)) != len(batch):
            raise MachineryError("Bisim started from %s of %d pairs" % (m.group(1) if m else "?", len(batch)))
        ctx.add_tlc("Bisim-depth-%d" % depth, res)
        nb += len(batch)
        seen = set()
        for p in res.printed:
            if p and p[0] == "FAIL":
                k = (p[1], p[2])
                if k not in seen:
                    seen.add(k)
                    fails.append((p[1], -1, p[2], p[3]))
    return fails, tallies, valid, unspec, nb


def judge_records(ctx, recs, D, skipped=None, tag=""):
    """TLC judges the recorded round trips; every FAIL becomes a violation with its signature"""
    rt, bis, index = build_batches(recs, D)
    if not rt:
        raise MachineryError("no problem could be built: %r" % (skipped,))
    fails, tallies, valid, unspec, nb = run_judges(ctx, rt, bis, index, tag)
    for (cid, pi, clause, detail) in fails:
        rec, R = index[cid]
        feats = features(rec["P"], rec["W"])
        reader = R["reader"] if R is not None else "writer"
        extra = ""
        if clause == "ai-reader-missing-requirement":
            extra = _requirement(R["rmsg"])
        sig = signature(reader, clause, feats, extra)
        data = {"clause": clause, "detail": detail, "slice": rec["slice"], "features": feats, "problem": rec["P"], "job": rec.get("job"),
                "domain_pddl": rec["W"]["dom"], "problem_pddl": rec["W"]["prob"], "writer_exception": [rec["W"]["wexc"], rec["W"]["wmsg"]]}
        if R is not None:
            data.update(reader=R["reader"], reader_exception=[R["rexc"], R["rmsg"], R.get("rwhere", "")], reread=R["B"],
                        unknown_names=R["miss"])
            if pi > 0:
                data["plan"] = R["plans"][pi - 1]
        ctx.violation(sig, "C18 %s: %s %s" % (reader, clause, detail), data)
    return rt, index, tallies, valid, unspec, nb


def _preimport():
    """import what the workers use before forking (every problem gets a fresh process)"""
    import unified_planning.io  # noqa: F401
    import unified_planning.engines.sequential_simulator  # noqa: F401
    import unified_planning.engines.plan_validator  # noqa: F401
    import unified_planning.interop.from_pddl  # noqa: F401


def run(ctx):
    q = ctx.quick
    _preimport()
    counts = dict(num=18, ai=20, bnd=8, tmp=16) if q else dict(num=240, ai=240, bnd=60, tmp=180)
    D = 3 if q else 4
    L = 3 if q else 5
    k = 4 if q else 6
    corpus = make_corpus(ctx.rng, counts)
    jobs = [(i + 1, sl, P, L, k, ctx.seed * 7919 + i) for i, (sl, P) in enumerate(corpus)]
    # one fresh process per problem: PDDLWriter mutates a module-level keyword set (see notes/C18.md), so the
    # renaming of one problem would otherwise depend on which problems the same process wrote before
    with Pool(NPROC, maxtasksperchild=1) as pool:
        recs = pool.map(worker, jobs, chunksize=1)
    skipped = {}
    for r in recs:
        if r["skip"]:
            skipped[r["skip"]] = skipped.get(r["skip"], 0) + 1
            if r["skip"].startswith("HARNESS"):
                raise MachineryError("driver error: %s" % r.get("detail"))
    rt, index, tallies, valid, unspec, nb = judge_records(ctx, recs, D, skipped)
    nplans = sum(len(r["plans"]) for r in rt)
    ctx.cov["unspecified"] += unspec
    ctx.cov["evaluations"] = len(rt) + nplans
    ctx.cov["traces_validated_against_impl"] = sum(1 for r in rt if r["hasB"]) + nplans
    ctx.cov["distinct_nontrivial"] = nb + len(valid)
    ctx.cov["problems"] = {sl: sum(1 for s, _ in corpus if s == sl) for sl in ("num", "ai", "bnd", "tmp")}
    ctx.cov["problems_skipped"] = skipped
    ctx.cov["reread_ok"] = {rd: sum(1 for r in rt if r["hasB"] and r["reader"] == rd) for rd in ("up", "ai")}
    ctx.cov["bisimulated_pairs"] = nb
    ctx.cov["plans_round_tripped"] = nplans
    ctx.cov["plans_valid_confirmed_by_tlc"] = len(valid)
    ctx.cov["tallies_outside_fragment"] = tallies
    exc = {}
    for r_ in recs:
        for R in r_["reads"] or []:
            if R["rexc"] != "none":
                kx = "%s:%s:%s" % (R["reader"], R["rexc"], _stage(R))
                exc[kx] = exc.get(kx, 0) + 1
    ctx.cov["reader_exceptions"] = exc
    ctx.cov["rule"] = (
        "G2 problems in the PDDL fragment (numeric slice with adversarial identifiers, a slice readable by the third-party "
        "grammar, a bounded-numeric slice, a temporal slice) written by PDDLWriter and read back by both readers; one "
        "evaluation = one (problem, reader) record or one plan round trip judged by TLC (PddlRoundTrip); re-read problems "
        "are compared with the original by Bisim on every state reachable within depth %d; non-trivial = bisimulated pairs "
        "+ plans TLC confirmed valid." % D
    )
    ex = next((r for r in rt if r["hasB"] and r["plans"]), rt[0])
    ctx.sample({"problem": ex["A"], "reader": ex["reader"], "reread": ex["B"] if ex["hasB"] else None, "plans": ex["plans"][:2]})
    ctx.assumptions += [
        "TLC, the Json reader, harness/upj.py (projection / construction, structure only) and the pure renaming in the driver are trusted",
        "the PDDL text is not modelled: only behavioural equivalence of the re-read problem is decided",
        "writer rejections (documented exception classes) and failures inside the third-party grammar are outside the fragment: tallied, not judged",
        "temporal sub-corpus: durations / conditions / effects are compared by value on sample states (initial state + states of the seeded plans' runs)",
    ]


# ----------------------------------------------------------------------------------------
# replay / selftest
# ----------------------------------------------------------------------------------------
def replay(ctx, data):
    """re-run the round trip of a replay file against the current tree; 1 if its signature shows again"""
    job = data["data"].get("job")
    if not job:
        raise MachineryError("replay file without a job")
    _preimport()
    with Pool(1, maxtasksperchild=1) as pool:
        recs = pool.map(worker, [tuple(job)])
    if recs[0]["skip"]:
        raise MachineryError("replay: %s %s" % (recs[0]["skip"], recs[0].get("detail")))
    judge_records(ctx, recs, 3 if ctx.quick else 4)
    sigs = sorted({v.sig for v in ctx.violations})
    for sg in sigs:
        print("replay: %s" % sg)
    again = data["signature"] in sigs
    print("replay: signature %s %s" % (data["signature"], "reproduced" if again else "NOT reproduced"))
    return 1 if again else 0


def _first(recs, pred):
    for rec in recs:
        if rec["skip"] or rec["W"]["wexc"] != "none":
            continue
        for R in rec["reads"]:
            if R["B"] is not None and pred(rec, R):
                return rec, R
    raise MachineryError("selftest: no suitable clean record")


def selftest(ctx):
    """vacuity: corrupting ONE recorded field of a clean round trip makes the judges reject it with the
    expected clause (one corruption per clause family); the uncorrupted records are accepted"""
    _preimport()
    rng = random.Random(12345)
    corpus = make_corpus(rng, dict(num=10, ai=0, bnd=0, tmp=24))
    jobs = [(i + 1, sl, P, 3, 4, 777 + i) for i, (sl, P) in enumerate(corpus)]
    with Pool(NPROC, maxtasksperchild=1) as pool:
        recs = pool.map(worker, jobs, chunksize=1)
    clean = [r for r in recs if not r["skip"] and r["W"]["wexc"] == "none"
             and all(R["rexc"] == "none" for R in r["reads"] if R["reader"] == "up")]
    for r in clean:
        r["reads"] = [R for R in r["reads"] if R["reader"] == "up"]
    judge_records(ctx, clean, 2, tag="-clean")
    if ctx.violations:
        raise MachineryError("selftest: clean records rejected: %r" % sorted({v.sig for v in ctx.violations}))
    cases = []

    def case(name, expect, rec, R, edit):
        rec2 = copy.deepcopy(rec)
        R2 = copy.deepcopy(R)
        rec2["reads"] = [R2]
        rec2["cid"] = len(cases) + 1
        rec2["job"] = [rec2["cid"]] + list(rec2["job"][1:])
        edit(rec2, R2)
        cases.append((name, expect, rec2))

    neg = lambda e: upj.E("not", [e])
    # classical: a precondition of the re-read problem negated
    rec, R = _first(clean, lambda rec, R: rec["slice"] == "num" and any(a["pre"] for a in R["B"]["actions"]) and rec["safe"] >= 2)

    def e1(rec2, R2):
        a = next(a for a in R2["B"]["actions"] if a["pre"])
        a["pre"][0] = neg(a["pre"][0])
    case("negated-precondition", "applicability-", rec, R, e1)
    # an initial value flipped
    rec, R = _first(clean, lambda rec, R: rec["slice"] == "num" and any(i["v"]["k"] == "b" for i in R["B"]["init"]))

    def e2(rec2, R2):
        i = next(i for i in R2["B"]["init"] if i["v"]["k"] == "b")
        i["v"] = upj.BV(not i["v"]["b"])
    case("flipped-initial-value", "initial-state-differs", rec, R, e2)
    # an object lost
    case("lost-object", "ground-fluents-differ|objects-differ", rec, R, lambda rec2, R2: R2["B"]["objects"].pop())
    # plans
    rec, R = _first(clean, lambda rec, R: rec["slice"] == "num" and any(len(p["steps"]) >= 2 and p["back"] == p["steps"] for p in R["plans"]))

    def e4(rec2, R2):
        p = next(p for p in R2["plans"] if len(p["steps"]) >= 2)
        p["back"] = list(reversed(p["back"])) if p["back"][0] != p["back"][-1] else p["back"][:-1]
    case("reordered-parsed-plan", "parsed-plan-differs", rec, R, e4)

    def e5(rec2, R2):
        R2["plans"][0]["bexc"] = "KeyError"
    case("plan-parse-exception", "plan-parse-raises-KeyError", rec, R, e5)

    def e6(rec2, R2):
        R2["rexc"], R2["B"] = "ParseException", None
    case("up-reader-exception", "up-reader-raises-ParseException", rec, R, e6)
    # temporal
    isdur = lambda a: a["kind"] == "dur"
    rec, R = _first(clean, lambda rec, R: rec["slice"] == "tmp" and any(isdur(a) for a in R["B"]["actions"]))

    def t1(rec2, R2):
        a = next(a for a in R2["B"]["actions"] if isdur(a))
        a["dur"]["lo"] = upj.E("plus", [a["dur"]["lo"], upj.E("const", v=upj.NV(1))])
    case("duration-lower-bound", "duration-lower-differs", rec, R, t1)

    def t2(rec2, R2):
        a = next(a for a in R2["B"]["actions"] if isdur(a))
        a["dur"]["ropen"] = not a["dur"]["ropen"]
    case("duration-openness", "duration-openness-differs", rec, R, t2)
    rec, R = _first(clean, lambda rec, R: rec["slice"] == "tmp" and any(isdur(a) and a["effects"] for a in R["B"]["actions"]))

    def t3(rec2, R2):
        a = next(a for a in R2["B"]["actions"] if isdur(a) and a["effects"])
        for te in a["effects"]:
            te["t"]["from"] = "end" if te["t"]["from"] == "start" else "start"
    case("effect-timing-swapped", "effects-at-", rec, R, t3)
    rec, R = _first(clean, lambda rec, R: rec["slice"] == "tmp" and any(isdur(a) and a["conds"] for a in R["B"]["actions"]))

    def t4(rec2, R2):
        a = next(a for a in R2["B"]["actions"] if isdur(a) and a["conds"])
        for c in a["conds"]:
            c["c"] = neg(c["c"])
    case("condition-negated", "condition-", rec, R, t4)
    rec, R = _first(clean, lambda rec, R: rec["slice"] == "tmp" and R["B"]["timed_effects"])

    def t5(rec2, R2):
        R2["B"]["timed_effects"][0]["t"]["delay"] = upj.NV(Fraction(7, 4))
    case("til-instant-moved", "timed-initial-literals-differ", rec, R, t5)
    rec, R = _first(clean, lambda rec, R: rec["slice"] == "tmp" and any(p["kind"] == "tt" and p["steps"] for p in R["plans"]))

    def t6(rec2, R2):
        p = next(p for p in R2["plans"] if p["steps"])
        p["back"][0]["t"] = upj.NV(Fraction(p["back"][0]["t"]["n"], p["back"][0]["t"]["d"]) + Fraction(1, 8))
    case("tt-plan-start-time", "parsed-plan-differs", rec, R, t6)
    ok = True
    c2 = type(ctx)(ctx.pid, ctx.tier, ctx.seed)
    c2.work = ctx.sub("cases")
    judge_records(c2, [rec2 for _, _, rec2 in cases], 2, tag="-cases")
    ctx.cov["tlc_runs"] += c2.cov["tlc_runs"]
    for name, expect, rec2 in cases:
        clauses = sorted({v.data["clause"] for v in c2.violations if v.data["job"][0] == rec2["cid"]})
        hit = any(cl.startswith(e) for cl in clauses for e in expect.split("|"))
        print("selftest %-26s expected %-34s got %s" % (name, expect, clauses))
        ok = ok and hit
    print("selftest: %d clean records accepted, %d corruptions, %s" % (len(clean), len(cases), "all rejected" if ok else "SOME ACCEPTED"))
    return 0 if ok else 2
