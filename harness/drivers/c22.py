"""C22 -- problem cloning yields an equal, independent copy that accepts the same edits.

T1  spec/MCModelClone.tla: the implementation-shaped layer of spec/ModelClone.tla (content + the
    conflict bookkeeping, clone() copying a given set of fields) against the declarative layer, for
    every history `<= MaxPre edits, Clone, <= MaxPost edits to both / original / clone`.  The
    repaired clone() (all fields copied) must satisfy every invariant; each field that the real
    clone() of a class does not copy must show as a counterexample (reported, known finding).
T2  TLC (ModelCloneEnum) emits edit histories (pre-edits, Clone, post-edits with targets); each is
    replayed through the public API on real Problem / ContingentProblem / HierarchicalProblem /
    MultiAgentProblem bases; after every call the accept/reject outcome on each problem,
    `orig == clone` (both directions), hash and kind equality, an abstract projection of both
    problems over the edit universe and a digest of a full projection are recorded.
T3  ModelCloneTrace judges every recorded history (TLC-enumerated ones and seeded random longer ones
    on generated problems) step by step with the Spec layer's SpecAcc / SpecStep / SpecClone / AbsEq.
Python builds, calls and projects; every verdict is a TLA+ definition evaluated by TLC.
"""
import hashlib
import json
import os
from multiprocessing import get_context

from .. import tlc
from ..common import MachineryError, time_limit, ImplTimeout

PFX = "zz_"
CLASSES = ("plain", "cont", "htn", "ma")
ALL_FIELDS = ["fl", "idef", "objs", "acts", "aeffs", "goals", "teffs", "tgoals", "traj", "mets", "init", "tm",
              "tasg", "tinc", "aasg", "ainc", "mdef"]
LIMIT = 20  # seconds per library call (retried once with a longer limit)


# ----------------------------------------------------------------------------------------
# binding of the edit universe of spec/ModelClone.tla to real unified-planning objects
# ----------------------------------------------------------------------------------------
class U:
    """The named items of the specification's universe as real objects (global Environment)."""

    def __init__(self):
        from unified_planning.shortcuts import (
            BoolType, IntType, UserType, Fluent, GlobalStartTiming, GlobalEndTiming, StartTiming, EndTiming,
            ClosedTimeInterval, TimePointInterval, FluentExp, GT, Int, TRUE, Always, Sometime,
        )
        import unified_planning as up

        self.up = up
        self.Bool, self.Int = BoolType(), IntType()
        self.T = UserType(PFX + "T")
        self.fx = Fluent(PFX + "x", IntType())
        self.fb = Fluent(PFX + "b", BoolType())
        self.fn = Fluent(PFX + "n", BoolType())
        self.fl = {"x": self.fx, "b": self.fb, "n": self.fn}
        self.x, self.b = FluentExp(self.fx), FluentExp(self.fb)
        self.xpos = GT(self.x, Int(0))
        self.timing = {"t1": GlobalStartTiming(5), "t2": GlobalStartTiming(10), "s": StartTiming(), "e": EndTiming()}
        self.iv = {
            "p5": TimePointInterval(GlobalStartTiming(5)),
            "c510": ClosedTimeInterval(GlobalStartTiming(5), GlobalStartTiming(10)),
            "bad": TimePointInterval(GlobalEndTiming() - 1),
        }
        self.goal = {"g1": self.b, "g2": self.xpos, "gtrue": TRUE()}
        self.traj = {"tr1": Always(self.b), "tr2": Sometime(self.xpos), "bad": self.b}
        self.rgoal = {v: k for k, v in self.goal.items()}
        self.rtraj = {v: k for k, v in self.traj.items()}
        self.rtiming = {v: k for k, v in self.timing.items()}
        self.riv = {v: k for k, v in self.iv.items()}
        self.Int_ = Int
        # every constant node the edits use exists before the worker processes are forked, so that the
        # hashes of the universe's actions (sums of node ids) do not depend on the scheduling of the pool
        from unified_planning.shortcuts import FALSE

        self.consts = [Int(i) for i in range(0, 11)] + [TRUE(), FALSE()]

    def value(self, f, k, v):
        if k != "asg":
            return self.Int_(v)
        if f == "b":
            return v == 1
        return self.Int_(v)

    def cond(self, f, c):
        if not c:
            return True
        return self.b if f == "x" else self.xpos


_U = None


def universe():
    global _U
    if _U is None:
        _U = U()
    return _U


def fluent_home(cls, p):
    return p.ma_environment if cls == "ma" else p


def action_home(cls, p):
    return p.agent(PFX + "ag") if cls == "ma" else p


def scaffold(cls, p):
    """the always-declared part of the universe: fluents zz_x, zz_b (and the agent zz_ag)"""
    u = universe()
    h = fluent_home(cls, p)
    if cls == "ma":
        from unified_planning.model.multi_agent import Agent

        h.add_fluent(u.fx, default_initial_value=0)
        p.add_agent(Agent(PFX + "ag", p))
    else:
        h.add_fluent(u.fx)
    h.add_fluent(u.fb, default_initial_value=False)


def apply_edit(cls, p, e):
    """one model-building call of the universe on problem p (public API only)"""
    u = universe()
    up = u.up
    op = e["op"]
    if op == "fluent":
        f = up.model.Fluent(PFX + e["a"], u.Bool)
        if e["k"] == "none":
            fluent_home(cls, p).add_fluent(f)
        else:
            fluent_home(cls, p).add_fluent(f, default_initial_value=(e["k"] == "t"))
    elif op == "object":
        p.add_object(up.model.Object(PFX + e["a"], u.T))
    elif op == "action":
        if e["a"] == "a":
            a = up.model.InstantaneousAction(PFX + "a")
            a.add_precondition(u.b)
        else:
            a = up.model.DurativeAction(PFX + "d")
            a.set_fixed_duration(3)
            a.add_condition(u.timing["s"], u.b)
        action_home(cls, p).add_action(a)
    elif op == "goal":
        p.add_goal(u.goal[e["a"]])
    elif op == "teff":
        add_effect(p, (u.timing[e["t"]],), e)
    elif op == "tgoal":
        p.add_timed_goal(u.iv[e["t"]], u.goal[e["a"]])
    elif op == "traj":
        p.add_trajectory_constraint(u.traj[e["a"]])
    elif op == "metric":
        if e["a"] == "minx":
            m = up.model.metrics.MinimizeExpressionOnFinalState(u.x)
        elif e["a"] == "maxx":
            m = up.model.metrics.MaximizeExpressionOnFinalState(u.x)
        else:
            m = up.model.metrics.MinimizeActionCosts({p.action(PFX + "a"): u.Int_(1)}, default=u.Int_(2))
        p.add_quality_metric(m)
    elif op == "init":
        f = u.fl[e["f"]]
        p.set_initial_value(f, (e["v"] == 1) if e["f"] in ("b", "n") else e["v"])
    elif op == "acteff":
        act = action_home(cls, p).action(PFX + e["a"])
        add_effect(act, () if e["a"] == "a" else (u.timing[e["t"]],), e)
    else:
        raise MachineryError("unknown edit %r" % (e,))


def add_effect(target, targs, e):
    u = universe()
    f = u.fl[e["f"]]
    val, cond = u.value(e["f"], e["k"], e["v"]), u.cond(e["f"], e["c"])
    if e["k"] == "asg":
        meth = getattr(target, "add_timed_effect", None) or target.add_effect
    elif e["k"] == "inc":
        meth = target.add_increase_effect
    else:
        meth = target.add_decrease_effect
    meth(*targs, f, val, cond)


def guarded(fn):
    """"ok" or the exception class of a model-building call (not retried: it mutates the problem)"""
    try:
        with time_limit(LIMIT * 6):
            fn()
        return "ok"
    except ImplTimeout:
        return "TIMEOUT"
    except MachineryError:
        raise
    except Exception as ex:
        return type(ex).__name__


def observe(fn):
    """"T" / "F" for a Boolean observation, "X:<class>" when the call raises"""
    for lim in (LIMIT, LIMIT * 15):
        try:
            with time_limit(lim):
                return "T" if fn() else "F"
        except ImplTimeout:
            continue
        except Exception as ex:
            return "X:" + type(ex).__name__
    return "X:TIMEOUT"


# ----------------------------------------------------------------------------------------
# projections
# ----------------------------------------------------------------------------------------
def _effrec(u, eff, t):
    f = eff.fluent.fluent().name
    if not f.startswith(PFX) or f[len(PFX):] not in u.fl:
        return None
    f = f[len(PFX):]
    k = "asg" if eff.is_assignment() else "inc" if eff.is_increase() else "dec" if eff.is_decrease() else "?"
    v = eff.value
    if v.is_bool_constant():
        vv = 1 if v.bool_constant_value() else 2
    elif v.is_int_constant():
        vv = v.int_constant_value()
    else:
        vv = -1
    return {"t": t, "f": f, "k": k, "v": vv, "c": not eff.condition.is_true()}


def _bool_default(v):
    if v is None:
        return "none"
    return "t" if v.bool_constant_value() else "f"


def abs_of(cls, p):
    """the problem projected on the universe of spec/ModelClone.tla (public API only)"""
    u = universe()
    h = fluent_home(cls, p)
    A = {"fl": [], "objs": [], "acts": [], "aeffs": [], "goals": [], "teffs": [], "tgoals": [], "traj": [], "mets": [], "init": []}
    A["idef"] = _bool_default(h.initial_defaults.get(u.Bool))
    for f in h.fluents:
        if f.name == PFX + "n":
            A["fl"].append({"n": "n", "d": _bool_default(h.fluents_defaults.get(f))})
    for ob in p.all_objects:
        if ob.name.startswith(PFX):
            A["objs"].append(ob.name[len(PFX):])
    ah = action_home(cls, p)
    for a in ah.actions:
        if not a.name.startswith(PFX):
            continue
        an = a.name[len(PFX):]
        A["acts"].append(an)
        if isinstance(a, u.up.model.DurativeAction):
            items = [(u.rtiming.get(t, "?"), e) for t, el in a.effects.items() for e in el]
        else:
            items = [("na", e) for e in a.effects]
        for t, e in items:
            r = _effrec(u, e, t)
            if r is None:
                raise MachineryError("effect outside the universe on %s" % a.name)
            r["a"] = an
            A["aeffs"].append(r)
    for g in p.goals:
        if g in u.rgoal:
            A["goals"].append(u.rgoal[g])
    A["tm"] = False
    if cls != "ma":
        for t, el in p.timed_effects.items():
            for e in el:
                r = _effrec(u, e, u.rtiming.get(t, "?"))
                if r is not None:
                    A["teffs"].append(r)
        for iv, gl in p.timed_goals.items():
            for g in gl:
                if g in u.rgoal and iv in u.riv:
                    A["tgoals"].append({"t": u.riv[iv], "g": u.rgoal[g]})
        for tc in p.trajectory_constraints:
            if tc in u.rtraj:
                A["traj"].append(u.rtraj[tc])
        for m in p.quality_metrics:
            if m.is_minimize_expression_on_final_state() and m.expression == u.x:
                A["mets"].append("minx")
            elif m.is_maximize_expression_on_final_state() and m.expression == u.x:
                A["mets"].append("maxx")
            elif m.is_minimize_action_costs() and any(a.name == PFX + "a" for a in m.costs):
                A["mets"].append("cost" if m.default is not None else "cost_nd")
        A["tm"] = bool(p.discrete_time)
    for fe, v in p.explicit_initial_values.items():
        n = fe.fluent().name if fe.is_fluent_exp() else ""
        if n.startswith(PFX) and n[len(PFX):] in u.fl:
            n = n[len(PFX):]
            if v.is_bool_constant():
                vv = 1 if v.bool_constant_value() else 2
            elif v.is_int_constant():
                vv = v.int_constant_value()
            else:
                vv = -1
            A["init"].append({"f": n, "v": vv})
    return A


def digest(cls, p):
    """digest of a full structural projection: UPJ for plain problems, repr() for all classes"""
    from .. import upj

    parts = []
    if cls == "plain":
        try:
            with time_limit(LIMIT * 15):
                parts.append(json.dumps(upj.project(p), sort_keys=True, default=str))
        except ImplTimeout:
            parts.append("upj:TIMEOUT")
        except Exception as ex:
            parts.append("upj:" + type(ex).__name__)
    try:
        with time_limit(LIMIT * 15):
            parts.append(repr(p))
            if cls != "ma":
                # what each action-cost metric says about the problem's own actions
                for m in p.quality_metrics:
                    if m.is_minimize_action_costs():
                        parts.append(";".join("%s=%s" % (a.name, m.get_action_cost(a)) for a in p.actions))
    except ImplTimeout:
        parts.append("repr:TIMEOUT")
    except Exception as ex:
        parts.append("repr:" + type(ex).__name__)
    return hashlib.sha1("\n".join(parts).encode()).hexdigest()[:12]


# ----------------------------------------------------------------------------------------
# bases
# ----------------------------------------------------------------------------------------
def base_problem(spec):
    """spec = {"cls", "var": 1|2, "kind": "empty"|"hand"|"gen", "P": UPJ (gen)}; returns the scaffolded base"""
    u = universe()
    from unified_planning.shortcuts import (
        Problem, BoolType, IntType, UserType, Fluent, Object, InstantaneousAction, DurativeAction, Int, GT, Not,
        GlobalStartTiming, StartTiming, EndTiming, MinimizeActionCosts, Dot,
    )

    cls, var, kind = spec["cls"], spec["var"], spec["kind"]
    idef = {BoolType(): False} if var == 2 else {}
    if cls == "plain":
        if kind == "gen":
            from .. import upj

            p = upj.build(spec["P"], name="g")
        else:
            p = Problem("p", initial_defaults=idef)
    elif cls == "cont":
        from unified_planning.model.contingent import ContingentProblem

        p = ContingentProblem("p", initial_defaults=idef)
    elif cls == "htn":
        from unified_planning.model.htn import HierarchicalProblem

        p = HierarchicalProblem("p", initial_defaults=idef)
    else:
        from unified_planning.model.multi_agent import MultiAgentProblem

        p = MultiAgentProblem("p", initial_defaults=idef)
    scaffold(cls, p)
    if kind == "hand":
        L = UserType("Loc")
        l1, l2 = Object("l1", L), Object("l2", L)
        at = Fluent("at", BoolType(), l=L)
        cnt = Fluent("cnt", IntType(0, 10))
        mv = InstantaneousAction("mv", src=L, dst=L)
        mv.add_precondition(at(mv.src))
        mv.add_effect(at(mv.src), False)
        mv.add_effect(at(mv.dst), True)
        mv.add_increase_effect(cnt, 1)
        if cls == "ma":
            from unified_planning.model.multi_agent import Agent

            p.add_objects([l1, l2])
            p.ma_environment.add_fluent(cnt, default_initial_value=0)
            r1 = Agent("r1", p)
            r1.add_public_fluent(at, default_initial_value=False)
            r1.add_private_fluent(Fluent("busy", BoolType()), default_initial_value=False)
            r1.add_action(mv)
            r1.add_public_goal(at(l2))
            p.add_agent(r1)
            p.set_initial_value(Dot(r1, at(l1)), True)
            p.add_goal(Dot(r1, at(l2)))
        else:
            p.add_objects([l1, l2])
            p.add_fluent(at, default_initial_value=False)
            p.add_fluent(cnt, default_initial_value=0)
            p.set_initial_value(at(l1), True)
            p.add_action(mv)
            p.add_goal(at(l2))
            if cls == "plain":
                w = DurativeAction("wait")
                w.set_closed_duration_interval(1, 2)
                w.add_condition(StartTiming(), Not(at(l2)))
                w.add_effect(EndTiming(), cnt, 0)
                p.add_action(w)
                p.add_timed_effect(GlobalStartTiming(7), at(l1), False)
                p.add_increase_effect(GlobalStartTiming(8), cnt, 2)
                p.add_timed_goal(GlobalStartTiming(9), at(l2))
                p.add_quality_metric(MinimizeActionCosts({mv: Int(3)}, default=Int(1)))
                p.add_state_invariant(GT(cnt + 1, 0))
                p.epsilon = "1/10"
            elif cls == "cont":
                from unified_planning.model.contingent import SensingAction

                hid = Fluent("hid", BoolType(), l=L)
                p.add_fluent(hid, default_initial_value=False)
                p.add_oneof_initial_constraint([hid(l1), hid(l2)])
                p.add_unknown_initial_constraint(at(l2))
                sense = SensingAction("sense", l=L)
                sense.add_observed_fluent(hid(sense.l))
                p.add_action(sense)
            elif cls == "htn":
                from unified_planning.model.htn import Method

                go = p.add_task("go", dst=L)
                m = Method("m_go", src=L, dst=L)
                m.set_task(go, m.dst)
                m.add_precondition(at(m.src))
                m.add_subtask(mv, m.src, m.dst)
                p.add_method(m)
                noop = Method("m_noop", dst=L)
                noop.set_task(go, noop.dst)
                noop.add_precondition(at(noop.dst))
                p.add_method(noop)
                p.task_network.add_subtask(go, l2)
    if var == 2 and cls != "ma":
        p.discrete_time = True
    if spec.get("rich"):
        # universe items already present in the base: both actions, an object, a goal
        for e in RICH:
            if e["op"] == "action" and cls == "ma" and e["a"] == "d":
                continue
            apply_edit(cls, p, e)
    return p


# ----------------------------------------------------------------------------------------
# replay of one history
# ----------------------------------------------------------------------------------------
NOEDIT = {"op": "", "a": "", "t": "", "f": "", "k": "", "v": 0, "c": False}
RICH = [dict(NOEDIT, op="action", a="a"), dict(NOEDIT, op="action", a="d"), dict(NOEDIT, op="object", a="o1"), dict(NOEDIT, op="goal", a="g1")]
EMPTY_ABS = {"fl": [], "idef": "none", "objs": [], "acts": [], "aeffs": [], "goals": [], "teffs": [], "tgoals": [], "traj": [],
             "mets": [], "init": [], "tm": False}


def replay_job(job):
    """job = {"id", "base": spec, "pre": [edit], "post": [{"e": edit, "tgt"}]} -> trace record"""
    cls = job["base"]["cls"]
    out = {"id": job["id"], "cls": cls, "ops": [], "skip": ""}
    try:
        with time_limit(LIMIT * 15):
            orig = base_problem(job["base"])
            out["base"] = abs_of(cls, orig)
            out["bdo"] = digest(cls, orig)
    except (ImplTimeout, Exception) as ex:  # a base that cannot be built is not an observation
        if isinstance(ex, MachineryError):
            raise
        out["skip"] = "base:" + type(ex).__name__ + ":" + str(ex)[:200]
        return out
    clone = None
    insync = False
    steps = [("pre", e) for e in job["pre"]] + [("clone", NOEDIT)] + [(s["tgt"], s["e"]) for s in job["post"]]
    for tgt, e in steps:
        rec = {"tgt": tgt, "e": e, "ro": "-", "rc": "-"}
        if tgt == "clone":
            box = []
            rec["rc"] = guarded(lambda: box.append(orig.clone()))
            if rec["rc"] != "ok":
                rec.update(eq="-", eqr="-", heq="-", keq="-", ao=abs_of(cls, orig), do=digest(cls, orig), dc="")
                rec["ac"] = rec["ao"]
                out["ops"].append(rec)
                break
            clone = box[0]
        else:
            if tgt in ("pre", "both", "o"):
                rec["ro"] = guarded(lambda: apply_edit(cls, orig, e))
            if tgt in ("both", "c"):
                rec["rc"] = guarded(lambda: apply_edit(cls, clone, e))
        with time_limit(LIMIT * 15):
            rec["ao"] = abs_of(cls, orig)
            rec["ac"] = abs_of(cls, clone) if clone is not None else EMPTY_ABS
        rec["do"] = digest(cls, orig)
        rec["dc"] = digest(cls, clone) if clone is not None else ""
        # `==`, kind and hash are observed where the judge reads them: right after clone() and while every
        # call since was made on both problems with the same outcome (the reverse comparison right after
        # clone(), and throughout for multi-agent problems, whose __eq__ is written asymmetrically)
        if tgt == "clone":
            insync = True
        elif clone is not None:
            insync = insync and tgt == "both" and (rec["ro"] == "ok") == (rec["rc"] == "ok")
        if clone is None or not insync:
            rec.update(eq="-", eqr="-", heq="-", keq="-")
        else:
            rec["keq"] = observe(lambda: orig.kind == clone.kind)
            rec["eq"] = observe(lambda: orig == clone)
            rec["eqr"] = observe(lambda: clone == orig) if (tgt == "clone" or cls == "ma") else "-"
            rec["heq"] = observe(lambda: hash(orig) == hash(clone))
        out["ops"].append(rec)
    return out


# ----------------------------------------------------------------------------------------
# judging
# ----------------------------------------------------------------------------------------
TRACE_CFG = """SPECIFICATION TraceSpec
CONSTANTS TimN = {"t1", "t2"}
 DurT = {"s", "e"}
INVARIANT Verdict
"""


def edit_kind(e):
    """feature of an edit used in signatures"""
    if e["op"] in ("teff", "acteff"):
        return "%s.%s%s" % (e["op"], e["k"], ".cond" if e["c"] else "")
    return e["op"]


def history_features(t, step):
    """input features named by known findings (computed from the recorded calls, no verdict)"""
    feats = []
    # a MinimizeActionCosts metric on zz_a was added to the original and zz_a got an effect afterwards, before the clone
    cost_at = None
    for o in t["ops"][:step]:
        if o["tgt"] == "clone":
            break
        if o["ro"] == "ok" and o["e"]["op"] == "metric" and o["e"]["a"] == "cost" and cost_at is None:
            cost_at = True
        elif o["ro"] == "ok" and o["e"]["op"] == "acteff" and o["e"]["a"] == "a" and cost_at:
            feats.append("cost-metric-then-acteff")
            break
    return feats


def judge(ctx, label, traces):
    """traces -> TLC (ModelCloneTrace) -> violations"""
    d = ctx.sub("judge-" + label)
    path = os.path.join(d, "traces.ndjson")
    tlc.write_ndjson(path, [{k: v for k, v in t.items() if k not in ("skip", "job")} for t in traces])
    res = tlc.run_tlc("ModelCloneTrace", TRACE_CFG, d, env={"TRACES": path}, timeout=3000, workers=max(2, free_cores(8)))
    if res.error or res.violated:
        raise MachineryError("ModelCloneTrace failed: %s %s" % (res.violated, res.error))
    expected = sum(len(t["ops"]) + 1 for t in traces)
    if res.distinct != expected:
        raise MachineryError("trace judge consumed %d states, expected %d" % (res.distinct, expected))
    ctx.add_tlc("trace-" + label, res)
    ctx.cov["traces_validated_against_impl"] += len(traces)
    ctx.cov["evaluations"] += sum(len(t["ops"]) for t in traces)
    byid = {t["id"]: t for t in traces}
    seen = set()
    for p in sorted((q for q in res.printed if q and q[0] in ("FAIL", "U")), key=lambda q: (q[1], q[2], str(q[3:]))):
        if p[0] == "U":
            ctx.cov["unspecified"] += 1
            continue
        _, tid, step, clause, detail = p
        if clause == "schema":
            raise MachineryError("malformed trace %r at call %r: %r" % (tid, step, detail))
        t = byid[tid]
        op = t["ops"][step - 1]
        kind = "clone" if op["tgt"] == "clone" else edit_kind(op["e"])
        # content differences are reported field by field, so that every field has its own signature
        parts = detail if clause in ("clone-abs", "clone-orig", "abs-o", "abs-c", "indep-o", "indep-c") and detail else [",".join(detail)]
        for d in parts:
            # one report per (trace, clause, detail): a deviation that persists is the same deviation
            key = (tid, clause, d)
            if key in seen:
                continue
            seen.add(key)
            feats = history_features(t, step) if clause in ("eq", "eq-rev", "kind", "hash", "proj") else []
            ctx.violation(
                "|".join([clause, t["cls"], kind, d] + feats),
                "C22 %s problem: clause %s fails at call %d (%s on %s): %s" % (t["cls"], clause, step, kind, op["tgt"], d),
                {"clause": clause, "step": step, "detail": detail, "job": t.get("job"), "trace": {k: v for k, v in t.items() if k != "job"}},
            )
    return res


# ----------------------------------------------------------------------------------------
# T1
# ----------------------------------------------------------------------------------------
T1_CFG = """SPECIFICATION Spec
CONSTANTS TimN = {%(tim)s}
 DurT = {%(durt)s}
 MaxPre = %(pre)d
 MaxPost = %(post)d
 MaxTotal = %(total)d
 Small = %(small)s
 Configs = "%(configs)s"
 ClsSet = {"plain", "cont", "htn", "ma"}
 Strict = %(strict)s
INVARIANT I_SpecEqualAfterEqualEdits
INVARIANT I_EqualAfterEqualEdits
INVARIANT I_SameAcceptance
INVARIANT I_AcceptsLikeSpec
INVARIANT I_Refines
INVARIANT I_BookOK
INVARIANT Total
CONSTRAINT Prune
"""
# what the real clone() methods do not copy (spec/MCModelClone.tla UncopiedByCode)
UNCOPIED = {"plain": ["tinc"], "cont": ["traj", "tasg", "tinc", "tm", "mdef"], "htn": ["traj", "tasg", "tinc", "tm", "mdef"], "ma": ["idef"]}


def t1(ctx, label, pre, post, total, small, configs, full_universe=False, strict=False, need=("Pre", "DoClone", "Post")):
    d = ctx.sub("t1-" + label)
    cfg = T1_CFG % dict(
        tim='"t1", "t2"' if full_universe else '"t1"',
        durt='"s", "e"' if full_universe else '"s"',
        pre=pre, post=post, total=total, small="TRUE" if small else "FALSE", configs=configs, strict="TRUE" if strict else "FALSE",
    )
    res = tlc.run_tlc("MCModelClone", cfg, d, timeout=6000, workers=max(2, free_cores(8)), coverage=True)
    if res.error:
        raise MachineryError("T1 %s: %s" % (label, res.error))
    if not res.violated:
        # TLC reports coverage per disjunct of Next (by source line), or under the action's own name when
        # it expands the quantifier of the disjunct
        import re

        with open(os.path.join(tlc.SPEC_DIR, "MCModelClone.tla")) as fh:
            lines = fh.read().split("\n")
        first = next(i for i, ln in enumerate(lines) if ln.startswith("Next ==")) + 1
        names = {first: "Pre", first + 1: "DoClone", first + 2: "Post"}
        taken = {a: res.coverage.get(a, (0, 0))[1] for a in names.values()}
        for m in re.finditer(r"^<Next line \d+, col \d+ to line \d+, col \d+ of module MCModelClone \((\d+) \d+ \d+ \d+\)>: \d+:(\d+)", res.stdout, re.M):
            a = names.get(int(m.group(1)))
            if a:
                taken[a] = max(taken[a], int(m.group(2)))
        idle = [a for a in need if not taken.get(a)]
        if idle:
            raise MachineryError("T1 %s is vacuous: actions never taken: %s (%r)" % (label, idle, taken))
        res.coverage.update({a: (0, n) for a, n in taken.items()})
    cex = {}
    for p in res.printed:
        if p and p[0] == "T1CEX":
            _, cls, miss, inv, wit, depth = p
            k = (cls, miss)
            cex.setdefault(k, {})
            cur = cex[k].get(inv)
            if cur is None or (depth, wit) < (cur["depth"], cur["witness"]):
                cex[k][inv] = {"depth": depth, "witness": wit}
    return res, cex


def run_t1(ctx):
    q = ctx.quick
    out = {}
    # (a) the repaired clone() (every field copied) satisfies all invariants; (b) every field the real
    # clone() of a class does not copy shows as a counterexample of the as-written design
    res, cex = t1(ctx, "code", 2, 1, 2 if q else 3, True, "code")
    ctx.add_tlc("T1 as-written + repaired, pre<=2 post<=1 total<=%d (+1 look-ahead), representative edits" % (2 if q else 3), res)
    if res.violated:
        ctx.violation(
            "T1|repaired|" + res.violated,
            "the Impl layer with every field copied violates %s (design-level counterexample)" % res.violated,
            {"trace": [s["vars"] for s in res.trace]},
        )
    out["uncopied_field_counterexamples"] = {"%s/%s" % k: v for k, v in sorted(cex.items())}
    out["uncopied_fields_without_counterexample"] = sorted("%s/%s" % (c, f) for c in UNCOPIED for f in UNCOPIED[c] if (c, f) not in cex)
    if not q:
        res2, _ = t1(ctx, "full", 1, 2, 2, True, "full")
        ctx.add_tlc("T1 repaired, pre<=1 post<=2 total<=2 (+1 look-ahead)", res2)
        if res2.violated:
            ctx.violation("T1|repaired|" + res2.violated, "the Impl layer with every field copied violates %s" % res2.violated,
                          {"trace": [s["vars"] for s in res2.trace]})
        res3, _ = t1(ctx, "fullu", 1, 1, 2, False, "full", full_universe=True)
        ctx.add_tlc("T1 repaired, full edit universe, pre<=1 post<=1 (+1 look-ahead)", res3)
        if res3.violated:
            ctx.violation("T1|repaired|" + res3.violated, "the Impl layer with every field copied violates %s" % res3.violated,
                          {"trace": [s["vars"] for s in res3.trace]})
        # sensitivity of the invariants: leaving any single field uncopied must be noticed
        # (post-edits are explored for the repaired clone only: this run has none)
        res4, cex4 = t1(ctx, "fields", 2, 1, 2, True, "fields", need=("Pre", "DoClone"))
        ctx.add_tlc("T1 sensitivity: each field uncopied on its own", res4)
        insensitive = sorted(
            "%s/%s" % (c, f) for c in CLASSES for f in ALL_FIELDS
            if (c, f) not in cex4 and not (c == "ma" and f in ("teffs", "tgoals", "traj", "mets", "tm", "tasg", "tinc", "mdef"))
        )
        out["fields_whose_omission_is_not_noticed"] = insensitive
        if insensitive:
            raise MachineryError("T1 invariants do not notice uncopied fields: %s" % insensitive)
    return out


# ----------------------------------------------------------------------------------------
# history generation
# ----------------------------------------------------------------------------------------
ENUM_CFG = 'INIT Init\nNEXT Next\nCONSTANTS TimN = {"t1", "t2"}\n DurT = {"s", "e"}\n Tier = "%s"\n'


def enumerate_histories(ctx):
    """{"std": [...], "ma": [...]} emitted by one TLC run"""
    d = ctx.sub("enum")
    out = {"std": os.path.join(d, "hist_std.ndjson"), "ma": os.path.join(d, "hist_ma.ndjson")}
    res = tlc.run_tlc("ModelCloneEnum", ENUM_CFG % ctx.tier, d, env={"OUT_STD": out["std"], "OUT_MA": out["ma"]}, workers=1, timeout=3000)
    if res.error:
        raise MachineryError(res.error)
    n = [p[1:] for p in res.printed if p and p[0] == "EMITTED"]
    hist = {}
    for i, fam in enumerate(("std", "ma")):
        hist[fam] = tlc.read_ndjson(out[fam])
        if not hist[fam] or not n or n[0][i] != len(hist[fam]):
            raise MachineryError("ModelCloneEnum emitted %r histories, read %d (%s)" % (n, len(hist[fam]), fam))
        hist[fam].sort(key=lambda h: json.dumps(h, sort_keys=True))
    return hist


def same_family(e, f):
    fam = lambda x: "eff" if x["op"] in ("teff", "acteff") else x["op"]
    return fam(e) == fam(f) and (e["a"] == f["a"] or e["op"] != f["op"]) and e["t"] == f["t"]


def random_history(rng, edits):
    """a longer history biased towards one container (so that edits interact)"""
    focus = rng.choice(edits)
    near = [e for e in edits if same_family(e, focus) or (e["op"] == "action" and focus["op"] == "acteff" and e["a"] == focus["a"])]
    pick = lambda: rng.choice(near) if rng.random() < 0.65 else rng.choice(edits)
    pre = [pick() for _ in range(rng.randint(0, 4))]
    post = [{"e": pick(), "tgt": rng.choice(["both", "both", "o", "c"])} for _ in range(rng.randint(1, 6))]
    return pre, post


def free_cores(most):
    try:
        idle = (os.cpu_count() or 1) - os.getloadavg()[0]
    except OSError:
        idle = most
    return max(1, min(most, int(idle)))


def worker(job):
    import warnings

    warnings.simplefilter("ignore")
    r = replay_job(job)
    if "TIMEOUT" in json.dumps(r):
        # a busy machine, or a call that really does not return: the whole history is replayed once more
        # with ten times the limits before a time-out is recorded as an observation
        global LIMIT
        old, LIMIT = LIMIT, LIMIT * 10
        try:
            r = replay_job(job)
        finally:
            LIMIT = old
    r["job"] = job
    return r


def run(ctx):
    from concurrent.futures import ThreadPoolExecutor
    from ..gen import Gen, TGen

    q = ctx.quick
    rng = ctx.rng
    ex = ThreadPoolExecutor(max_workers=1)
    fut = ex.submit(run_t1, ctx)  # T1 runs (TLC subprocesses) while the histories are replayed
    try:
        hist = enumerate_histories(ctx)
        jobs = []

        def needs_action(h):
            """the history edits an action's effects (or uses its cost) without declaring the action first"""
            have = set()
            for e in h["pre"] + [s["e"] for s in h["post"]]:
                if e["op"] == "action":
                    have.add(e["a"])
                elif (e["op"] == "acteff" and e["a"] not in have) or (e["op"] == "metric" and e["a"] == "cost" and "a" not in have):
                    return True
            return False

        def add(cls, h, kind, var, P=None):
            # bases that already hold the universe's actions: always when the history needs one, else one in three
            rich = rng.random() < (0.85 if needs_action(h) else 0.34)
            base = {"cls": cls, "var": var, "kind": kind, "rich": rich}
            if P is not None:
                base["P"] = P
            jobs.append({"id": len(jobs) + 1, "base": base, "pre": h["pre"], "post": h["post"]})

        short = lambda h: len(h["pre"]) <= 1 and len(h["post"]) == 1
        # share of the histories with two post-edits and no pre-edit
        f02 = {"plain": 0.15 if q else 1.0, "cont": 0.05 if q else 0.5, "htn": 0.05 if q else 0.5, "ma": 0.3 if q else 1.0}
        # share of the longer (3-edit) histories replayed per class, and of the 2-edit ones for the subclasses
        f3 = {"plain": 0.02 if q else 0.3, "cont": 0.005 if q else 0.08, "htn": 0.005 if q else 0.08, "ma": 0.05 if q else 0.5}
        f2 = {"plain": 0.3 if q else 1.0, "cont": 0.03 if q else 1.0, "htn": 0.03 if q else 1.0, "ma": 0.3 if q else 1.0}
        for cls in CLASSES:
            for h in hist["ma" if cls == "ma" else "std"]:
                if short(h):
                    # every 2-edit history over the representative edits, a share of the others
                    if not (h["small"] or rng.random() < f2[cls]):
                        continue
                elif rng.random() >= (f02[cls] if not h["pre"] else f3[cls]):
                    continue
                add(cls, h, rng.choice(["empty", "hand"]), rng.choice([1, 2]))
        nenum = len(jobs)
        # T3: seeded longer histories on generated problems (plain) and on the hand-built bases
        edits = {}
        for fam in hist:
            seen = {}
            for h in hist[fam]:
                for e in h["pre"] + [s["e"] for s in h["post"]]:
                    seen[json.dumps(e, sort_keys=True)] = e
            edits[fam] = [seen[k] for k in sorted(seen)]
        nr = 150 if q else 4000
        # (bounded numeric types off: ~10 % of those problems are rejected by the type checker at build time)
        g, tg = Gen(rng, metric="any", bounded=False), TGen(rng, bounded=False)
        gt = Gen(rng, metric="any", traj=True, bounded=False)
        for i in range(nr):
            r = rng.random()
            cls = "plain" if r < 0.7 else "cont" if r < 0.8 else "htn" if r < 0.9 else "ma"
            pre, post = random_history(rng, edits["ma" if cls == "ma" else "std"])
            h = {"pre": pre, "post": post}
            if cls == "plain":
                P = rng.choice([g, tg, tg, gt]).problem()
                add(cls, h, "gen", rng.choice([1, 2]), P)
            else:
                add(cls, h, "hand", rng.choice([1, 2]))
        universe()
        # on a busy machine worker processes cost more than they bring (measured here: 16 cores at load 90,
        # a pool of 4..14 processes is 3-10 times slower than one process): as many as there are idle cores
        nproc = free_cores(14)
        ctx.cov["replay_processes"] = nproc
        if nproc <= 2:
            traces = [worker(j) for j in jobs]
        else:
            with get_context("fork").Pool(nproc) as pool:
                traces = pool.map(worker, jobs, chunksize=32)
        skipped = {}
        for t in traces:
            if t["skip"]:
                k = t["skip"].split(":")[0] + ":" + t["skip"].split(":")[1]
                skipped[k] = skipped.get(k, 0) + 1
        good = [t for t in traces if not t["skip"]]
        if len(good) < 0.9 * len(traces):
            raise MachineryError("too many bases could not be built: %r" % skipped)
        # (the Json reader is the bottleneck of the judge: batches of 12 000 histories)
        for i in range(0, len(good), 12000):
            judge(ctx, "b%d" % (i // 12000), good[i : i + 12000])
        t1info = fut.result()
    finally:
        ex.shutdown(wait=True)
    ctx.cov["t1"] = t1info
    ctx.cov["bases_skipped"] = skipped
    ctx.cov["histories_enumerated"] = {k: len(v) for k, v in hist.items()}
    ctx.cov["histories_replayed"] = {"enumerated": nenum, "random": len(jobs) - nenum}
    per = {}
    rejected = 0
    for t in good:
        per[t["cls"]] = per.get(t["cls"], 0) + 1
        if any(o["ro"] not in ("ok", "-") or o["rc"] not in ("ok", "-") for o in t["ops"]):
            rejected += 1
    ctx.cov["traces_per_class"] = per
    ctx.cov["distinct_nontrivial"] = rejected
    if rejected == 0 or len(per) < 4:
        raise MachineryError("vacuous run: no rejected edit or a problem class missing (%r)" % per)
    ctx.sample({"kind": "replayed history", "trace": {k: v for k, v in good[len(good) // 3].items() if k not in ("job",)}}, cap=2)
    ctx.cov["rule"] = (
        "T1: exhaustive BFS of MCModelClone within the stated bounds (repaired clone: real invariants; as-written clone: one "
        "configuration per uncopied field, counterexamples listed under t1). T2: connected edit histories emitted by TLC "
        "(ModelCloneEnum; counts under histories_enumerated) replayed on Problem, ContingentProblem, HierarchicalProblem and "
        "MultiAgentProblem bases (empty / hand-built / holding the universe's actions, two variants each): every history of <= 1 "
        "pre-edit and 1 post-edit over the representative edits, and per class the shares %r of the other such histories, %r of "
        "those with two post-edits and no pre-edit, %r of the remaining 3-edit ones; T3: %d seeded random histories (<= 4 "
        "pre-edits, <= 6 post-edits) on Gen/TGen problems and the hand-built bases.  One evaluation = one recorded call judged "
        "by ModelCloneTrace; a history is counted non-trivial when some call in it is rejected." % (f2, f02, f3, nr)
    )
    ctx.cov["exhaustive"] = not q  # the quick tier samples the enumerated histories
    ctx.assumptions += [
        "TLC and the CommunityModules Json reader are trusted; harness/upj.py project and repr() serve as full projections",
        "edits come from the fixed universe of spec/ModelClone.tla (fluents zz_x, zz_b, zz_n, objects, actions zz_a / zz_d, "
        "two timings, two values); generated base problems are opaque content that clone() must preserve",
        "`==`, hash and kind are the implementation's own (the property is phrased with them); their results are judged "
        "against AbsEq of the recorded public contents",
        "multi-agent `==` raising on a fluent without initial value is outside the specified zone (counted as unspecified)",
    ]


# ----------------------------------------------------------------------------------------
# ./check C22 --replay FILE   and   --selftest
# ----------------------------------------------------------------------------------------
def replay_file(ctx, data):
    """re-run the history of a replay file against the current tree; 1 if its signature shows again"""
    job = data["data"].get("job")
    if not job:
        print("replay: the file holds a design-level (T1) counterexample: %s" % data["signature"])
        return 0
    t = worker(job)
    if t["skip"]:
        raise MachineryError("replay: base cannot be built: %s" % t["skip"])
    judge(ctx, "replay", [t])
    sigs = sorted({v.sig for v in ctx.violations})
    for s in sigs:
        print("replay: %s" % s)
    again = data["signature"] in sigs
    print("replay: signature %s %s" % (data["signature"], "reproduced" if again else "NOT reproduced"))
    return 1 if again else 0


def replay(ctx, data):
    return replay_file(ctx, data)


def selftest(ctx):
    """corrupting one recorded field of a clean trace makes the judge reject it (one clause per corruption)"""
    import copy

    E = lambda **kw: dict(NOEDIT, **kw)
    job = {
        "id": 1,
        "base": {"cls": "plain", "var": 1, "kind": "hand", "rich": True},
        "pre": [E(op="teff", t="t1", f="x", k="asg", v=1), E(op="goal", a="g2")],
        "post": [{"e": E(op="teff", t="t1", f="x", k="asg", v=2), "tgt": "both"}, {"e": E(op="object", a="o1"), "tgt": "both"},
                 {"e": E(op="fluent", a="n", k="t"), "tgt": "o"}],
    }
    clean = worker(job)
    corruptions = {
        "eq": lambda t: t["ops"][2].__setitem__("eq", "F"),
        "kind": lambda t: t["ops"][2].__setitem__("keq", "F"),
        "hash": lambda t: t["ops"][3].__setitem__("heq", "F"),
        "proj": lambda t: t["ops"][2].__setitem__("dc", "0" * 12),
        "acc-c": lambda t: t["ops"][3].__setitem__("rc", "ok"),
        "acc-o": lambda t: t["ops"][4].__setitem__("ro", "ok"),
        "abs-c": lambda t: t["ops"][4]["ac"]["objs"].append("n"),
        "clone-abs": lambda t: t["ops"][2]["ac"]["goals"].clear(),
        "indep-c": lambda t: t["ops"][5]["ac"]["traj"].append("tr1"),
        "clone-orig": lambda t: t["ops"][2]["ao"]["teffs"].clear(),
    }
    traces = [clean]
    for i, (clause, f) in enumerate(sorted(corruptions.items())):
        t = copy.deepcopy(clean)
        t["id"] = 100 + i
        f(t)
        traces.append(t)
    judge(ctx, "selftest", traces)
    got = {}
    for v in ctx.violations:
        got.setdefault(v.data["trace"]["id"], set()).add(v.data["clause"])
    ok = not got.get(1)
    print("selftest: clean trace %s" % ("accepted" if ok else "REJECTED %s" % sorted(got[1])))
    for i, clause in enumerate(sorted(corruptions)):
        hit = clause in got.get(100 + i, set())
        print("selftest: corrupted field for clause %-10s -> %s" % (clause, "rejected by the judge" if hit else "NOT NOTICED (%s)" % sorted(got.get(100 + i, []))))
        ok = ok and hit
    return 0 if ok else 1
