"""C08 -- compilers succeed and produce well-formed results inside their supported kind.

C06 corpus with adversarial identifiers (underscores, digits, mixed case, names that are prefixes or
concatenations of one another) -> real compile() -> spec/CompilerJudge.tla (MODE=C08): the compiler
must not raise inside supports(kind), and the projected compiled problem must be WellFormed (unique
names, every referenced fluent/object/type/parameter declared or bound) with a plan back-conversion.
"""
import os
from multiprocessing import Pool

from .. import tlc, compobs
from ..common import MachineryError
from ..gen import Gen

CFG = "SPECIFICATION Spec\nINVARIANT Judge\n"


def clash_names(rng, P, order="shuffle"):
    """rename the actions of P to a family of names that are prefixes / counter-suffixed forms of one
    another (n, n_0, n_1, n_0_0 ...): the forms compilers generate for action variants and ground instances"""
    import json

    base = rng.choice(["a", "act", "move", "op"])
    fam = [base, base + "_0", base + "_1", base + "_0_0", base + "_" + (P["objects"][0]["name"] if P["objects"] else "x")]
    # the family in generation order (n before n_0 before n_0_0: the order in which a compiler would itself create
    # them), reversed, or shuffled
    if order == "shuffle":
        rng.shuffle(fam)
    elif order == "rev":
        fam.reverse()
    P = json.loads(json.dumps(P))
    ren = {}
    for a, n in zip(P["actions"], fam):
        ren[a["name"]] = n
        a["name"] = n
    for c in P["metric"].get("costs", []):
        c["a"] = ren.get(c["a"], c["a"])
    return P


def corpus(ctx, per):
    jobs = []
    cid = 0
    for cname in compobs.COMPILERS:
        for adv in (True, False):
            g = Gen(ctx.rng, adversarial_names=adv, **compobs.MASKS[cname])
            for k in range(per if adv else max(2, per // 3)):
                cid += 1
                P = g.problem()
                if adv and k % 2 == 1:
                    P = clash_names(ctx.rng, P, ("fwd", "rev", "shuffle")[(k // 2) % 3])
                # every second problem is compiled twice through ONE compiler instance and the second result is judged
                jobs.append((cid, P, cname, "reuse" if k % 2 == 0 else False))
    return jobs


def judge(ctx, recs, mode):
    batch = [r for r in recs if not r["skip"]]
    if not batch:
        raise MachineryError("nothing compiled")
    keep = ("cid", "comp", "Q", "raised", "qnames", "has_back_conversion", "declared", "qkind", "declared_exc", "pipeline", "stage_rejected")
    slim = []
    for r in batch:
        x = {k: r.get(k) for k in keep}
        if x["Q"] is None:
            x["Q"] = {"fluents": [], "objects": [], "types": [], "actions": [], "goals": [], "invariants": [], "traj": [], "init": []}
        slim.append(x)
    d = ctx.sub("judge-" + mode)
    path = os.path.join(d, "batch.ndjson")
    tlc.write_ndjson(path, slim)
    res = tlc.run_tlc("CompilerJudge", CFG, d, env={"BATCH": path, "MODE": mode}, timeout=3000)
    if res.error or res.violated:
        raise MachineryError("CompilerJudge failed: %s %s" % (res.violated, (res.error or "")[-3000:]))
    if res.distinct != len(batch):
        raise MachineryError("judge consumed %d of %d records" % (res.distinct, len(batch)))
    ctx.add_tlc("CompilerJudge-" + mode, res)
    return batch, [p for p in res.printed if p and p[0] == "FAIL"]


def stats(ctx, recs, batch):
    st = {}
    for r in recs:
        s = st.setdefault(r["comp"], {"compiled": 0, "skipped": 0, "raised": 0})
        if r["skip"]:
            s["skipped"] += 1
        elif r["raised"] != "none":
            s["raised"] += 1
        else:
            s["compiled"] += 1
    ctx.cov["per_compiler"] = st
    ctx.cov["evaluations"] = len(batch)
    ctx.cov["traces_validated_against_impl"] = len(batch)
    ctx.cov["distinct_nontrivial"] = sum(1 for r in batch if r["raised"] == "none")


def run(ctx):
    q = ctx.quick
    per = 36 if q else 200
    jobs = corpus(ctx, per)
    with Pool(14, maxtasksperchild=40) as pool:
        recs = pool.map(compobs.worker, jobs, chunksize=2)
    for r in recs:
        if r["skip"].startswith("HARNESS"):
            raise MachineryError(r.get("detail"))
    compobs.require_coverage(recs)
    # documented rejection: the trajectory-constraints remover reports problems it proves unsolvable
    # by raising UPProblemDefinitionError("PROBLEM NOT SOLVABLE ...")
    for r in recs:
        if r["raised"] == "UPProblemDefinitionError" and "PROBLEM NOT SOLVABLE" in r.get("detail", ""):
            r["skip"] = "documented-rejection"
    batch, fails = judge(ctx, recs, "C08")
    byid = {r["cid"]: r for r in batch}
    for _, cid, clause in fails:
        r = byid[cid]
        if clause.startswith("raises-"):
            sig = "%s|%s@%s" % (r["comp"], clause, r["site"])
        else:
            sig = "%s|%s" % (r["comp"], clause)
        ctx.violation(sig, "C08 %s: %s %s" % (r["comp"], clause, r["detail"][:120]),
                      {"compiler": r["comp"], "clause": clause, "site": r["site"], "detail": r["detail"], "problem": r["P"],
                       "compiled_names": r.get("qnames")})
    stats(ctx, recs, batch)
    ctx.cov["rule"] = (
        "per compiler %d G2 problems with adversarial identifiers (+ a third with plain ones) inside supports(kind); one "
        "evaluation = one compile() call judged by CompilerJudge (no raise, WellFormed, back-conversion available); "
        "non-trivial = compilations that returned a problem." % per
    )
    ex = next((r for r in batch if r["raised"] == "none"), batch[0])
    ctx.sample({"compiler": ex["comp"], "original": ex["P"], "compiled_names": ex.get("qnames")})
    ctx.assumptions += ["TLC, Json reader, harness/upj.py trusted",
                        "documented rejections are not listed per compiler: every exception inside supports(kind) is reported with its raising site as signature"]


def replay_common(ctx, rec, mode):
    """Re-run the real compiler (or factory pipeline) on the recorded problem and let TLC judge the record again."""
    d = rec["data"]
    comp = d["compiler"].split("+") if "+" in d["compiler"] else d["compiler"]
    r = compobs.worker((1, d["problem"], comp, False))
    if r["skip"]:
        print("replay: not compiled on the current tree (%s)" % r["skip"])
        return 0
    _, fails = judge(ctx, [r], mode)
    for f in fails:
        print("REPRODUCED property=%s clause=%s" % (mode, f[2]))
    if not fails:
        print("replay: no violation on the current tree")
    return 1 if fails else 0


def replay(ctx, rec):
    return replay_common(ctx, rec, "C08")
