"""C01 -- the sequential simulator computes exactly the documented successor semantics.
(also the engine of C02: same corpus, MODE=C02 judges query consistency and purity)

G2 problems (harness/gen.py) -> real UPSequentialSimulator run breadth-first, observation graph
recorded (harness/simobs.py) -> spec/SeqSemObs.tla: TLC explores UPSeqSem!Step's own transition
system of every problem and checks in every reachable state that the recorded verdict and
successor of EVERY ground action instance equal Step (outside the unspecified zones).
"""
import os
from multiprocessing import Pool

from .. import tlc, simobs
from ..common import MachineryError
from ..gen import Gen

CFG = """SPECIFICATION Spec
INVARIANT Agrees
INVARIANT TypeOK
"""


def features(P):
    """small deterministic feature vector of a problem (for signatures)"""
    fs = set()
    txt = repr(P["actions"]) + repr(P["goals"]) + repr(P["invariants"])
    if "'forall': [{" in txt:
        fs.add("forall-effect")
    if "'inc'" in txt or "'dec'" in txt:
        fs.add("incdec")
    if P["invariants"]:
        fs.add("invariant")
    if any(f["default"]["k"] == "u" for f in P["fluents"]):
        fs.add("undef")
    if any(f["type"]["k"] in ("int", "real") and (f["type"]["lo"]["k"] != "none" or f["type"]["hi"]["k"] != "none") for f in P["fluents"]):
        fs.add("bounded")
    return sorted(fs)


def make_corpus(ctx, n, **opts):
    g = Gen(ctx.rng, **opts)
    gi = Gen(ctx.rng, ifuns=True, **opts)  # every fourth problem uses interpreted functions (finite tables)
    return [(gi if i % 4 == 3 else g).problem() for i in range(n)]


def observe_corpus(ctx, corpus, depth, cap, mode):
    jobs = [(i + 1, P, depth, cap, mode, ctx.seed * 1000003 + i, False) for i, P in enumerate(corpus)]
    with Pool(14, maxtasksperchild=40) as pool:
        recs = pool.map(simobs.worker, jobs, chunksize=4)
    for r in recs:
        if r["skip"].startswith("HARNESS"):
            raise MachineryError("harness error while observing: %s" % r.get("skip_detail"))
    return recs


def judge(ctx, recs, mode, label):
    """run SeqSemObs on the records that were built; returns list of FAIL tuples"""
    d = ctx.sub("judge-%s-%s" % (mode, label))
    batch = [r for r in recs if not r["skip"]]
    if not batch:
        raise MachineryError("no problem could be built")
    path = os.path.join(d, "batch.ndjson")
    tlc.write_ndjson(path, batch)
    res = tlc.run_tlc("SeqSemObs", CFG, d, env={"BATCH": path, "MODE": mode}, timeout=3000, heap="16g")
    if res.error or res.violated:
        raise MachineryError("SeqSemObs failed: %s %s" % (res.violated, (res.error or res.stdout)[-3000:]))
    if res.distinct < len(batch):
        raise MachineryError("judge visited %d states for %d problems" % (res.distinct, len(batch)))
    ctx.add_tlc("SeqSemObs-%s-%s" % (mode, label), res)
    fails, unspec = [], 0
    for p in res.printed:
        if p and p[0] == "FAIL":
            fails.append(p)
        elif p and p[0] == "U":
            unspec += p[2]
    ctx.cov["unspecified"] += unspec
    return fails, batch, res


def report(ctx, fails, batch, mode):
    byid = {r["pid"]: r for r in batch}
    seen = set()
    for f in fails:
        _, pid, clause, i, j = f
        key = (pid, clause, i, j)
        if key in seen:
            continue
        seen.add(key)
        r = byid[pid]
        data = {"mode": mode, "clause": clause, "problem": r["P"], "keys": r["keys"]}
        if i and i <= len(r["obs"]):
            o = r["obs"][i - 1]
            data["state"] = o["s"]
            if j:
                data["action"] = o["acts"][j - 1]
            else:
                data["state_obs"] = {k: v for k, v in o.items() if k not in ("acts",)}
        if clause.startswith("init"):
            data["init"] = r["init"]
            data["init_detail"] = r.get("init_detail", "")
        sig = clause
        ctx.violation(sig, "%s: simulator disagrees with UPSeqSem (%s) on a generated problem" % (mode, clause), data)


def g1_corpus(ctx, maxeff, sample):
    """MC_EffectCombos: one-action problems enumerated by TLC (spec/SeqSemEnum.tla)"""
    import json

    d = ctx.sub("g1enum")
    out = os.path.join(d, "cases.ndjson")
    hdr = os.path.join(d, "header.json")
    res = tlc.run_tlc("SeqSemEnum", "INIT Init\nNEXT Next\nCONSTANTS MaxEff = %d\n" % maxeff, d, env={"OUT": out, "HEADER": hdr}, workers=1, timeout=3000)
    if res.error:
        raise MachineryError(res.error)
    H = json.load(open(hdr))
    idx = tlc.read_ndjson(out)
    total = len(idx)
    if sample and len(idx) > sample:
        # every enumerated effect combination at least once (one seeded choice of invariant / initial state each),
        # the rest of the budget at random
        groups = {}
        for c in idx:
            groups.setdefault(tuple(c["effs"]), []).append(c)
        keep = [ctx.rng.choice(groups[k]) for k in sorted(groups)]
        if len(keep) > sample:
            # more combinations than budget: still one variant per combination (the budget is a target, not a cap)
            idx = keep
        else:
            rest = [c for c in idx if c not in keep]
            idx = keep + ctx.rng.sample(rest, min(len(rest), sample - len(keep)))
    cases = []
    for c in idx:
        P = json.loads(json.dumps(H["template"]))
        P["actions"][0]["effects"] = [H["menu"][i - 1] for i in c["effs"]]
        P["invariants"] = H["invs"][c["inv"] - 1]
        P["init"] = H["inits"][c["init"] - 1]
        cases.append(P)
    return cases, total


def run_mode(ctx, mode):
    q = ctx.quick
    # ---- G1: TLC-enumerated effect combinations (exhaustive for <= 2 effects in the thorough tier) ----
    g1, g1_total = g1_corpus(ctx, 2 if q else 3, 300 if q else 9000)
    recs1 = observe_corpus(ctx, g1, 2, 60, mode)
    fails1, batch1, _ = judge(ctx, recs1, mode, "g1")
    for r in batch1:
        r["pid"] = r["pid"]
    report(ctx, fails1, batch1, mode)
    ctx.cov["g1_enumerated"] = g1_total
    ctx.cov["g1_judged"] = len(batch1)
    ctx.cov["evaluations"] += sum(len(o["acts"]) for r in batch1 for o in r["obs"])
    ctx.cov["traces_validated_against_impl"] += len(batch1)
    n = 400 if q else 4000
    depth = 4 if q else 6
    cap = 150 if q else 400
    corpus = make_corpus(ctx, n)
    recs = observe_corpus(ctx, corpus, depth, cap, mode)
    skipped = {}
    for r in recs:
        if r["skip"]:
            skipped[r["skip"]] = skipped.get(r["skip"], 0) + 1
    fails, batch, res = judge(ctx, recs, mode, "g2")
    report(ctx, fails, batch, mode)
    nobs = sum(len(o["acts"]) for r in batch for o in r["obs"])
    nstates = sum(len(r["obs"]) for r in batch)
    ctx.cov["evaluations"] += nobs
    ctx.cov["traces_validated_against_impl"] += len(batch)
    nontriv = set()
    for r in batch:
        for o in r["obs"]:
            for a in o["acts"]:
                if a["app"] == "T":
                    nontriv.add((r["pid"], repr(o["s"]), a["a"], repr(a["args"])))
    ctx.cov["distinct_nontrivial"] += len(nontriv)
    ctx.cov["problems_generated"] = n
    ctx.cov["problems_judged"] = len(batch)
    ctx.cov["problems_skipped"] = skipped
    ctx.cov["impl_states_observed"] = nstates
    ctx.cov["rule"] = (
        "G2 grammar problems (harness/gen.py), simulator run breadth-first to depth %d (cap %d states); one "
        "evaluation = one (state, ground action instance) observation judged against UPSeqSem!Step by TLC, which "
        "explores the specification's own reachable states; non-trivial = the implementation applied the action "
        "(distinct (problem, state, action) triples). Problems that unified-planning refuses to build are skipped "
        "and counted." % (depth, cap)
    )
    ex = next((r for r in batch if len(r["obs"]) > 2), batch[0])
    ctx.sample({"problem": ex["P"], "first_observation": ex["obs"][0]})
    ctx.assumptions += [
        "TLC, the CommunityModules Json reader, and harness/upj.py build/project (structure only) are trusted",
        "unspecified zones of DESIGN.md 7.1 are not compared (counted in coverage.unspecified)",
        "problems have <= ~12 ground fluents, <= ~16 ground actions; depth <= %d" % depth,
    ]


def run(ctx):
    run_mode(ctx, "C01")


def replay_mode(ctx, rec, mode):
    """re-run one recorded problem against the current tree; exit 1 iff the judge still reports a violation"""
    P = rec["data"]["problem"]
    r = simobs.observe(P, 6, 400, mode, seed=ctx.seed)
    r["pid"] = 1
    if r["skip"]:
        print("replay: problem skipped (%s)" % r["skip"])
        return 0
    fails, batch, _ = judge(ctx, [r], mode, "replay")
    for f in fails:
        print("REPRODUCED property=%s clause=%s" % (ctx.pid, f[2]))
    if not fails:
        print("replay: no violation on the current tree")
    return 1 if fails else 0


def replay(ctx, rec):
    return replay_mode(ctx, rec, "C01")
