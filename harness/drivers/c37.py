"""C37 -- multi-agent compilers preserve each agent's action semantics.

Generated multi-agent problems (2 agents; environment, public and private agent fluents, some
declared under the same name by both agents; actions with conditional effects and disjunctive
preconditions reading own, environment and other agents' (Dot) fluents; Dot goals, possibly
disjunctive; plus a "sibling" corpus in which the agents own same-named near-copies of each other's
actions, see MAGen.problem) are built through the public API, compiled by the REAL MAConditionalEffectsRemover /
MADisjunctiveConditionsRemover, and both problems are projected (structure only) to the
multi-agent abstract model MA-UPJ; the map-back table comes from the real
map_back_action_instance called on every ground action of the compiled problem (recorded: the agent and
name of the returned instance AND the whole definition of the returned action object), the initial
states from the real MultiAgentProblem.initial_value.

spec/MASem.tla owns the semantics: it resolves names (the multi-agent scoping rule), flattens
both problems to UPSeqSem problems and judges -- in EVERY total state over the ground fluents of the
compiled problem (TLC generates all of them, not only the reachable ones) -- applicability,
successors, uniqueness of the applicable variant (conditional-effects remover) and goal
equivalence modulo the fake-goal mechanism.  Python decides nothing.

./check C37 --selftest corrupts recorded fields one at a time and shows that the judge rejects.
"""
import copy
import itertools
import os
import traceback
from collections import OrderedDict
from multiprocessing import Pool

from .. import tlc, upj
from ..common import MachineryError, time_limit, ImplTimeout
from ..upj import E, BV, OV, UNDEF

COMPILERS = {
    "cerm": ("unified_planning.engines.compilers.ma_conditional_effects_remover", "MAConditionalEffectsRemover", "CONDITIONAL_EFFECTS_REMOVING"),
    "dcrm": ("unified_planning.engines.compilers.ma_disjunctive_conditions_remover", "MADisjunctiveConditionsRemover", "DISJUNCTIVE_CONDITIONS_REMOVING"),
}
BOOL = {"k": "bool"}
CFG = "SPECIFICATION Spec\nINVARIANT Verdict\n"


def C(b):
    return E("const", v=BV(b))


# ----------------------------------------------------------------------------------------
# generator of abstract multi-agent descriptions (MA-UPJ); every choice from the given rng
# ----------------------------------------------------------------------------------------
class MAGen:
    """MA-UPJ:  {name, types, objects, env:[fluent], agents:[{name, fluents:[fluent], public:[name],
    actions:[action]}], init:[{agent, f, args, v}], goals:[expr]}
    fluent = {name, type, sig, default}; action = UPJ instantaneous action whose expressions may hold
    dot nodes {op:"dot", name:agent, args:[fluent node]} and whose effect targets carry `agent`
    ("" = unqualified)."""

    def __init__(self, rng, comp, max_ground=8, objfluent=0.0, quant=0.1, boolconst=0.05, nagents=2):
        self.r = rng
        self.comp = comp
        self.max_ground = max_ground
        self.p_objfluent = objfluent
        self.p_quant = quant
        self.p_const = boolconst
        self.nagents = nagents
        self.sibling = False  # sibling mode (see problem())
        self.only = None  # sibling mode: the agent fluent names that may be referenced unqualified

    def problem(self, sibling=False):
        """sibling=False: the agents' actions are generated independently.
        sibling=True: name collisions BETWEEN agents.  The agents share most fluent names (the same Fluent
        object in both), one agent's actions are written over the fluents both agents can name the same way
        (shared agent fluents, environment fluents, Dot references) and the other agent gets, under the SAME
        action names, near-copies of them (one effect retargeted / added / dropped, a condition or a
        precondition changed, or the very same definition), so that compiled variants of different agents
        coincide in everything but their owner; effect conditions are reused (also negated) inside an action;
        and an agent may own an unconditional action that is literally one branch of the other agent's
        conditional action, under a name a fresh-name generator would pick (act_0, act_1: the shape of a
        problem that went through another compiler before)."""
        r = self.r
        self.sibling = sibling
        self.only = None
        T = "T"
        objs = ["o1", "o2"]
        D = {"name": "ma", "types": [{"name": T, "parent": ""}], "objects": [{"name": o, "type": T} for o in objs]}
        self.objs = objs
        tT = {"k": "user", "name": T}
        budget = self.max_ground

        def mkfl(name, allow_obj=True):
            nonlocal budget
            arity = 1 if (budget >= 2 and r.random() < 0.35) else 0
            budget -= 2 if arity else 1
            typ = BOOL
            if allow_obj and arity == 0 and r.random() < self.p_objfluent:
                typ = tT
            dv = BV(r.random() < 0.4) if typ is BOOL else OV(r.choice(objs))
            return {"name": name, "type": typ, "sig": [{"name": "x", "type": tT}] if arity else [], "default": dv}

        # environment fluents
        nenv = r.choice([1, 1, 2])
        D["env"] = [mkfl("e%d" % i) for i in range(nenv)]
        # agent fluents: a pool of names shared by the agents (the same Fluent object is then added to
        # several agents, as the library's own examples do)
        anames = ["a%d" % (i + 1) for i in range(self.nagents)]
        agents = []
        for an in anames:
            agents.append({"name": an, "fluents": [], "public": [], "actions": []})
        for i in range(4):
            if budget <= 0:
                break
            name = "f%d" % i
            fl = mkfl(name)
            owners = [a for a in agents if r.random() < (0.85 if sibling else 0.6)] or [r.choice(agents)]
            first = True
            for a in owners:
                if not first:
                    cost = 2 if fl["sig"] else 1
                    if budget < cost:
                        break
                    budget -= cost
                first = False
                f2 = dict(fl)
                f2["default"] = BV(r.random() < 0.4) if fl["type"] is BOOL else OV(r.choice(objs))
                a["fluents"].append(f2)
                if r.random() < 0.5:
                    a["public"].append(name)
        for a in agents:
            if not a["fluents"]:
                a["fluents"].append({"name": "own_" + a["name"], "type": BOOL, "sig": [], "default": BV(False)})
        D["agents"] = agents
        self.D = D
        # actions
        pool_names = ["act", "mv", "op"]
        if sibling:
            self.sibling_actions(agents, pool_names)
        else:
            for a in agents:
                for nm in r.sample(pool_names, r.choice([1, 2, 2])):
                    a["actions"].append(self.action(a, nm))
        # explicit initial values (override defaults)
        D["init"] = []
        for (ag, f, args) in self.ground_fluents():
            if r.random() < 0.25:
                fl = self.fluent(ag, f)
                v = BV(r.random() < 0.5) if fl["type"]["k"] == "bool" else OV(r.choice(objs))
                D["init"].append({"agent": ag, "f": f, "args": [OV(x) for x in args], "v": v})
        # goals: environment fluents and Dot(agent, fluent); disjunctive for the dcrm corpus
        D["goals"] = []
        for _ in range(r.choice([1, 1, 2])):
            pdis = 0.6 if self.comp == "dcrm" else 0.25
            D["goals"].append(self.bexpr(None, [], 2 if r.random() < pdis else 1, goal=True, pdis=pdis))
        return D

    # ---- tables ---------------------------------------------------------------------
    def fluent(self, ag, name):
        src = self.D["env"] if ag == "" else next(a for a in self.D["agents"] if a["name"] == ag)["fluents"]
        return next(f for f in src if f["name"] == name)

    def ground_fluents(self):
        out = []
        for f in self.D["env"]:
            for t in itertools.product(*[self.objs for _ in f["sig"]]):
                out.append(("", f["name"], list(t)))
        for a in self.D["agents"]:
            for f in a["fluents"]:
                for t in itertools.product(*[self.objs for _ in f["sig"]]):
                    out.append((a["name"], f["name"], list(t)))
        return out

    # ---- expressions ----------------------------------------------------------------
    def arg(self, terms):
        r = self.r
        if terms and r.random() < 0.75:
            return r.choice(terms)
        return E("obj", name=r.choice(self.objs))

    def atom(self, agent, terms, goal=False, want="bool"):
        """a fluent reference of type `want` visible from `agent` (None = problem level)"""
        r = self.r
        cands = []
        for f in self.D["env"]:
            cands.append(("", f))
        for a in self.D["agents"]:
            for f in a["fluents"]:
                if agent is not None and a["name"] == agent["name"]:
                    if self.only is not None and f["name"] not in self.only:
                        cands.append((a["name"], f))  # sibling mode: not nameable by the other agent -> Dot
                        continue
                    cands.append(("", f))  # own fluent, unqualified
                    if r.random() < 0.15:
                        cands.append((a["name"], f))  # own fluent through Dot
                elif agent is None or f["name"] in a["public"] or r.random() < 0.3:
                    cands.append((a["name"], f))
        cands = [c for c in cands if c[1]["type"]["k"] == want]
        if not cands:
            return None
        who, f = r.choice(cands)
        fe = E("fluent", [self.arg(terms) for _ in f["sig"]], name=f["name"])
        return E("dot", [fe], name=who) if who else fe

    def batom(self, agent, terms, goal=False):
        r = self.r
        if r.random() < self.p_objfluent:
            o = self.atom(agent, terms, goal, want="user")
            if o is not None:
                return E("eq", [o, self.arg(terms)])
        if r.random() < self.p_const:
            return C(r.random() < 0.5)
        return self.atom(agent, terms, goal) or C(True)

    def bexpr(self, agent, terms, depth, goal=False, pdis=0.4):
        r = self.r
        if depth <= 0 or r.random() < 0.25:
            a = self.batom(agent, terms, goal)
            return E("not", [a]) if r.random() < 0.3 else a
        x = r.random()
        sub = lambda: self.bexpr(agent, terms, depth - 1, goal, pdis)
        if x < pdis:
            k = r.random()
            if k < 0.7:
                return E("or", [sub() for _ in range(r.choice([2, 2, 3]))])
            if k < 0.85:
                return E("implies", [sub(), sub()])
            return E("iff", [sub(), sub()])
        if x < pdis + 0.3:
            return E("and", [sub() for _ in range(r.choice([2, 2, 3]))])
        if x < pdis + 0.3 + self.p_quant:
            v = {"name": "q", "type": {"k": "user", "name": "T"}}
            body = self.bexpr(agent, terms + [E("var", name="q")], depth - 1, goal, pdis)
            return E(r.choice(["exists", "forall"]), [body], vars_=[v])
        if x < pdis + 0.45 + self.p_quant:
            return E("not", [sub()])
        return self.batom(agent, terms, goal)

    # ---- actions --------------------------------------------------------------------
    def action(self, agent, name):
        r = self.r
        tT = {"k": "user", "name": "T"}
        params = [{"name": "x", "type": tT}] if r.random() < 0.6 else []
        terms = [E("param", name="x")] if params else []
        pdis = 0.55 if self.comp == "dcrm" else 0.25
        pcond = 0.75 if self.comp == "cerm" else 0.35
        pre = [self.bexpr(agent, terms, r.choice([1, 2]), pdis=pdis) for _ in range(r.choice([0, 1, 1, 2]))]
        effs = []
        targets = self.targets(agent)
        for _ in range(r.choice([2, 2, 3, 3] if self.sibling else [1, 2, 2, 3])):
            _, f = r.choice(targets)
            tgt = {"name": f["name"], "args": [self.arg(terms) for _ in f["sig"]], "agent": ""}
            if f["type"]["k"] == "bool":
                if r.random() < 0.15:
                    val = self.bexpr(agent, terms, 1, pdis=0.2)
                else:
                    val = C(r.random() < 0.55)
            else:
                val = self.arg(terms)
            cond = self.bexpr(agent, terms, r.choice([0, 1, 1, 2]), pdis=pdis) if r.random() < pcond else C(True)
            if self.sibling:
                cond = self.reuse_cond(cond, effs)
            if cond["op"] == "const":
                cond = C(True)
            if f["type"]["k"] != "bool" and cond["op"] == "const" and any(
                    e["f"]["name"] == f["name"] and e["c"]["op"] == "const" for e in effs):
                continue  # two unconditional assignments to one object fluent are rejected at construction
            effs.append({"kind": "assign", "f": tgt, "v": val, "c": cond, "forall": []})
        if sum(1 for e in effs if e["c"]["op"] != "const") > 3:
            for e in effs[3:]:
                e["c"] = C(True)
        return {"name": name, "kind": "inst", "params": params, "pre": pre, "effects": effs, "conds": [],
                "dur": upj.NONE, "sim": False}

    # ---- sibling mode: name collisions between agents ----------------------------------
    def targets(self, agent):
        own = [f for f in agent["fluents"] if self.only is None or f["name"] in self.only]
        return [("", f) for f in own] + [("", f) for f in self.D["env"]]

    @staticmethod
    def neg(c):
        return c["args"][0] if c["op"] == "not" else E("not", [c])

    def reuse_cond(self, cond, effs):
        """with some probability the condition of an earlier conditional effect of the same action, as it is
        or negated (if x ... / if not x ...), instead of the freshly drawn one"""
        r = self.r
        prev = [e["c"] for e in effs if e["c"]["op"] != "const"]
        if prev and cond["op"] != "const" and r.random() < 0.4:
            c = copy.deepcopy(r.choice(prev))
            return self.neg(c) if r.random() < 0.5 else c
        return cond

    def sibling_actions(self, agents, pool_names):
        r = self.r
        first, second = r.sample(agents, 2) if len(agents) > 1 else (agents[0], agents[0])
        # the fluent names both agents declare (same name => same type and signature, see the fluent pool)
        self.only = {f["name"] for f in first["fluents"]} & {f["name"] for f in second["fluents"]}
        names = r.sample(pool_names, r.choice([1, 1, 2]))
        base = [self.action(first, nm) for nm in names]
        for b in base:
            if not any(e["c"]["op"] != "const" for e in b["effects"]) and self.comp == "cerm" and r.random() < 0.7:
                b["effects"][-1]["c"] = self.bexpr(first, self.terms_of(b), r.choice([0, 0, 1]), pdis=0.2)
                if b["effects"][-1]["c"]["op"] == "const":
                    b["effects"][-1]["c"] = C(True)
        sibs = [self.mutated(b, second) for b in base if r.random() < 0.85]
        if not sibs:
            sibs = [self.mutated(base[0], second)]
        # an unconditional action that is one branch of the other agent's conditional action, under a fresh-looking name
        extra_first, extra_second = [], []
        for b, owner_extra in [(x, extra_second) for x in base] + [(x, extra_first) for x in sibs]:
            if r.random() < 0.3:
                br = self.branch_of(b)
                if br is not None and all(br["name"] != x["name"] for x in owner_extra):
                    owner_extra.append(br)
        # further, independent actions of the second agent (still over the commonly nameable fluents)
        taken = {x["name"] for x in sibs + extra_second}
        if r.random() < 0.3:
            rest = [n for n in pool_names if n not in taken]
            if rest:
                sibs.append(self.action(second, r.choice(rest)))
        first["actions"] += base + [x for x in extra_first if all(x["name"] != y["name"] for y in base)]
        second["actions"] += sibs + [x for x in extra_second if all(x["name"] != y["name"] for y in sibs)]
        for a in (first, second):
            r.shuffle(a["actions"])

    @staticmethod
    def terms_of(act):
        return [E("param", name=q["name"]) for q in act["params"]]

    def mutated(self, base, agent):
        """a near-copy of `base` (same name, same parameters) for `agent`"""
        r = self.r
        act = copy.deepcopy(base)
        terms = self.terms_of(act)
        pdis = 0.55 if self.comp == "dcrm" else 0.25
        targets = self.targets(agent)
        effs = act["effects"]

        def fresh_target():
            _, f = r.choice(targets)
            return {"name": f["name"], "args": [self.arg(terms) for _ in f["sig"]], "agent": ""}

        def a_cond():
            prev = [e["c"] for e in effs if e["c"]["op"] != "const"]
            x = r.random()
            if prev and x < 0.4:
                return copy.deepcopy(r.choice(prev))
            if prev and x < 0.7:
                return self.neg(copy.deepcopy(r.choice(prev)))
            c = self.bexpr(agent, terms, r.choice([0, 0, 1]), pdis=pdis)
            return C(True) if c["op"] == "const" else c

        for _ in range(r.choice([1, 1, 1, 2])):
            kind = r.choice(["same", "retarget", "retarget", "retarget", "value", "value", "addeff", "addeff", "addeff",
                             "dropeff", "cond", "pre", "pre"])
            ncond = sum(1 for e in effs if e["c"]["op"] != "const")
            if kind == "retarget":
                cands = [e for e in effs if e["c"]["op"] != "const"] or effs
                r.choice(cands)["f"] = fresh_target()
            elif kind == "value":
                e = r.choice([e for e in effs if e["c"]["op"] != "const"] or effs)
                e["v"] = C(not e["v"]["v"]["b"]) if e["v"]["op"] == "const" else C(r.random() < 0.5)
            elif kind == "addeff":
                c = a_cond() if ncond < 3 else C(True)
                effs.append({"kind": "assign", "f": fresh_target(), "v": C(r.random() < 0.55), "c": c, "forall": []})
            elif kind == "dropeff":
                if len(effs) > 1:
                    effs.pop(r.randrange(len(effs)))
            elif kind == "cond":
                e = r.choice(effs)
                if e["c"]["op"] != "const":
                    e["c"] = C(True) if r.random() < 0.3 else a_cond()
                elif ncond < 3:
                    e["c"] = a_cond()
            elif kind == "pre":
                pre = act["pre"]
                x = r.random()
                if pre and x < 0.5:
                    c = r.choice(pre)
                    if c["op"] in ("or", "and"):  # another disjunct / conjunct
                        c["args"][r.randrange(len(c["args"]))] = self.bexpr(agent, terms, 0, pdis=pdis)
                    else:
                        pre[pre.index(c)] = self.bexpr(agent, terms, r.choice([1, 2]), pdis=pdis)
                elif pre and x < 0.7:
                    pre.pop(r.randrange(len(pre)))
                elif len(pre) < 3:
                    pre.append(self.bexpr(agent, terms, r.choice([0, 1]), pdis=pdis))
        return act

    def branch_of(self, base):
        """the unconditional action that takes one combination of `base`'s conditional effects (conditions as
        preconditions), named like a fresh name derived from base's name"""
        r = self.r
        cond = [e for e in base["effects"] if e["c"]["op"] != "const"]
        if not cond:
            return None
        act = copy.deepcopy(base)
        act["name"] = "%s_%d" % (base["name"], r.choice([0, 0, 1]))
        act["effects"] = []
        for e in copy.deepcopy(base["effects"]):
            if e["c"]["op"] == "const":
                act["effects"].append(e)
            elif r.random() < 0.5:
                act["pre"].append(e["c"])
                e["c"] = C(True)
                act["effects"].append(e)
            else:
                act["pre"].append(self.neg(e["c"]))
        return act if act["effects"] else None


# ----------------------------------------------------------------------------------------
# MA-UPJ -> MultiAgentProblem, public API only
# ----------------------------------------------------------------------------------------
def build_ma(D):
    import unified_planning as up
    from unified_planning.model import Fluent, InstantaneousAction, Object, Parameter, Variable
    from unified_planning.model.multi_agent import MultiAgentProblem, Agent

    env = up.environment.get_environment()
    em = env.expression_manager
    tm = env.type_manager
    p = MultiAgentProblem(D["name"], env)
    types = {}
    for t in D["types"]:
        types[t["name"]] = tm.UserType(t["name"]) if not t["parent"] else tm.UserType(t["name"], types[t["parent"]])
    objects = {}
    for o in D["objects"]:
        objects[o["name"]] = Object(o["name"], types[o["type"]], env)
        p.add_object(objects[o["name"]])
    fcache = {}

    def mk_fluent(f):
        key = (f["name"], f["type"]["k"], f["type"].get("name", ""), tuple((s["name"], s["type"]["name"]) for s in f["sig"]))
        if key not in fcache:
            sig = [Parameter(s["name"], upj.b_type(s["type"], env, types), env) for s in f["sig"]]
            fcache[key] = Fluent(f["name"], upj.b_type(f["type"], env, types), sig, env)
        return fcache[key]

    def val(v):
        return em.Bool(v["b"]) if v["k"] == "b" else em.ObjectExp(objects[v["o"]])

    envf = {}
    for f in D["env"]:
        envf[f["name"]] = mk_fluent(f)
        p.ma_environment.add_fluent(envf[f["name"]], default_initial_value=val(f["default"]))
    agents = {}
    agf = {}
    for a in D["agents"]:
        ag = Agent(a["name"], p)
        agents[a["name"]] = ag
        agf[a["name"]] = {}
        for f in a["fluents"]:
            fl = mk_fluent(f)
            agf[a["name"]][f["name"]] = fl
            if f["name"] in a["public"]:
                ag.add_public_fluent(fl, default_initial_value=val(f["default"]))
            else:
                ag.add_private_fluent(fl, default_initial_value=val(f["default"]))

    def bx(e, scope, params, vars_):
        op = e["op"]
        if op == "const":
            return val(e["v"])
        if op == "obj":
            return em.ObjectExp(objects[e["name"]])
        if op == "param":
            return em.ParameterExp(params[e["name"]])
        if op == "var":
            return em.VariableExp(vars_[e["name"]])
        if op == "fluent":
            fl = agf.get(scope, {}).get(e["name"]) or envf[e["name"]]
            return em.FluentExp(fl, tuple(bx(x, scope, params, vars_) for x in e["args"]))
        if op == "dot":
            inner = e["args"][0]
            fl = agf[e["name"]][inner["name"]]
            return em.Dot(agents[e["name"]], em.FluentExp(fl, tuple(bx(x, scope, params, vars_) for x in inner["args"])))
        if op in ("exists", "forall"):
            vs = OrderedDict((v["name"], Variable(v["name"], upj.b_type(v["type"], env, types), env)) for v in e["vars"])
            v2 = dict(vars_)
            v2.update(vs)
            body = bx(e["args"][0], scope, params, v2)
            return (em.Exists if op == "exists" else em.Forall)(body, *vs.values())
        a = [bx(x, scope, params, vars_) for x in e["args"]]
        if op == "and":
            return em.And(*a)
        if op == "or":
            return em.Or(*a)
        if op == "not":
            return em.Not(a[0])
        if op == "implies":
            return em.Implies(a[0], a[1])
        if op == "iff":
            return em.Iff(a[0], a[1])
        if op == "eq":
            return em.Equals(a[0], a[1])
        raise ValueError("cannot build op %r" % op)

    for a in D["agents"]:
        ag = agents[a["name"]]
        for act in a["actions"]:
            ia = InstantaneousAction(act["name"], OrderedDict((q["name"], upj.b_type(q["type"], env, types)) for q in act["params"]), env)
            params = {q.name: q for q in ia.parameters}
            for c in act["pre"]:
                ia.add_precondition(bx(c, a["name"], params, {}))
            for ef in act["effects"]:
                t = ef["f"]
                tgt = bx(E("fluent", t["args"], name=t["name"]), a["name"], params, {})
                ia.add_effect(tgt, bx(ef["v"], a["name"], params, {}), bx(ef["c"], a["name"], params, {}))
            ag.add_action(ia)
        p.add_agent(ag)
    for i in D["init"]:
        args = tuple(val(x) for x in i["args"])
        if i["agent"]:
            p.set_initial_value(em.Dot(agents[i["agent"]], em.FluentExp(agf[i["agent"]][i["f"]], args)), val(i["v"]))
        else:
            p.set_initial_value(em.FluentExp(envf[i["f"]], args), val(i["v"]))
    for g in D["goals"]:
        p.add_goal(bx(g, "", {}, {}))
    return p


# ----------------------------------------------------------------------------------------
# MultiAgentProblem -> MA-UPJ (structure only)
# ----------------------------------------------------------------------------------------
def p_fluent(f, default):
    return {"name": f.name, "type": upj.p_type(f.type),
            "sig": [{"name": s.name, "type": upj.p_type(s.type)} for s in f.signature],
            "default": upj.p_const(default) if default is not None else UNDEF}


def p_effect_ma(eff):
    if not eff.is_assignment():
        raise ValueError("unsupported effect kind %s" % eff.kind)
    fe = eff.fluent
    agent = ""
    if fe.is_dot():
        agent = fe.agent()
        fe = fe.arg(0)
    return {"kind": "assign",
            "f": {"name": fe.fluent().name, "args": [upj.p_expr(a) for a in fe.args], "agent": agent},
            "v": upj.p_expr(eff.value), "c": upj.p_expr(eff.condition),
            "forall": [{"name": v.name, "type": upj.p_type(v.type)} for v in eff.forall]}


def p_action_ma(a):
    from unified_planning.model import InstantaneousAction

    if not isinstance(a, InstantaneousAction):
        raise ValueError("unsupported action class %s" % type(a).__name__)
    return {"name": a.name, "kind": "inst",
            "params": [{"name": q.name, "type": upj.p_type(q.type)} for q in a.parameters],
            "pre": [upj.p_expr(c) for c in a.preconditions],
            "effects": [p_effect_ma(e) for e in a.effects],
            "conds": [], "dur": upj.NONE, "sim": a.simulated_effect is not None}


def p_ma(problem):
    M = {"name": problem.name or ""}
    M["types"] = [{"name": t.name, "parent": t.father.name if t.father is not None else ""} for t in problem.user_types]
    M["objects"] = [{"name": o.name, "type": o.type.name} for o in problem.all_objects]
    me = problem.ma_environment
    M["env"] = [p_fluent(f, me.fluents_defaults.get(f)) for f in me.fluents]
    M["agents"] = []
    for ag in problem.agents:
        M["agents"].append({
            "name": ag.name,
            "fluents": [p_fluent(f, ag.fluents_defaults.get(f)) for f in ag.fluents],
            "public": [f.name for f in ag.public_fluents],
            "actions": [p_action_ma(a) for a in ag.actions],
            "ngoals": len(ag.public_goals) + len(ag.private_goals),
        })
    M["goals"] = [upj.p_expr(g) for g in problem.goals]
    return M


SEP = "."


def keys_ma(M):
    """ground fluents of the flattened problem, [name, [argkeys]]; agent fluents are named agent.fluent
    (the same convention as MASem!QN) -- structure only"""
    out = []

    def doms(f):
        return [upj.objs_of(M, s["type"]["name"]) for s in f["sig"]]

    for f in M["env"]:
        for t in itertools.product(*doms(f)):
            out.append([f["name"], list(t)])
    for a in M["agents"]:
        for f in a["fluents"]:
            for t in itertools.product(*doms(f)):
                out.append([a["name"] + SEP + f["name"], list(t)])
    return out


def nstates(M):
    """number of total states over the ground fluents (product of the domain sizes; structure only)"""
    n = 1
    for f in M["env"] + [f for a in M["agents"] for f in a["fluents"]]:
        dom = 2 if f["type"]["k"] == "bool" else len(upj.objs_of(M, f["type"]["name"]))
        for s in f["sig"]:
            n *= dom ** len(upj.objs_of(M, s["type"]["name"])) // dom
        n *= dom
    return n


def init_vector(problem, M):
    """the REAL initial values, read through MultiAgentProblem.initial_value for every ground fluent"""
    em = problem.environment.expression_manager
    out = []

    def one(fl, args, agent):
        fe = em.FluentExp(fl, tuple(em.ObjectExp(problem.object(x)) for x in args))
        if agent is not None:
            fe = em.Dot(agent, fe)
        try:
            return upj.p_const(problem.initial_value(fe))
        except Exception:
            return UNDEF

    for f in problem.ma_environment.fluents:
        for t in itertools.product(*[upj.objs_of(M, s.type.name) for s in f.signature]):
            out.append(one(f, t, None))
    for ag in problem.agents:
        for f in ag.fluents:
            for t in itertools.product(*[upj.objs_of(M, s.type.name) for s in f.signature]):
                out.append(one(f, t, ag))
    return out


def ground_actions_ma(M):
    out = []
    for a in M["agents"]:
        for act in a["actions"]:
            doms = [[OV(x) for x in upj.objs_of(M, q["type"]["name"])] for q in act["params"]]
            for t in itertools.product(*doms):
                out.append({"agent": a["name"], "a": act["name"], "args": list(t)})
    return out


# ----------------------------------------------------------------------------------------
# one compilation by the real compiler
# ----------------------------------------------------------------------------------------
def _site(ex):
    tb = traceback.extract_tb(ex.__traceback__)
    for fr in reversed(tb):
        if "/unified_planning/" in fr.filename:
            return "%s:%s" % (fr.filename.split("/unified_planning/")[-1], fr.name)
    return "?"


EMPTY_M = {"name": "", "types": [], "objects": [], "env": [], "agents": [], "goals": []}
EMPTY_A = {"name": "", "kind": "inst", "params": [], "pre": [], "effects": [], "conds": [], "dur": upj.NONE, "sim": False}


_TAINTED = False  # this process saw an asynchronous ImplTimeout inside library code: its global state is suspect
LIMIT = 90  # seconds per phase; tiny problems take milliseconds, so only a looping mutant (or a dead machine) gets here


def compile_one(job):
    global _TAINTED
    cid, D, cname = job
    if _TAINTED:
        return {"cid": cid, "comp": cname, "D": D, "skip": "RETRY", "raised": "none", "detail": ""}
    import importlib
    from unified_planning.engines.mixins.compiler import CompilationKind
    from unified_planning.plans import ActionInstance

    rec = {"cid": cid, "comp": cname, "D": D, "MP": EMPTY_M, "MQ": EMPTY_M, "pkeys": [], "qkeys": [], "pinit": [], "qinit": [],
           "back": [], "skip": "", "raised": "none", "site": "", "detail": "", "nstates": 0}
    try:
        try:
            def _build():
                pb = build_ma(D)
                return pb, p_ma(pb)

            with time_limit(LIMIT):
                problem, MP = _build()
        except ImplTimeout:
            _TAINTED = True
            rec["skip"] = "build-timeout"
            return rec
        except Exception as ex:
            rec["skip"] = "build:%s:%s" % (type(ex).__name__, str(ex)[:200])
            return rec
        rec["MP"] = MP
        rec["pkeys"] = keys_ma(MP)
        rec["pinit"] = init_vector(problem, MP)
        mod, cls, kind = COMPILERS[cname]
        Cc = getattr(importlib.import_module(mod), cls)
        ckind = getattr(CompilationKind, kind)
        if not Cc.supports(problem.kind):
            rec["skip"] = "unsupported-kind"
            return rec
        try:
            with time_limit(LIMIT):
                res = Cc().compile(problem, ckind)
        except ImplTimeout:
            _TAINTED = True
            rec["raised"] = "TIMEOUT"
            return rec
        except Exception as ex:
            rec["raised"] = type(ex).__name__
            rec["site"] = _site(ex)
            rec["detail"] = str(ex)[:300]
            return rec
        q = res.problem
        try:
            MQ = p_ma(q)
        except Exception as ex:
            rec["raised"] = "PROJECT-" + type(ex).__name__
            rec["detail"] = str(ex)[:300]
            return rec
        rec["MQ"] = MQ
        rec["qkeys"] = keys_ma(MQ)
        rec["qinit"] = init_vector(q, MQ)
        rec["nstates"] = nstates(MQ)
        try:
            with time_limit(LIMIT):
                for g in ground_actions_ma(MQ):
                    ag = q.agent(g["agent"])
                    qa = ag.action(g["a"])
                    em = q.environment.expression_manager
                    ai = ActionInstance(qa, tuple(em.ObjectExp(q.object(x["o"])) for x in g["args"]), ag)
                    b = res.map_back_action_instance(ai)
                    # pag / pact: WHICH action object the instance maps back to -- the agent of the returned
                    # instance and the structure of the returned action (two agents may own different actions
                    # of one name; the name alone does not identify the action)
                    row = {"qa": g["agent"] + SEP + g["a"], "qargs": g["args"], "pa": "", "pargs": [], "pag": "", "pact": EMPTY_A}
                    if b is not None:
                        bag = b.agent.name if b.agent is not None else "?"
                        row["pa"] = bag + SEP + b.action.name
                        row["pargs"] = [upj.p_const(x) for x in b.actual_parameters]
                        row["pag"] = bag
                        row["pact"] = p_action_ma(b.action)
                    rec["back"].append(row)
        except ImplTimeout:
            _TAINTED = True
            rec["raised"] = "TIMEOUT-mapback"
        except Exception as ex:
            rec["raised"] = "MAPBACK-" + type(ex).__name__
            rec["site"] = _site(ex)
            rec["detail"] = str(ex)[:300]
        return rec
    except Exception as ex:
        rec["skip"] = "HARNESS:" + type(ex).__name__
        rec["detail"] = traceback.format_exc()[-1500:]
        return rec


# ----------------------------------------------------------------------------------------
# syntactic features of the ORIGINAL problem (signatures of known findings)
# ----------------------------------------------------------------------------------------
def _walk(e):
    yield e
    for a in e.get("args", []):
        yield from _walk(a)


DISJ = ("or", "implies", "iff")


def features(D):
    fs = set()
    if len(D["agents"]) > 1:
        fs.add("agents>1")
    for g in D["goals"]:
        if any(n["op"] in DISJ for n in _walk(g)):
            fs.add("disjgoal")
    byname = {}
    for a in D["agents"]:
        for act in a["actions"]:
            byname.setdefault(act["name"], []).append(act)
    if any(len(v) > 1 for v in byname.values()):
        fs.add("samename")
    ftype = {}
    for f in D["env"]:
        ftype[f["name"]] = f["type"]["k"]
    for a in D["agents"]:
        ft = dict(ftype)
        ft.update({f["name"]: f["type"]["k"] for f in a["fluents"]})
        for act in a["actions"]:
            na = [e["f"]["name"] for e in act["effects"] if ft[e["f"]["name"]] != "bool" and e["c"]["op"] != "const"]
            allna = [e["f"]["name"] for e in act["effects"] if ft[e["f"]["name"]] != "bool"]
            if any(allna.count(x) > 1 for x in na):
                fs.add("multicondassign")
            for e in act["effects"]:
                if any(n["op"] == "const" for n in _walk(e["c"])) and e["c"]["op"] != "const":
                    fs.add("constatom")
            for c in act["pre"]:
                if any(n["op"] == "const" for n in _walk(c)):
                    fs.add("constatom")
    for g in D["goals"]:
        if any(n["op"] == "const" for n in _walk(g)):
            fs.add("constatom")
    return sorted(fs)


RELEVANT = {
    "dangling-fluent-in-compiled-action": ["agents>1", "disjgoal"],
    "dangling-fluent-in-compiled-goal": ["disjgoal"],
    "variant-maps-back-to-foreign-action": ["samename"],
}


def signature(comp, clause, D, default=("multicondassign", "constatom")):
    rel = RELEVANT.get(clause, list(default))
    fs = [f for f in features(D) if f in rel]
    return "%s|%s%s" % (comp, clause, ("|" + ",".join(fs)) if fs else "")


# ----------------------------------------------------------------------------------------
# judge
# ----------------------------------------------------------------------------------------
SLIM = ("cid", "comp", "MP", "MQ", "pkeys", "qkeys", "pinit", "qinit", "back", "raised")


def judge(ctx, recs, label, workers=8):
    d = ctx.sub("judge-" + label)
    path = os.path.join(d, "batch.ndjson")
    tlc.write_ndjson(path, [{k: r[k] for k in SLIM} for r in recs])
    res = tlc.run_tlc("MASem", CFG, d, env={"BATCH": path}, timeout=6000, workers=workers, heap="12g")
    if res.error or res.violated:
        raise MachineryError("MASem failed: %s %s" % (res.violated, (res.error or "")[-3000:]))
    ctx.add_tlc("MASem-" + label, res)
    return res


def compile_all(jobs):
    """compile every job in a pool of 8 forked workers.  Everything heavy is initialised once in the parent
    and inherited: the global Environment (its Factory imports every engine module, tarski included -- under
    load that alone takes tens of seconds, and a time-out in the middle of THAT import leaves half-initialised
    modules behind) and the two compiler modules.  No problem is ever built in the parent.  A worker that saw
    an asynchronous ImplTimeout (raised inside library code, e.g. by a looping mutant) no longer trusts its
    global state: it hands its remaining jobs back (skip = RETRY) and they are compiled in fresh processes."""
    import importlib
    import unified_planning as up
    import unified_planning.plans  # noqa: F401
    import unified_planning.model.multi_agent  # noqa: F401

    up.environment.get_environment()
    for mod, _, _ in COMPILERS.values():
        importlib.import_module(mod)
    with Pool(8, maxtasksperchild=60) as pool:
        recs = pool.map(compile_one, jobs, chunksize=2)
    again = [i for i, r in enumerate(recs) if r["skip"] == "RETRY"]
    if again:
        with Pool(8, maxtasksperchild=1) as pool:
            redo = pool.map(compile_one, [jobs[i] for i in again], chunksize=1)
        for i, r in zip(again, redo):
            recs[i] = r
    return recs


def run(ctx):
    q = ctx.quick
    per = 22 if q else 90
    if os.environ.get("C37_PER"):  # development knob (smaller corpora on a busy machine); not part of the contract
        per = int(os.environ["C37_PER"])
    maxg = 8
    cap_states = 1100 if q else 2100
    jobs = []
    cid = 0
    for cname in COMPILERS:
        gens = [MAGen(ctx.rng, cname, max_ground=maxg, objfluent=0.0),
                MAGen(ctx.rng, cname, max_ground=maxg - 2, objfluent=0.25)]
        for i in range(per):
            cid += 1
            g = gens[1] if i % 4 == 3 else gens[0]
            jobs.append((cid, g.problem(), cname))
    # after the independent corpus (unchanged by this addition): name collisions between agents, small problems
    nsib = 12 if q else 45
    if os.environ.get("C37_SIB"):  # development knob
        nsib = int(os.environ["C37_SIB"])
    sib_ids = set()
    for cname in COMPILERS:
        g = MAGen(ctx.rng, cname, max_ground=6 if cname == "cerm" else 5, objfluent=0.0)
        for i in range(nsib):
            cid += 1
            sib_ids.add(cid)
            jobs.append((cid, g.problem(sibling=True), cname))
    recs = compile_all(jobs)
    stats = {c: {"generated": 0, "skipped": 0, "raised": 0, "judged": 0, "too-big": 0} for c in COMPILERS}
    batch = []
    for r in recs:
        s = stats[r["comp"]]
        s["generated"] += 1
        if r["skip"].startswith("HARNESS"):
            raise MachineryError("harness error: %s" % r["detail"])
        if r["skip"] == "unsupported-kind":
            s["skipped"] += 1
            continue
        if r["skip"]:
            # the generator's own problems must build (public API) within the generous limit
            raise MachineryError("problem %d could not be built / projected: %s" % (r["cid"], r["skip"]))
        if r["raised"] != "none":
            s["raised"] += 1
            batch.append(r)
            continue
        if r["nstates"] > cap_states or len(r["back"]) > 60:
            s["too-big"] += 1
            continue
        s["judged"] += 1
        batch.append(r)
    if os.environ.get("C37_SLICE"):  # development knob: judge every n-th compilation of the same corpus ("i/n")
        i, n = (int(x) for x in os.environ["C37_SLICE"].split("/"))
        batch = batch[i::n]
    if not any(r["raised"] == "none" for r in batch):
        raise MachineryError("no compilation succeeded")
    res = judge(ctx, batch, "all")
    # per compilation: the root state, the pseudo-state <<>> and every total state over the compiled ground fluents
    expected = sum((r["nstates"] if r["raised"] == "none" else 0) + 2 for r in batch)
    byid = {r["cid"]: r for r in batch}
    fails = {}
    zones = {}
    unjudged = set()
    for p in res.printed:
        if not p:
            continue
        if p[0] == "FAIL":
            _, c, clause, x = p
            fails.setdefault((c, clause), set()).add(x)
            if clause in ("unresolvable-fluent-reference", "original-ground-fluent-missing"):
                unjudged.add(c)
        elif p[0] == "Z":
            zones[p[2]] = zones.get(p[2], 0) + 1
    expected -= sum(byid[c]["nstates"] for c in unjudged)
    if res.distinct != expected:
        raise MachineryError("MASem judged %d states, expected %d" % (res.distinct, expected))
    for (c, clause), xs in sorted(fails.items()):
        r = byid[c]
        if clause == "generator-dangling-reference":
            raise MachineryError("the generator produced a dangling reference: %r" % sorted(xs))
        if clause == "compile-raises":
            sig = "%s|compile-raises|%s@%s" % (r["comp"], r["raised"], r["site"])
        else:
            sig = signature(r["comp"], clause, r["D"])
        ctx.violation(sig, "%s (%s): %s %s" % (clause, COMPILERS[r["comp"]][1], clause, sorted(xs)[:4]),
                      {"compiler": r["comp"], "clause": clause, "detail": sorted(xs), "description": r["D"],
                       "original": r["MP"], "compiled": r["MQ"], "back": r["back"], "raised": r["raised"],
                       "site": r["site"], "exc": r["detail"]})
    nz = sum(zones.values())
    ctx.cov["unspecified"] = nz
    ctx.cov["zones"] = zones
    ctx.cov["per_compiler"] = stats
    judged = [r for r in batch if r["raised"] == "none"]
    ctx.cov["evaluations"] = sum(r["nstates"] * len([b for b in r["back"]]) for r in judged)
    ctx.cov["traces_validated_against_impl"] = len(judged)

    def split(r):  # some original ground action has several variants
        seen = [(b["pa"], tuple(x["o"] for x in b["pargs"])) for b in r["back"] if b["pa"]]
        return len(set(seen)) < len(seen)

    nsplit = {c: sum(1 for r in judged if r["comp"] == c and split(r)) for c in COMPILERS}
    naux = sum(1 for r in judged if len(r["qkeys"]) > len(r["pkeys"]))
    ctx.cov["distinct_nontrivial"] = sum(1 for r in judged if split(r) or len(r["qkeys"]) > len(r["pkeys"]))
    ctx.cov["with_split_actions"] = nsplit
    ctx.cov["with_auxiliary_fluents"] = naux

    def samename(r, equal):  # two agents own an action of one name with equal / different definitions (structure of MP)
        seen = {}
        for a in r["MP"]["agents"]:
            for act in a["actions"]:
                seen.setdefault(act["name"], []).append(act)
        return any(len(v) > 1 and (all(x == v[0] for x in v) == equal) for v in seen.values())

    nsame = {c: {"different": sum(1 for r in judged if r["comp"] == c and samename(r, False)),
                 "equal": sum(1 for r in judged if r["comp"] == c and samename(r, True))} for c in COMPILERS}
    ctx.cov["same_named_actions_in_two_agents"] = nsame
    nsib_j = {c: sum(1 for r in judged if r["comp"] == c and r["cid"] in sib_ids and samename(r, False)) for c in COMPILERS}
    ctx.cov["sibling_corpus"] = {"judged": sum(1 for r in judged if r["cid"] in sib_ids), "same_name_different_definition": nsib_j}
    if nsib and min(nsib_j.values()) == 0:
        raise MachineryError("vacuous sibling corpus: no two agents with same-named, differently defined actions: %r" % nsib_j)
    # vacuity: the run must contain split actions for both removers and the fake-goal mechanism
    if min(nsplit.values()) == 0 or naux == 0:
        raise MachineryError("vacuous corpus: split actions per compiler %r, compilations with auxiliary fluents %d" % (nsplit, naux))
    ctx.cov["exhaustive"] = True
    ctx.cov["rule"] = (
        "per compiler %d generated 2-agent problems (<= %d ground fluents, every 4th with object-valued fluents), compiled by "
        "the real MA remover; one evaluation = one (state, compiled ground action) pair: ALL total states over the compiled "
        "problem's ground fluents (<= %d per compilation; all of them, generated by TLC as the successors of one root state per "
        "compilation, not only the reachable ones) are judged by MASem!Verdict; "
        "non-trivial = the compilation split some action into several variants or introduced auxiliary fluents.  "
        "Plus per compiler %d 'sibling' problems (<= 6 / 5 ground fluents): the agents own same-named actions that are "
        "near-copies of each other, and unconditional actions that are one branch of the other agent's conditional action "
        "under a fresh-looking name; the map-back table records which action OBJECT (structure) each variant maps back to."
        % (per, maxg, cap_states, nsib)
    )
    ex = next((r for r in judged if len(r["back"]) > 4), judged[0])
    ctx.sample({"compiler": ex["comp"], "original_agents": [{"name": a["name"], "fluents": [f["name"] for f in a["fluents"]],
                                                              "actions": [x["name"] for x in a["actions"]]} for a in ex["MP"]["agents"]],
                "goals": ex["MP"]["goals"], "back": ex["back"][:8], "states": ex["nstates"]})
    ctx.assumptions += [
        "TLC and the CommunityModules Json reader are trusted; the driver's projection p_ma transcribes structure only",
        "the multi-agent scoping rule is the one stated in spec/MASem.tla (own fluent, else environment fluent; Dot(agent, f))",
        "Boolean and object-valued fluents over 2 objects, instantaneous actions; agent-specific goals are outside the removers' supported kind",
        "variants without effects may be dropped (DESIGN.md 7.1-8): counted as zone 'noop'",
    ]


# ----------------------------------------------------------------------------------------
# replay of one recorded violation; self-test of the binding (DESIGN.md 7.3)
# ----------------------------------------------------------------------------------------
def _fails(res):
    out = {}
    for p in res.printed:
        if p and p[0] == "FAIL":
            out.setdefault(p[1], set()).add(p[2])
    return out


def replay(ctx, doc):
    d = doc["data"]
    r = compile_one((1, d["description"], d["compiler"]))
    if r["skip"]:
        raise MachineryError("replay: %s" % r["skip"])
    res = judge(ctx, [r], "replay")
    fs = _fails(res).get(1, set())
    for c in sorted(fs):
        print("REPLAY property=C37 clause=%s compiler=%s" % (c, d["compiler"]))
    print("replay: %d clause(s) violated" % len(fs))
    return 1 if fs else 0


def selftest(ctx):
    """corrupt one recorded field at a time and show that MASem rejects the record with the expected clause"""
    import copy

    recs = []
    for cname in COMPILERS:
        g = MAGen(ctx.rng, cname, max_ground=5)
        tries = 0
        while tries < 200:
            tries += 1
            r = compile_one((len(recs) + 1, g.problem(), cname))
            if r["skip"] or r["raised"] != "none":
                continue
            split = len({b["pa"] for b in r["back"] if b["pa"]}) < len([b for b in r["back"] if b["pa"]])
            aux = len(r["qkeys"]) > len(r["pkeys"])
            if split and (cname == "cerm" or aux):
                recs.append(r)
                break
    if len(recs) != 2:
        raise MachineryError("selftest: no suitable compilation generated")
    # whether a missing reset of the fake-goal fluents shows depends on the problem (some action must
    # falsify a goal disjunct): that corruption is tried on several compilations, one rejection suffices
    more = []
    tries = 0
    while len(more) < 5 and tries < 400:
        tries += 1
        r = compile_one((100 + tries, g.problem(), "dcrm"))
        if not r["skip"] and r["raised"] == "none" and len(r["qkeys"]) > len(r["pkeys"]):
            more.append(r)
    cases = []  # (record, expected clause or None)

    def variant(base, expect, fn):
        r = copy.deepcopy(base)
        r["cid"] = len(cases) + 1
        fn(r)
        cases.append((r, expect))

    for base in recs:
        variant(base, None, lambda r: None)

        def wrong_back(r):
            row = next(b for b in r["back"] if b["pa"])
            row["pa"] = row["pa"] + "_missing"
        variant(base, "variant-maps-back-to-unknown-action", wrong_back)

        def foreign_back(r):  # right name, but not the definition of the action this agent owns
            row = next(b for b in r["back"] if b["pa"])
            row["pact"] = copy.deepcopy(row["pact"])
            row["pact"]["pre"] = row["pact"]["pre"] + [C(True)]
        variant(base, "variant-maps-back-to-foreign-action", foreign_back)

        def foreign_agent(r):  # the returned instance belongs to the other agent, which owns no such action object
            row = next(b for b in r["back"] if b["pa"])
            row["pag"] = next(a["name"] for a in r["MP"]["agents"] if row["pact"] not in a["actions"]) if any(
                row["pact"] not in a["actions"] for a in r["MP"]["agents"]) else "nobody"
        variant(base, "variant-maps-back-to-foreign-action", foreign_agent)

        def flip_init(r):
            i = next(i for i, k in enumerate(r["qkeys"]) if k in r["pkeys"] and r["qinit"][i]["k"] == "b")
            r["qinit"][i] = BV(not r["qinit"][i]["b"])
        variant(base, "initial-state-differs", flip_init)

        def drop_object(r):
            r["MQ"]["objects"] = r["MQ"]["objects"] + [{"name": "extra", "type": "T"}]
        variant(base, "objects-differ", drop_object)

        def drop_goal(r):
            r["MQ"]["goals"] = []
        variant(base, "goal-compiled-holds-original-not", drop_goal)

        def drop_effects(r):
            for a in r["MQ"]["agents"]:
                for act in a["actions"]:
                    if any(b["qa"] == a["name"] + SEP + act["name"] and b["pa"] for b in r["back"]):
                        act["effects"] = [e for e in act["effects"] if "fake" in e["f"]["name"]]
        variant(base, "variant-successor-differs", drop_effects)

        def drop_pre(r):
            for a in r["MQ"]["agents"]:
                for act in a["actions"]:
                    act["pre"] = []
        variant(base, "variant-applicable-original-not" if base["comp"] == "dcrm" else "several-variants-applicable", drop_pre)

        def drop_variants(r):
            keep = {}
            for b in r["back"]:
                if b["pa"]:
                    keep.setdefault((b["pa"], tuple(x["o"] for x in b["pargs"])), b["qa"])
            gone = {b["qa"] for b in r["back"] if b["pa"] and keep[(b["pa"], tuple(x["o"] for x in b["pargs"]))] != b["qa"]}
            for a in r["MQ"]["agents"]:
                a["actions"] = [act for act in a["actions"] if a["name"] + SEP + act["name"] not in gone]
            r["back"] = [b for b in r["back"] if b["qa"] not in gone]
        variant(base, "original-applicable-no-variant", drop_variants)

        def raised(r):
            r["raised"] = "SomeError"
        variant(base, "compile-raises", raised)
        if base["comp"] == "dcrm":
            def no_reset(r):
                for a in r["MQ"]["agents"]:
                    for act in a["actions"]:
                        if any(b["qa"] == a["name"] + SEP + act["name"] and b["pa"] for b in r["back"]):
                            act["effects"] = [e for e in act["effects"] if "fake" not in e["f"]["name"]]
            for m in [base] + more:
                variant(m, "variant-leaves-aux-unjustified*", no_reset)

            def aux_true(r):  # the auxiliary (fake-goal) actions can never fire
                for a in r["MQ"]["agents"]:
                    for act in a["actions"]:
                        if not any(b["qa"] == a["name"] + SEP + act["name"] and b["pa"] for b in r["back"]):
                            act["pre"] = [C(False)]
            variant(base, "goal-original-holds-compiled-unreachable", aux_true)

            def aux_writes(r):  # a fake-goal action also sets an environment fluent
                f = r["MQ"]["env"][0]
                for a in r["MQ"]["agents"]:
                    for act in a["actions"]:
                        if not any(b["qa"] == a["name"] + SEP + act["name"] and b["pa"] for b in r["back"]):
                            act["effects"].append({"kind": "assign", "forall": [], "v": C(True), "c": C(True),
                                                   "f": {"name": f["name"], "args": [E("obj", name="o1") for _ in f["sig"]], "agent": ""}})
            variant(base, "auxiliary-action-changes-original-fluent", aux_writes)
    res = judge(ctx, [c[0] for c in cases], "selftest")
    got = _fails(res)
    bad = 0
    tolerated = {"dangling-fluent-in-compiled-action", "dangling-fluent-in-compiled-goal"}
    anyof = any(e and e.endswith("*") and e[:-1] in got.get(r["cid"], set()) for r, e in cases)
    for r, expect in cases:
        fs = got.get(r["cid"], set())
        if expect is None:
            ok = not (fs - tolerated)
        elif expect.endswith("*"):
            ok = anyof
        else:
            ok = expect in fs
        print("selftest %-4s %-45s -> %s %s" % (r["comp"], expect or "(uncorrupted)", "ok" if ok else "MISSED", sorted(fs - tolerated)))
        bad += 0 if ok else 1
    print("selftest: %d corrupted records, %d not rejected as expected" % (len(cases), bad))
    return 0 if bad == 0 else 2
