"""C29 -- durative-to-processes plan conversions are mutually inverse.

spec/PlanConvProc.tla states the conversions declaratively (plans as bags of timed instances with exact
rationals; compiled plans as bags of timed start / first-end events; the k-th end event of an instance
belongs to its k-th start) and the property: Back(Forward(p)) = p, every end event in (start, start+duration].

T1  spec/PlanConvProcEnum.tla: TLC builds EVERY plan of <= L steps over the ground actions of one small
    problem (instantaneous, constant / static-fluent / parameter-dependent fixed durations, two
    variable-duration actions) and checks the design theorem on each (and that it fails outside the zone).
T2  the same enumerated plans are replayed on the real compiler result (plan_forward_conversion, then
    plan_back_conversion) and judged by spec/PlanConvProcJudge.tla.
T3  TGen temporal problems inside the compiler's supported kind (fixed-duration corpora, with a
    parameter-dependent variant, and mixed fixed/variable corpora) x seeded plans with duplicates, identical
    start times, overlapping and separated repetitions of one instance; same replay, same judge.
Python builds, calls and projects; every verdict (and the zone of the property) is a TLA+ definition.
"""
import copy
import os
import random
import re
from fractions import Fraction
from multiprocessing import Pool

from .. import tlc, upj
from ..common import MachineryError, ImplTimeout, call_limited
from ..gen import TGen, random_tt_plan, ground_actions, const_num, T, num
from ..upj import E, NV, BV, OV, NONE, UNDEF, TRUE_E

F = Fraction
NOMETRIC = {"kind": "none", "costs": [], "default": E("none"), "expr": E("none"), "goals": []}


# ----------------------------------------------------------------------------------------
# inputs
# ----------------------------------------------------------------------------------------
def _eff(kind, fname, args, v):
    return {"kind": kind, "f": {"name": fname, "args": args}, "v": v, "c": TRUE_E, "forall": []}


def _iv(lo, hi, lopen=False, ropen=False):
    return {"lo": lo, "hi": hi, "lopen": lopen, "ropen": ropen}


def small_problem():
    """the problem of the exhaustive tier: every kind of duration the compiler distinguishes"""
    tT = {"k": "user", "name": "T"}
    real = {"k": "real", "lo": NONE, "hi": NONE}
    P = {"name": "c29small", "types": [{"name": "T", "parent": ""}],
         "objects": [{"name": "o0", "type": "T"}, {"name": "o1", "type": "T"}],
         "fluents": [
             {"name": "b0", "type": {"k": "bool"}, "sig": [], "default": BV(False)},
             {"name": "n0", "type": real, "sig": [], "default": NV(0)},
             {"name": "sd", "type": real, "sig": [{"name": "x", "type": tT}], "default": UNDEF},
         ],
         "init": [{"f": "sd", "args": [OV("o0")], "v": NV(1)}, {"f": "sd", "args": [OV("o1")], "v": NV(F(3, 2))}],
         "goals": [E("fluent", [], name="b0")], "invariants": [], "traj": [], "timed_goals": [], "timed_effects": [],
         "metric": NOMETRIC, "nmetrics": 0, "ifuns": []}
    pT = [{"name": "p", "type": tT}]
    pk = [{"name": "k", "type": {"k": "int", "lo": NV(1), "hi": NV(2)}}]
    b0 = E("fluent", [], name="b0")
    sdp = E("fluent", [E("param", name="p")], name="sd")
    khalf = E("div", [E("param", name="k"), num(2)])

    def dur(name, params, lo, hi, effects, conds=(), lopen=False, ropen=False):
        return {"name": name, "kind": "dur", "params": params, "pre": [], "effects": list(effects), "conds": list(conds),
                "dur": {"lo": lo, "hi": hi, "lopen": lopen, "ropen": ropen}, "sim": False}

    P["actions"] = [
        {"name": "i0", "kind": "inst", "params": [], "pre": [], "effects": [_eff("assign", "b0", [], E("const", v=BV(True)))],
         "conds": [], "dur": NONE, "sim": False},
        dur("c0", [], num(1), num(1), [{"t": T("end"), "e": _eff("assign", "b0", [], E("const", v=BV(False)))}]),
        dur("f0", pT, sdp, sdp, [{"t": T("start"), "e": _eff("inc", "n0", [], num(1))}],
            conds=[{"iv": _iv(T("start"), T("end")), "c": b0}]),
        dur("g0", pk, khalf, khalf, [{"t": T("end"), "e": _eff("dec", "n0", [], num(1))}]),
        dur("v0", pT, num(1), num(2), [{"t": T("end", -F(1, 2)), "e": _eff("assign", "b0", [], E("const", v=BV(True)))}]),
        dur("v1", [], num(F(1, 2)), num(F(3, 2)), [{"t": T("end"), "e": _eff("inc", "n0", [], num(F(1, 2)))}], lopen=True),
    ]
    return P


MASK = dict(conditional=False, quantifiers=False, forall_eff=False, invariants=False, timed=True, undefined=True,
            hier=True, fluent_durations=False)

SHAPES = ["id", "plus", "times", "div", "twice"]


def _shape(kind, base_expr, base_val):
    """a duration expression over `base_expr` and the value the generator gives it (never a verdict:
    the judge recomputes the fixed duration from the expression and discards the plan if they differ)"""
    if kind == "id":
        return base_expr, base_val
    if kind == "plus":
        return E("plus", [base_expr, num(F(1, 2))]), base_val + F(1, 2)
    if kind == "times":
        return E("times", [base_expr, num(F(1, 2))]), base_val * F(1, 2)
    if kind == "div":
        return E("div", [base_expr, num(2)]), base_val / 2
    return E("times", [num(2), base_expr]), 2 * base_val


def param_durations(rng, P):
    """post-processing of a fixed-duration problem: durations that depend on the actual parameters, through a
    bounded integer parameter or through a static numeric fluent of an object parameter.
    Returns {action name: function(args) -> Fraction | None}."""
    from ..upj import objs_of

    table = {}
    nga = len(ground_actions(P))
    for a in P["actions"]:
        if a["kind"] != "dur" or a["dur"]["lo"] != a["dur"]["hi"] or a["dur"]["lopen"] or a["dur"]["ropen"]:
            continue
        r = rng.random()
        uparams = [p for p in a["params"] if p["type"]["k"] == "user"]
        sh = rng.choice(SHAPES)
        if r < 0.4 and nga <= 12:
            hi = rng.choice([2, 2, 3])
            idx = len(a["params"])
            a["params"].append({"name": "kdur", "type": {"k": "int", "lo": NV(1), "hi": NV(hi)}})
            ex, _ = _shape(sh, E("param", name="kdur"), F(1))
            a["dur"]["lo"] = ex
            a["dur"]["hi"] = copy.deepcopy(ex)
            table[a["name"]] = ("int", idx, sh)
            nga += hi
        elif r < 0.8 and uparams:
            p = rng.choice(uparams)
            tn = p["type"]["name"]
            fname = "sdur_" + tn
            if not any(f["name"] == fname for f in P["fluents"]):
                dflt = rng.choice([UNDEF, UNDEF, NV(1), NV(F(3, 2))])
                P["fluents"].append({"name": fname, "type": {"k": "real", "lo": NONE, "hi": NONE},
                                     "sig": [{"name": "x", "type": {"k": "user", "name": tn}}], "default": dflt})
                for o in objs_of(P, tn):
                    if dflt["k"] != "u" and rng.random() < 0.3:
                        continue
                    if dflt["k"] == "u" and rng.random() < 0.05:
                        continue  # no value at all: the action has no fixed duration for this object (outside the zone)
                    P["init"].append({"f": fname, "args": [OV(o)], "v": NV(rng.choice([F(1, 2), 1, F(3, 2), 2, 3, F(2, 3)]))})
            ex, _ = _shape(sh, E("fluent", [E("param", name=p["name"])], name=fname), F(1))
            a["dur"]["lo"] = ex
            a["dur"]["hi"] = copy.deepcopy(ex)
            table[a["name"]] = ("static", [q["name"] for q in a["params"]].index(p["name"]), sh, fname)
    return table


def gen_duration(P, table, a, args):
    """the duration the generator intends for a step of fixed-duration action a (None: no such value)"""
    info = table.get(a["name"])
    if info is None:
        return const_num(a["dur"]["lo"])
    if info[0] == "int":
        return _shape(info[2], None, F(args[info[1]]["n"]))[1]
    obj = args[info[1]]["o"]
    fname = info[3]
    for i in P["init"]:
        if i["f"] == fname and i["args"][0]["o"] == obj:
            return _shape(info[2], None, F(i["v"]["n"], i["v"]["d"]))[1]
    f = next(f for f in P["fluents"] if f["name"] == fname)
    if f["default"]["k"] == "n":
        return _shape(info[2], None, F(f["default"]["n"], f["default"]["d"]))[1]
    return None


def tame_variable(rng, P):
    """the compiler itself asserts on most variable-duration actions with a durative condition reaching `end`
    (outside this property): drop most of those conditions so that mixed problems reach the conversions"""
    for a in P["actions"]:
        if a["kind"] == "dur" and not is_fixed(a):
            a["conds"] = [c for c in a["conds"] if (c["iv"]["lo"] == c["iv"]["hi"]) or
                          "end" not in (c["iv"]["lo"]["from"], c["iv"]["hi"]["from"]) or rng.random() < 0.15]


def interleaved(P, steps):
    """syntactic input feature: two different ground instances of one variable-duration action overlap in time"""
    acts = {a["name"]: a for a in P["actions"]}
    iv = []
    for s in steps:
        if acts[s["a"]]["kind"] == "dur" and not is_fixed(acts[s["a"]]):
            t = F(s["t"]["n"], s["t"]["d"])
            iv.append((s["a"], repr(s["args"]), t, t + F(s["d"]["n"], s["d"]["d"])))
    return any(x[0] == y[0] and x[1] != y[1] and x[2] < y[3] and y[2] < x[3] for x in iv for y in iv)


GRID = [0, 0, F(1, 2), 1, 1, F(3, 2), 2, 3, F(1, 3), F(7, 4)]


def is_fixed(a):
    return a["kind"] == "dur" and a["dur"]["lo"] == a["dur"]["hi"] and not a["dur"]["lopen"] and not a["dur"]["ropen"]


def gen_plan(rng, P, table, maxlen):
    """seeded plan: random steps, then repetitions of one instance (identical copies, same start, overlapping,
    touching, strictly later), listed in random order.  Fixed-duration steps carry the action's duration."""
    acts = {a["name"]: a for a in P["actions"]}
    steps = random_tt_plan(rng, P, maxlen)
    if not steps:
        return []
    for st in steps:
        st["t"] = NV(rng.choice(GRID))
    gas = ground_actions(P)
    for _ in range(rng.choice([0, 1, 1, 2])):
        base = rng.choice(steps)
        st = copy.deepcopy(base)
        t0, d0 = F(base["t"]["n"], base["t"]["d"]), F(base["d"]["n"], base["d"]["d"])
        var = acts[st["a"]]["kind"] == "dur" and not is_fixed(acts[st["a"]])
        hows = ["copy", "same-start", "inside", "touch", "later", "later", "earlier", "other-args", "other-args"]
        if var:
            hows += ["later", "later", "earlier", "other-args"]
        how = rng.choice(hows)
        if how == "other-args":
            others = [g for g in gas if g["a"] == st["a"] and g["args"] != st["args"]]
            if others:
                st["args"] = rng.choice(others)["args"]
            how = rng.choice(["same-start", "inside", "inside"])
        if how == "inside":
            st["t"] = NV(t0 + d0 / 2)
        elif how == "touch":
            st["t"] = NV(t0 + d0)
        elif how == "later":
            st["t"] = NV(t0 + d0 + rng.choice([F(1, 2), 1, F(1, 4)]))
        elif how == "earlier":
            st["t"] = NV(max(F(0), t0 - d0 - rng.choice([F(1, 2), 1])))
        if how != "copy" and var:
            st["d"] = NV(F(st["d"]["n"], st["d"]["d"]) + rng.choice([0, 0, F(1, 2), 1]))
        steps.append(st)
    for st in steps:
        a = acts[st["a"]]
        if is_fixed(a):
            d = gen_duration(P, table, a, st["args"])
            st["d"] = NV(d if d is not None else 1)
    rng.shuffle(steps)
    return steps


# ----------------------------------------------------------------------------------------
# the real code
# ----------------------------------------------------------------------------------------
def _exc(ex):
    return type(ex).__name__


def project_plan(plan, key):
    out = []
    for t, ai, d in plan.timed_actions:
        out.append({"t": NV(t), key: ai.action.name, "args": [upj.p_const(x) for x in ai.actual_parameters],
                    "d": NONE if d is None else NV(d)})
    return out


def compile_problem(P, fresh_env=False):
    """-> (problem, result, skip reason); fresh_env: the problem lives in its own Environment"""
    import unified_planning as up
    from unified_planning.engines import CompilationKind
    from unified_planning.engines.compilers.durative_actions_to_processes import DurativeActionToProcesses
    from unified_planning.shortcuts import Compiler

    try:
        # (a new Environment per attempt: an interrupted attempt must not leave anything behind)
        problem = call_limited(lambda: upj.build(P, up.environment.Environment() if fresh_env else None), 60, 10)
    except ImplTimeout:
        return None, None, "build-timeout"
    except Exception as ex:
        return None, None, "build:" + _exc(ex) + ":" + str(ex)[:120]
    if not DurativeActionToProcesses.supports(problem.kind):
        return None, None, "unsupported-kind"

    def comp():
        with Compiler(problem_kind=problem.kind, compilation_kind=CompilationKind.DURATIVE_ACTIONS_TO_PROCESSES) as c:
            return c.compile(problem, CompilationKind.DURATIVE_ACTIONS_TO_PROCESSES)

    try:
        res = call_limited(comp, 60, 10)
    except ImplTimeout:
        return None, None, "compile-timeout"
    except Exception as ex:
        return None, None, "compile:" + _exc(ex) + ":" + str(ex)[:120]
    if res.plan_forward_conversion is None or res.plan_back_conversion is None:
        return None, None, "compile:no-conversion"
    return problem, res, ""


def convert(problem, res, steps, rng=None):
    """one plan through the real conversions; returns the judged record.  back2: the back conversion of the same
    forward plan with its timed actions listed in another (seeded) order -- a plan is a bag"""
    from unified_planning.plans import TimeTriggeredPlan
    from ..timeobs import build_tt_plan

    rec = {"steps": steps, "fwd": {"exc": "", "ev": []}, "back": {"exc": "not-run", "items": []},
           "back2": {"exc": "not-run", "items": []}}
    plan = build_tt_plan(problem, steps)
    try:
        fw = call_limited(lambda: res.plan_forward_conversion(plan), 10)
        rec["fwd"]["ev"] = project_plan(fw, "c")
    except ImplTimeout:
        rec["fwd"]["exc"] = "TIMEOUT"
        return rec
    except Exception as ex:
        rec["fwd"]["exc"] = _exc(ex)
        return rec
    try:
        bk = call_limited(lambda: res.plan_back_conversion(fw), 10)
        rec["back"] = {"exc": "", "items": project_plan(bk, "a")}
    except ImplTimeout:
        rec["back"]["exc"] = "TIMEOUT"
    except Exception as ex:
        rec["back"]["exc"] = _exc(ex)
    try:
        tas = list(fw.timed_actions)
        (rng or random.Random(len(tas))).shuffle(tas)
        fw2 = TimeTriggeredPlan(tas, fw.environment)
        bk2 = call_limited(lambda: res.plan_back_conversion(fw2), 10)
        rec["back2"] = {"exc": "", "items": project_plan(bk2, "a")}
    except ImplTimeout:
        rec["back2"]["exc"] = "TIMEOUT"
    except Exception as ex:
        rec["back2"]["exc"] = _exc(ex)
    return rec


def worker(job):
    pid, P, table, nplans, maxlen, seed, given = job
    rng = random.Random(seed)
    rec = {"pid": pid, "P": P, "keys": upj.keys_of(P), "plans": [], "skip": ""}
    problem, res, skip = compile_problem(P, fresh_env=(seed % 2 == 1))
    if skip:
        rec["skip"] = skip
        return rec
    if given is not None:
        plans = given
    else:
        plans, seen = [], set()
        for _ in range(nplans):
            steps = gen_plan(rng, P, table, maxlen)
            if not steps or repr(steps) in seen:
                continue
            seen.add(repr(steps))
            plans.append(steps)
    for steps in plans:
        rec["plans"].append(convert(problem, res, steps, rng))
    return rec


# ----------------------------------------------------------------------------------------
# judging
# ----------------------------------------------------------------------------------------
def features(P, steps):
    acts = {a["name"]: a for a in P["actions"]}
    fs = set()
    for st in steps:
        a = acts[st["a"]]
        if a["kind"] == "dur":
            if not is_fixed(a):
                fs.add("variable-duration")
            elif a["dur"]["lo"]["op"] != "const":
                fs.add("param-duration")
    return sorted(fs)


CHUNK = 40
ENUM_PID = 900001


def judge(ctx, label, batch):
    d = ctx.sub("judge-" + label)
    path = os.path.join(d, "batch.ndjson")
    rows = []
    for r in batch:
        for off in range(0, len(r["plans"]), CHUNK):
            rows.append({"pid": r["pid"], "off": off, "P": r["P"], "keys": r["keys"], "plans": r["plans"][off:off + CHUNK]})
    tlc.write_ndjson(path, rows)
    res = tlc.run_tlc("PlanConvProcJudge", "SPECIFICATION Spec\nINVARIANT Judge\n", d, env={"BATCH": path}, workers=8, timeout=3000)
    if res.error or res.violated:
        raise MachineryError("PlanConvProcJudge failed on %s: %s %s" % (label, res.violated, res.error))
    total = sum(len(r["plans"]) for r in batch)
    done = sum(p[3] for p in res.printed if p and p[0] == "DONE")
    if res.distinct != 2 * len(rows) or done != total:
        raise MachineryError("judge consumed %d states / %d plans, expected %d / %d" % (res.distinct, done, 2 * len(rows), total))
    ctx.add_tlc("judge-" + label, res)
    byid = {r["pid"]: r for r in batch}
    unspec = set()
    failed = set()
    for p in res.printed:
        if not p:
            continue
        if p[0] == "SPECBAD":
            raise MachineryError("the specification contradicts itself on problem %s plan %s" % (p[1], p[2]))
        if p[0] == "U":
            unspec.add((p[1], p[2]))
            ctx.notes.setdefault("zone", {}).setdefault(p[3], 0)
            ctx.notes["zone"][p[3]] += 1
        elif p[0] == "FAIL":
            _, pid, pi, clause, as_model = p
            r = byid[pid]
            pl = r["plans"][pi - 1]
            feats = features(r["P"], pl["steps"])
            failed.add((pid, pi))
            ctx.violation(
                clause + ("|" + ",".join(feats) if feats else "|fixed-constant"),
                "C29 %s (plan of %d steps, %s)" % (clause, len(pl["steps"]), ",".join(feats) or "constant fixed durations"),
                {"clause": clause, "forward_plan_as_specified": as_model, "features": feats, "problem": r["P"], "plan": pl},
            )
    ctx.cov["unspecified"] += len(unspec)
    judged = total - len(unspec)
    ctx.cov["evaluations"] += judged
    ctx.cov["traces_validated_against_impl"] += judged
    return unspec


def run(ctx):
    q = ctx.quick
    sp = small_problem()
    keys = upj.keys_of(sp)
    # ---- T1 + G1: the exhaustive small scope --------------------------------------------
    d = ctx.sub("enum")
    p0 = os.path.join(d, "p0.json")
    tlc.write_json(p0, {"P": sp, "keys": keys})
    out = os.path.join(d, "plans.ndjson")
    scopes = [dict(L=2, NTimes=3)] if q else [dict(L=2, NTimes=4), dict(L=3, NTimes=2)]
    enumerated = []
    for k, sc in enumerate(scopes):
        # T1 must hold on every plan; in the first scope AlwaysRoundTrip must FAIL (outside the zone the forward plan does
        # not determine the original plan: otherwise the zone would be an arbitrary restriction); -continue reports both
        cfg = "SPECIFICATION Spec\nCONSTANTS L = %(L)d\n NTimes = %(NTimes)d\nINVARIANT T1\n" % sc
        if k == 0:
            cfg += "INVARIANT AlwaysRoundTrip\n"
        res = tlc.run_tlc("PlanConvProcEnum", cfg, d, env={"P0": p0, "OUT": out}, workers=8, timeout=3000, continue_=(k == 0))
        bad = set(re.findall(r"Invariant (\S+) is violated", res.stdout))
        if res.error and not bad:
            raise MachineryError(res.error)
        ctx.add_tlc("T1 %r" % (sc,), res)
        if "T1" in bad:
            ctx.violation("T1|design", "the specification's Back(Forward(p)) is not p inside the zone (design-level counterexample)",
                          {"scope": sc, "stdout": res.stdout[-3000:]})
        if k == 0 and "AlwaysRoundTrip" not in bad:
            raise MachineryError("expected counterexamples to AlwaysRoundTrip outside the zone in scope %r" % (sc,))
        plans = [r["steps"] for r in tlc.read_ndjson(out)]
        em = [p for p in res.printed if p and p[0] == "EMITTED"]
        if not em or em[0][1] != len(plans) or res.distinct != len(plans) + em[0][2]:
            raise MachineryError("enumeration inconsistent: %r / %d plans / %d states" % (em, len(plans), res.distinct))
        enumerated.append((sc, plans))
    # ---- T2: the enumerated plans on the real conversions ---------------------------------
    erecs = []
    for i, (sc, plans) in enumerate(enumerated):
        chunks = [plans[j:j + 200] for j in range(0, len(plans), 200)]
        jobs = [(0, sp, {}, 0, 0, k, ch) for k, ch in enumerate(chunks)]
        with Pool(8, maxtasksperchild=20) as pool:
            recs = pool.map(worker, jobs, chunksize=1)
        if any(r["skip"] for r in recs):
            raise MachineryError("the small problem cannot be compiled: %r" % sorted({r["skip"] for r in recs}))
        rec = {"pid": ENUM_PID + i, "P": sp, "keys": keys, "plans": [pl for r in recs for pl in r["plans"]]}
        if len(rec["plans"]) != len(plans):
            raise MachineryError("lost enumerated plans")
        erecs.append(rec)
    # ---- T3: generated problems x seeded plans ---------------------------------------------
    n = 300 if q else 2000
    nplans = 10 if q else 20
    rng = ctx.rng
    corpus = []
    gens = [
        ("fixed", TGen(rng, fixed_durations=True, objfluents=False, **MASK)),
        ("fixed-param", TGen(rng, fixed_durations=True, objfluents=False, **MASK)),
        ("fixed-param", TGen(rng, fixed_durations=True, objfluents=False, inst_actions=False, max_objects=3, **MASK)),
        ("mixed", TGen(rng, fixed_durations=False, objfluents=False, **MASK)),
        ("mixed", TGen(rng, fixed_durations=False, objfluents=False, inst_actions=False, **MASK)),
        ("fixed-objfl", TGen(rng, fixed_durations=True, objfluents=True, **MASK)),
    ]
    for i in range(n):
        tag, g = gens[i % len(gens)]
        P = g.problem()
        P["timed_goals"] = []  # not in the compiler's supported kind
        table = param_durations(rng, P) if tag == "fixed-param" else {}
        if tag == "mixed":
            tame_variable(rng, P)
        corpus.append((tag, P, table))
    jobs = [(i + 1, P, table, nplans, 4 if q else 5, ctx.seed * 7919 + i, None) for i, (tag, P, table) in enumerate(corpus)]
    with Pool(8, maxtasksperchild=40) as pool:
        recs = pool.map(worker, jobs, chunksize=2)
    skipped, skip_detail = {}, {}
    for r in recs:
        if r["skip"]:
            k = ":".join(r["skip"].split(":")[:2])
            skipped[k] = skipped.get(k, 0) + 1
            skip_detail.setdefault(k, r["skip"])
    batch = [r for r in recs if not r["skip"] and r["plans"]]
    if len(batch) < n // 3:
        raise MachineryError("too few problems compiled: %d of %d (%r)" % (len(batch), n, skipped))
    un = judge(ctx, "all", erecs + batch)
    nontrivial = 0
    for rec in erecs:
        nun = sum(1 for (pid, pi) in un if pid == rec["pid"])
        if nun in (0, len(rec["plans"])):
            raise MachineryError("exhaustive tier does not populate both sides of the zone (%d of %d outside)" % (nun, len(rec["plans"])))
        nontrivial += sum(1 for k, pl in enumerate(rec["plans"]) if (rec["pid"], k + 1) not in un and len(pl["fwd"]["ev"]) > len(pl["steps"]))
    ex = next(pl for pl in erecs[0]["plans"] if len(pl["fwd"]["ev"]) > len(pl["steps"]) > 1)
    ctx.sample({"kind": "enumerated plan", "plan": ex})
    feat = {"variable-duration": 0, "param-duration": 0, "repeated-instance": 0, "identical-steps": 0, "end-events": 0,
            "two-instances-of-a-variable-action-interleaved": 0}
    for r in batch:
        for k, pl in enumerate(r["plans"]):
            if (r["pid"], k + 1) in un:
                continue
            for f in features(r["P"], pl["steps"]):
                feat[f] += 1
            inst = [(s["a"], repr(s["args"])) for s in pl["steps"]]
            full = [repr(s) for s in pl["steps"]]
            rep = len(set(inst)) < len(inst)
            feat["repeated-instance"] += rep
            feat["identical-steps"] += len(set(full)) < len(full)
            ends = len(pl["fwd"]["ev"]) > len(pl["steps"])
            feat["end-events"] += ends
            feat["two-instances-of-a-variable-action-interleaved"] += interleaved(r["P"], pl["steps"])
            nontrivial += rep or ends
    ctx.cov["distinct_nontrivial"] = nontrivial
    ctx.cov["problems_judged"] = len(batch)
    ctx.cov["problems_skipped"] = skipped
    ctx.cov["problems_skipped_example"] = skip_detail
    ctx.cov["plans_with_feature"] = feat
    ctx.cov["outside_zone"] = ctx.notes.get("zone", {})
    for k in feat:
        if feat[k] == 0:
            raise MachineryError("vacuous corpus: no judged plan with feature %s" % k)
    ex = next((pl for r in batch for pl in r["plans"] if len(pl["fwd"]["ev"]) > len(pl["steps"]) > 1), batch[0]["plans"][0])
    ctx.sample({"kind": "random plan", "plan": ex})
    ctx.cov["exhaustive"] = True
    ctx.cov["rule"] = (
        "T1/T2: every plan of the scopes %r over the 9 ground actions of the small problem (TLC-enumerated, design theorem checked on "
        "each, each replayed on the real conversions). T3: %d TGen problems in the compiler's supported kind (fixed, parameter-dependent "
        "fixed through an integer parameter or a static fluent, mixed fixed/variable) x up to %d seeded plans (1-%d steps + repetitions of "
        "an instance, rational grid). One evaluation = one plan inside the zone of the property converted forward and back and judged by "
        "PlanConvProcJudge; plans outside the zone (TLA+ Zone) are counted as unspecified. Non-trivial = the plan repeats a ground "
        "instance or its forward plan contains end events." % ([sc for sc, _ in enumerated], n, nplans, 6 if q else 7)
    )
    ctx.assumptions += [
        "TLC, the Json reader and harness/upj.py are trusted",
        "compiled actions are identified by the compiler's naming scheme (<a>_start, <a>_first_end, clone keeps the name); problems where the scheme is ambiguous are outside the zone",
        "plans containing variable-duration actions are judged only when the steps of one ground instance are strictly separated (beyond the literal statement, which speaks of fixed-duration actions; needed to exercise the end-event clause)",
        "problems on which compile() itself raises are skipped and counted (compiler crashes belong to C08)",
    ]
