"""C12 -- NNF and DNF conversions are equivalent and in normal form.

T1  spec/NormalFormsEnum.tla: on every enumerated expression the mechanism layer of
    spec/NormalForms.tla (Nnf.get_nnf_expression / Dnf.walk_* as algorithms, with the repaired
    walk_and) meets the declarative layer (IsNNF, IsDNF, truth-table Equiv); the same check for
    walk_and AS WRITTEN fails, and fails only on inputs with a valid product term.
G1  TLC (NormalFormsEnum) emits the expressions (skeletons over an atom table) and the problem.
T3  Python builds every expression as a real FNode in a real Problem (harness/upj.py), calls
    Nnf(env).get_nnf_expression and Dnf(env).get_dnf_expression, projects the results;
    spec/NormalFormsJudge.tla judges every recorded result (shape and truth table over all
    states of the problem).  Python contains no oracle logic.
"""
import json
import os
from multiprocessing import Pool

from .. import tlc
from ..common import MachineryError, time_limit, ImplTimeout

OPC = {"not": 1, "and": 2, "or": 3, "implies": 4, "iff": 5}
OPN = {v: k for k, v in OPC.items()}
PLACEHOLDER = [0, 1]

ENUM_CFG = """SPECIFICATION Spec
CONSTANTS Fam = "%(fam)s"
 NL = %(nl)d
 Step = %(step)d
 Off = %(off)d
"""
T1_INVS = "INVARIANT DesignNnf\nINVARIANT DesignDnf\nINVARIANT AsWrittenOnlyThere\n"
JUDGE_CFG = "SPECIFICATION Spec\nINVARIANT Verdict\n"


# ----------------------------------------------------------------------------------------
# transport format (structure only): skeleton over an atom table  <->  UPJ expression
# ----------------------------------------------------------------------------------------
def expand(sk, atoms):
    from .. import upj

    if sk[0] == 0:
        return atoms[sk[1] - 1]
    return upj.E(OPN[sk[0]], [expand(x, atoms) for x in sk[1:]])


class AtomTable:
    def __init__(self, atoms):
        self.atoms = list(atoms)
        self.index = {json.dumps(a, sort_keys=True): i + 1 for i, a in enumerate(self.atoms)}

    def intern(self, a):
        k = json.dumps(a, sort_keys=True)
        i = self.index.get(k)
        if i is None:
            self.atoms.append(a)
            i = self.index[k] = len(self.atoms)
        return i

    def compress(self, e):
        c = OPC.get(e["op"])
        if c is None:
            return [0, self.intern(e)]
        return [c] + [self.compress(x) for x in e["args"]]


def remap(sk, m):
    if sk[0] == 0:
        return [0, m.get(sk[1], sk[1])]
    return [sk[0]] + [remap(x, m) for x in sk[1:]]


# ----------------------------------------------------------------------------------------
# binding: build the FNode, call the two conversions, project
# ----------------------------------------------------------------------------------------
_W = {}


def _setup(ctxrec):
    from .. import upj

    if "problem" in _W:
        if _W["atoms"] != ctxrec["atoms"]:
            raise MachineryError("the enumerator changed its context between families")
        return _W["problem"]
    P = dict(ctxrec["P"])
    problem = upj.build(P)
    sc = upj.Scope(
        problem,
        {t.name: t for t in problem.user_types},
        {f.name: f for f in problem.fluents},
        {o.name: o for o in problem.all_objects},
    )
    _W["problem"] = problem
    _W["sc"] = sc
    _W["atoms"] = ctxrec["atoms"]
    return problem


def _convert(tab, which, f):
    """one conversion under a time limit -> [st, exc, out]"""
    from .. import upj
    from unified_planning.model.walkers.dnf import Nnf, Dnf

    env = _W["problem"].environment
    try:
        with time_limit(5):
            if which == "nnf":
                out = Nnf(env).get_nnf_expression(f)
            else:
                out = Dnf(env).get_dnf_expression(f)
            return {"st": "ok", "exc": "", "out": tab.compress(upj.p_expr(out))}
    except ImplTimeout:
        return {"st": "timeout", "exc": "", "out": PLACEHOLDER}
    except Exception as ex:
        return {"st": "exc", "exc": type(ex).__name__, "out": PLACEHOLDER}


def observe_chunk(job):
    """job = (ctxrec, cases) -> (records, atoms beyond the base table)"""
    from .. import upj

    ctxrec, cases = job
    _setup(ctxrec)
    base = len(ctxrec["atoms"])
    tab = AtomTable(ctxrec["atoms"])
    out = []
    for c in cases:
        rec = {"id": c["id"], "fam": c["fam"], "c": c["c"], "e": c["e"], "built": "ok", "ein": PLACEHOLDER}
        f = None
        try:
            with time_limit(5):
                f = upj.b_expr(expand(c["e"], ctxrec["atoms"]), _W["sc"])
                rec["ein"] = tab.compress(upj.p_expr(f))
        except ImplTimeout:
            rec["built"] = "timeout"
        except Exception as ex:
            rec["built"] = type(ex).__name__
        if f is None or rec["built"] != "ok":
            rec["nnf"] = rec["dnf"] = {"st": "exc", "exc": "not-built", "out": PLACEHOLDER}
        else:
            rec["nnf"] = _convert(tab, "nnf", f)
            rec["dnf"] = _convert(tab, "dnf", f)
        out.append(rec)
    return out, tab.atoms[base:]


def observe(ctx, ctxrec, cases, procs):
    """all cases -> (records over one atom table, atom table)"""
    size = 500
    jobs = [(ctxrec, cases[i : i + size]) for i in range(0, len(cases), size)]
    if procs > 1 and len(jobs) > 1:
        with Pool(procs) as pool:
            parts = pool.map(observe_chunk, jobs, chunksize=1)
    else:
        parts = [observe_chunk(j) for j in jobs]
    tab = AtomTable(ctxrec["atoms"])
    base = len(ctxrec["atoms"])
    recs = []
    for rs, extra in parts:
        if extra:
            m = {base + 1 + i: tab.intern(a) for i, a in enumerate(extra)}
            if any(k != v for k, v in m.items()):
                for r in rs:
                    r["ein"] = remap(r["ein"], m)
                    r["nnf"]["out"] = remap(r["nnf"]["out"], m)
                    r["dnf"]["out"] = remap(r["dnf"]["out"], m)
        recs += rs
    return recs, tab.atoms


# ----------------------------------------------------------------------------------------
# TLC runs
# ----------------------------------------------------------------------------------------
def enumerate_family(ctx, label, fam, nl, step=1, off=0, picks=None, t1=True, lemma=False):
    """TLC emits one family (and checks the design layer on it). -> (ctxrec, cases)"""
    d = ctx.sub("enum-" + label)
    out = os.path.join(d, "cases.ndjson")
    cout = os.path.join(d, "ctx.ndjson")
    env = {"OUT": out, "CTXOUT": cout}
    if picks is not None:
        pp = os.path.join(d, "picks.ndjson")
        tlc.write_ndjson(pp, picks)
        env["PICKS"] = pp
    cfg = ENUM_CFG % dict(fam=fam, nl=nl, step=step, off=off) + (T1_INVS if t1 else "") + ("INVARIANT TruthTables\n" if lemma else "")
    res = tlc.run_tlc("NormalFormsEnum", cfg, d, env=env, timeout=3000, coverage=False)
    if res.error:
        raise MachineryError("NormalFormsEnum failed: %s" % res.error)
    em = [p for p in res.printed if p and p[0] == "EMITTED"]
    if not em:
        raise MachineryError("NormalFormsEnum did not report what it emitted")
    count = em[0][1]
    cases = tlc.read_ndjson(out)
    if len(cases) != count or count == 0:
        raise MachineryError("family %s: %d cases read, %d emitted" % (label, len(cases), count))
    ctxrec = tlc.read_ndjson(cout)[0]
    ctx.add_tlc("enum+T1 " + label, res)
    if res.violated:
        ctx.violation(
            "T1|" + res.violated,
            "design level: the mechanism layer of NormalForms violates %s on an enumerated expression" % res.violated,
            {"family": label, "cfg": cfg, "trace": [s["vars"] for s in res.trace]},
        )
    elif (t1 or lemma) and res.distinct != 1 + min(count, 64) + count:
        raise MachineryError("T1 visited %d states for %d cases" % (res.distinct, count))
    for i, c in enumerate(cases):
        c["id"] = "%s:%d" % (label, c["c"])
    ctx.notes.setdefault("families", {})[label] = {"emitted": count, "family_size": em[0][2], "B1": em[0][3], "E2": em[0][4]}
    return ctxrec, cases, em[0]


def as_written(ctx):
    """T1 for walk_and as written in the pinned tree (design-level statement of the known defect)."""
    d = ctx.sub("t1-as-written")
    cfg = ENUM_CFG % dict(fam="d1", nl=4, step=1, off=0) + "INVARIANT AsWritten\n"
    res = tlc.run_tlc(
        "NormalFormsEnum", cfg, d, env={"OUT": os.path.join(d, "c.ndjson"), "CTXOUT": os.path.join(d, "x.ndjson")}, timeout=3000, workers=1
    )
    if res.error:
        raise MachineryError("NormalFormsEnum (as written) failed: %s" % res.error)
    ctx.add_tlc("T1 as-written", res)
    if res.violated:
        m = res.trace[-1]["vars"].get("m") if res.trace else None
        cases = tlc.read_ndjson(os.path.join(d, "c.ndjson"))
        ctx.violation(
            "T1|as-written|" + res.violated,
            "design level: Dnf.walk_and as written (a product term that simplifies to true returns the empty term list) violates %s"
            % res.violated,
            {"case": cases[m - 1] if isinstance(m, int) and 0 < m <= len(cases) else None, "atoms": "a, x<=1, 1<=2, 2<=1, b, o1=o2, true, false"},
        )
    return res


def judge(ctx, label, ctxrec, problem, recs, atoms):
    from .. import upj

    d = ctx.sub("judge-" + label)
    P = upj.project(problem)
    cpath = os.path.join(d, "ctx.ndjson")
    opath = os.path.join(d, "obs.ndjson")
    tlc.write_ndjson(cpath, [{"P": P, "keys": upj.keys_of(P), "atoms": atoms}])
    tlc.write_ndjson(opath, recs)
    res = tlc.run_tlc("NormalFormsJudge", JUDGE_CFG, d, env={"CTX": cpath, "OBS": opath}, timeout=3000)
    if res.error or res.violated:
        raise MachineryError("NormalFormsJudge failed: %s %s" % (res.violated, res.error))
    n = len(recs)
    if res.distinct != 1 + min(n, 64) + n:
        raise MachineryError("judge visited %d states for %d records" % (res.distinct, n))
    cx = [p for p in res.printed if p and p[0] == "CONTEXT"]
    if not cx or cx[0][1] != n:
        raise MachineryError("judge read %r, %d records written" % (cx, n))
    ctx.add_tlc("judge " + label, res)
    ctx.notes.setdefault("states_of_context", cx[0][2])
    byid = {r["id"]: r for r in recs}
    nfeat = 0
    for p in res.printed:
        if not p:
            continue
        if p[0] == "FEATURE":
            nfeat += 1
        elif p[0] == "FAIL":
            _, rid, clause, detail, feat = p
            r = byid[rid]
            if clause.startswith("machinery"):
                raise MachineryError("judge rejected an enumerated case: %r" % (p,))
            sig = "|".join(x for x in (clause, detail, feat) if x)
            data = {
                "clause": clause,
                "detail": detail,
                "feature": feat,
                "case": {"id": rid, "fam": r["fam"], "c": r["c"]},
                "input": expand(r["e"], atoms),
                "input_as_built": expand(r["ein"], atoms) if r["built"] == "ok" else None,
                "nnf": {"st": r["nnf"]["st"], "exc": r["nnf"]["exc"], "out": expand(r["nnf"]["out"], atoms) if r["nnf"]["st"] == "ok" else None},
                "dnf": {"st": r["dnf"]["st"], "exc": r["dnf"]["exc"], "out": expand(r["dnf"]["out"], atoms) if r["dnf"]["st"] == "ok" else None},
                "problem": P,
            }
            ctx.violation(sig, "C12 %s%s on an enumerated expression (%s)" % (clause, (" (" + detail + ")") if detail else "", feat or "-"), data)
    return nfeat


def run_family(ctx, label, procs, **kw):
    ctxrec, cases, em = enumerate_family(ctx, label, **kw)
    problem = _setup(ctxrec)
    recs, atoms = observe(ctx, ctxrec, cases, procs)
    nfeat = judge(ctx, label, ctxrec, problem, recs, atoms)
    ctx.cov["evaluations"] += 2 * len(recs)
    ctx.cov["traces_validated_against_impl"] += len(recs)
    nontriv = sum(1 for r in recs if r["dnf"]["st"] == "ok" and r["dnf"]["out"] != r["ein"]) + sum(
        1 for r in recs if r["nnf"]["st"] == "ok" and r["nnf"]["out"] != r["ein"]
    )
    ctx.cov["distinct_nontrivial"] += nontriv
    ctx.notes["families"][label]["valid_product_term_inputs"] = nfeat
    ctx.notes["families"][label]["atoms_in_table"] = len(atoms)
    if len(recs) > 2:
        r = recs[(2 * len(recs)) // 3]
        ctx.sample({"family": label, "input": expand(r["e"], atoms), "nnf": r["nnf"], "dnf": r["dnf"], "atoms": "indices into the atom table of the batch"})
    return recs


def picks(rng, n, n2):
    """n random (operator, child, child, child) tuples over the virtual sequence E2 (1..n2)."""
    out = []
    for _ in range(n):
        oc = rng.choice([0, 1, 1, 2, 2, 3, 4, 5, 6])
        out.append({"oc": oc, "i": rng.randint(1, n2), "j": rng.randint(1, n2), "k": rng.randint(1, n2)})
    return out


def e2_size(nl):
    n1 = nl + nl + 4 * nl * nl
    return n1 + n1 + 4 * n1 * n1


def run(ctx):
    q = ctx.quick
    procs = 8
    as_written(ctx)
    # every expression of depth <= 1 over all eight leaves, arity <= 3
    run_family(ctx, "d1", 1, fam="d1", nl=8, lemma=True)
    if q:
        # every not / binary operator over B1(5 leaves): depth <= 2
        run_family(ctx, "d2", procs, fam="d2", nl=5)
        # ternary and / or over B1(4 leaves): a regular 1-in-Step slice (offset from the seed)
        step = 149
        run_family(ctx, "d2t", procs, fam="d2t", nl=4, step=step, off=ctx.rng.randrange(step))
        npick, nlp = 6000, 5
    else:
        run_family(ctx, "d2", procs, fam="d2", nl=7)
        step = 23
        run_family(ctx, "d2t", procs, fam="d2t", nl=4, step=step, off=ctx.rng.randrange(step))
        npick, nlp = 60000, 6
    # depth 3, sampled: one operator over children drawn from E2
    run_family(ctx, "d3", procs, fam="pick", nl=nlp, picks=picks(ctx.rng, npick, e2_size(nlp)), t1=q)
    ctx.cov["exhaustive"] = True
    ctx.cov["rule"] = (
        "G1 (NormalFormsEnum): leaves a, x<=1, 1<=2, 2<=1, b, o1=o2, true, false. d1: every expression of depth <= 1 "
        "over all 8 leaves with not/and/or/implies/iff and ternary and/or (1296). d2: every not/binary operator over B1 = "
        "{first %d leaves and every not/binary operator over them} (depth <= 2, exhaustive). d2t: ternary and/or over B1(4 "
        "leaves), every %d-th code. d3: %d seeded random operator applications over children drawn uniformly from E2(%d "
        "leaves) (depth <= 3, sampled). One evaluation = one conversion (NNF or DNF) of one expression, judged by TLC "
        "(shape + truth table over the 12 states of the problem); non-trivial = the result differs from the input."
        % (5 if q else 7, step, npick, nlp)
    )
    ctx.cov["families"] = ctx.notes.get("families")
    ctx.assumptions += [
        "TLC, the CommunityModules Json reader and harness/upj.py b_expr/p_expr (structure only) are trusted",
        "equivalence is decided on the finite declared domains of the fluents (a, b Boolean; x in 0..2): 12 states",
        "d1/d2 are exhaustive within their stated leaf sets; d2t is a regular slice and d3 a seeded sample",
        "a fresh Nnf / Dnf instance is used for every expression (history dependence of walkers is C14's subject)",
    ]
