"""C12 -- NNF and DNF conversions are equivalent and in normal form.

T1  spec/NormalFormsEnum.tla: on every enumerated expression of depth <= 2 the mechanism layer of
    spec/NormalForms.tla (Nnf.get_nnf_expression / Dnf.walk_* as algorithms, with the repaired
    walk_and) meets the declarative layer (IsNNF, IsDNF, equal truth tables); the truth tables
    agree with UPExpr!Eval; the same check for walk_and AS WRITTEN fails, and the as-written and
    repaired mechanisms differ only on inputs with a valid product term.
G1  TLC (NormalFormsEnum) emits the expressions (skeletons over an atom table) and the problem.
T3  Python builds every expression as a real FNode in a real Problem (harness/upj.py), calls
    Nnf(env).get_nnf_expression and Dnf(env).get_dnf_expression, projects the results;
    spec/NormalFormsJudge.tla judges every recorded result (shape and truth table over all
    states of the problem).  Python contains no oracle logic.
"""
import json
import os
from concurrent.futures import ThreadPoolExecutor
from multiprocessing import Pool, Value

from .. import tlc
from ..common import MachineryError, time_limit, ImplTimeout

OPC = {"not": 1, "and": 2, "or": 3, "implies": 4, "iff": 5}
OPN = {v: k for k, v in OPC.items()}
PLACEHOLDER = [0, 1]
LEAVES = "a, x<=1, 1<=2, 2<=1, b, o1=o2, true, false"

ENUM_CFG = """SPECIFICATION Spec
CONSTANTS Fam = "%(fam)s"
 NL = %(nl)d
 Step = %(step)d
 Off = %(off)d
"""
T1_INVS = "INVARIANT DesignNnf\nINVARIANT DesignDnf\nINVARIANT AsWrittenOnlyThere\n"
JUDGE_CFG = "SPECIFICATION Spec\nINVARIANT Verdict\n"


# ----------------------------------------------------------------------------------------
# transport format (structure only): skeleton over an atom table  <->  UPJ expression
# ----------------------------------------------------------------------------------------
def expand(sk, atoms):
    from .. import upj

    if sk[0] == 0:
        return atoms[sk[1] - 1]
    return upj.E(OPN[sk[0]], [expand(x, atoms) for x in sk[1:]])


class AtomTable:
    def __init__(self, atoms):
        self.atoms = list(atoms)
        self.index = {json.dumps(a, sort_keys=True): i + 1 for i, a in enumerate(self.atoms)}

    def intern(self, a):
        k = json.dumps(a, sort_keys=True)
        i = self.index.get(k)
        if i is None:
            self.atoms.append(a)
            i = self.index[k] = len(self.atoms)
        return i

    def compress(self, e):
        c = OPC.get(e["op"])
        if c is None:
            return [0, self.intern(e)]
        return [c] + [self.compress(x) for x in e["args"]]


def remap(sk, m):
    if sk[0] == 0:
        return [0, m.get(sk[1], sk[1])]
    return [sk[0]] + [remap(x, m) for x in sk[1:]]


def show(sk, atoms):
    """human-readable rendering for replay files (not used by any verdict)"""

    def atom(a):
        if a["op"] == "const":
            v = a["v"]
            return str(v.get("b", v.get("n", v.get("o")))).lower()
        if a["op"] in ("fluent", "obj", "param", "var") and not a["args"]:
            return a["name"]
        sym = {"le": "<=", "lt": "<", "eq": "=="}.get(a["op"], a["op"])
        return "(" + (" %s " % sym).join(atom(x) for x in a["args"]) + ")"

    if sk[0] == 0:
        return atom(atoms[sk[1] - 1])
    if sk[0] == 1:
        return "!" + show(sk[1], atoms)
    sym = {2: " & ", 3: " | ", 4: " -> ", 5: " <-> "}[sk[0]]
    return "(" + sym.join(show(x, atoms) for x in sk[1:]) + ")"


# ----------------------------------------------------------------------------------------
# binding: build the FNode, call the two conversions, project
# ----------------------------------------------------------------------------------------
_W = {}
MAX_TIMEOUTS = 6  # confirmed time-outs after which the remaining cases are not run any more


class _Counter:
    value = 0


_TO = _Counter()


def _pool_init(v):
    global _TO
    _TO = v


def _setup(ctxrec):
    from .. import upj

    if "problem" in _W:
        if _W["atoms"] != ctxrec["atoms"]:
            raise MachineryError("the enumerator changed its context between families")
        return _W["problem"]
    problem = upj.build(dict(ctxrec["P"]))
    _W["problem"] = problem
    _W["sc"] = upj.Scope(
        problem,
        {t.name: t for t in problem.user_types},
        {f.name: f for f in problem.fluents},
        {o.name: o for o in problem.all_objects},
    )
    _W["atoms"] = ctxrec["atoms"]
    return problem


def _guard(fn):
    """fn() under harness.common.time_limit -> ("ok", value) | ("timeout", "") | ("exc", class name).

    A first time-out (5 s) is retried once with 30 s, so that a starved machine is not mistaken for a
    non-terminating call; after MAX_TIMEOUTS confirmed time-outs there are no retries any more."""
    for limit in (5, 30):
        try:
            with time_limit(limit):
                return "ok", fn()
        except ImplTimeout:
            if _TO.value >= MAX_TIMEOUTS:
                break
        except Exception as ex:
            return "exc", type(ex).__name__
    _TO.value += 1
    return "timeout", ""


def _convert(tab, which, f):
    """one conversion with a fresh walker instance -> [st, exc, out]"""
    from .. import upj
    from unified_planning.model.walkers.dnf import Nnf, Dnf

    env = _W["problem"].environment

    def call():
        out = Nnf(env).get_nnf_expression(f) if which == "nnf" else Dnf(env).get_dnf_expression(f)
        return tab.compress(upj.p_expr(out))

    st, v = _guard(call)
    if st == "ok":
        return {"st": "ok", "exc": "", "out": v}
    return {"st": st, "exc": v, "out": PLACEHOLDER}


def observe_chunk(job):
    """job = (ctxrec, cases) -> (records, atoms beyond the base table, number of cases not run)"""
    from .. import upj

    ctxrec, cases = job
    _setup(ctxrec)
    base = len(ctxrec["atoms"])
    tab = AtomTable(ctxrec["atoms"])
    out = []
    for n, c in enumerate(cases):
        if _TO.value >= MAX_TIMEOUTS:
            return out, tab.atoms[base:], len(cases) - n
        rec = {"id": c["id"], "fam": c["fam"], "c": c["c"], "e": c["e"], "built": "ok", "ein": PLACEHOLDER}
        st, v = _guard(lambda: upj.b_expr(expand(c["e"], ctxrec["atoms"]), _W["sc"]))
        if st != "ok":
            rec["built"] = st if st == "timeout" else v
            rec["nnf"] = rec["dnf"] = {"st": "exc", "exc": "not-built", "out": PLACEHOLDER}
        else:
            f = v
            rec["ein"] = tab.compress(upj.p_expr(f))
            rec["nnf"] = _convert(tab, "nnf", f)
            rec["dnf"] = _convert(tab, "dnf", f)
        out.append(rec)
    return out, tab.atoms[base:], 0


def observe(ctx, ctxrec, cases, procs):
    """all cases -> (records over one atom table, atom table)"""
    size = 400
    jobs = [(ctxrec, cases[i : i + size]) for i in range(0, len(cases), size)]
    if procs > 1 and len(jobs) > 1:
        shared = Value("i", 0)
        with Pool(procs, initializer=_pool_init, initargs=(shared,)) as pool:
            parts = pool.map(observe_chunk, jobs, chunksize=1)
    else:
        _TO.value = 0
        parts = [observe_chunk(j) for j in jobs]
    tab = AtomTable(ctxrec["atoms"])
    base = len(ctxrec["atoms"])
    recs = []
    notrun = 0
    for rs, extra, nr in parts:
        notrun += nr
        if extra:
            m = {base + 1 + i: tab.intern(a) for i, a in enumerate(extra)}
            if any(k != v for k, v in m.items()):
                for r in rs:
                    r["ein"] = remap(r["ein"], m)
                    r["nnf"]["out"] = remap(r["nnf"]["out"], m)
                    r["dnf"]["out"] = remap(r["dnf"]["out"], m)
        recs += rs
    ctx.cov["cases_not_run_after_timeouts"] = ctx.cov.get("cases_not_run_after_timeouts", 0) + notrun
    return recs, tab.atoms


# ----------------------------------------------------------------------------------------
# TLC runs
# ----------------------------------------------------------------------------------------
def enumerate_family(d, label, fam, nl, step=1, off=0, picks=None, t1=True, lemma=False, workers=4, as_written=False):
    """one TLC run of NormalFormsEnum: emits a family and checks the design layer on it"""
    out = os.path.join(d, "cases.ndjson")
    cout = os.path.join(d, "ctx.ndjson")
    env = {"OUT": out, "CTXOUT": cout}
    if picks is not None:
        pp = os.path.join(d, "picks.ndjson")
        tlc.write_ndjson(pp, picks)
        env["PICKS"] = pp
    cfg = ENUM_CFG % dict(fam=fam, nl=nl, step=step, off=off)
    if as_written:
        cfg += "INVARIANT AsWritten\n"
    else:
        cfg += (T1_INVS if t1 else "") + ("INVARIANT TruthTables\n" if lemma else "")
    res = tlc.run_tlc("NormalFormsEnum", cfg, d, env=env, timeout=3000, workers=workers)
    return {"label": label, "res": res, "out": out, "cout": cout, "cfg": cfg, "checked": t1 or lemma, "as_written": as_written}


def collect(ctx, r):
    """account one enumeration run (main thread, fixed order) -> (ctxrec, cases)"""
    res, label = r["res"], r["label"]
    if res.error:
        raise MachineryError("NormalFormsEnum (%s) failed: %s" % (label, res.error))
    em = [p for p in res.printed if p and p[0] == "EMITTED"]
    if not em:
        raise MachineryError("NormalFormsEnum (%s) did not report what it emitted" % label)
    count = em[0][1]
    cases = tlc.read_ndjson(r["out"])
    if len(cases) != count or count == 0:
        raise MachineryError("family %s: %d cases read, %d emitted" % (label, len(cases), count))
    if em[0][5] != 12:
        raise MachineryError("the context of NormalFormsEnum has %r states, 12 expected" % (em[0][5],))
    ctxrec = tlc.read_ndjson(r["cout"])[0]
    ctx.add_tlc(("T1 as-written " if r["as_written"] else "enum+T1 ") + label, res)
    if r["as_written"]:
        # the as-written mechanism is a model of the pinned tree's walk_and: its design-level
        # counterexample is evidence (root cause of the known defect), not a verdict on the code
        if res.violated != "AsWritten":
            raise MachineryError("the as-written walk_and model is indistinguishable from the repaired one (%r)" % res.violated)
        m = res.trace[-1]["vars"].get("m") if res.trace else None
        case = cases[m - 1] if isinstance(m, int) and 0 < m <= len(cases) else None
        ctx.cov["design_counterexample_walk_and_as_written"] = show(case["e"], ctxrec["atoms"]) if case else "?"
        return ctxrec, []
    if res.violated:
        m = res.trace[-1]["vars"].get("m") if res.trace else None
        case = cases[m - 1] if isinstance(m, int) and 0 < m <= len(cases) else None
        ctx.violation(
            "T1|" + res.violated,
            "design level: the mechanism layer of NormalForms violates %s on an enumerated expression" % res.violated,
            {"family": label, "cfg": r["cfg"], "case": case, "expression": show(case["e"], ctxrec["atoms"]) if case else None},
        )
    elif r["checked"] and res.distinct != 1 + min(count, 64) + count:
        raise MachineryError("T1 visited %d states for %d cases of family %s" % (res.distinct, count, label))
    for c in cases:
        c["id"] = "%s:%d" % (label, c["c"])
    ctx.notes.setdefault("families", {})[label] = {
        "emitted": count,
        "family_size": em[0][2],
        "B1": em[0][3],
        "E2": em[0][4],
        "design_checked": bool(r["checked"]),
    }
    return ctxrec, cases


def violation_data(r, atoms, P):
    ok = lambda x: x["st"] == "ok"
    return {
        "case": {"id": r["id"], "fam": r["fam"], "c": r["c"]},
        "input": show(r["e"], atoms),
        "input_as_built": show(r["ein"], atoms) if r["built"] == "ok" else r["built"],
        "nnf": show(r["nnf"]["out"], atoms) if ok(r["nnf"]) else r["nnf"]["st"] + ":" + r["nnf"]["exc"],
        "dnf": show(r["dnf"]["out"], atoms) if ok(r["dnf"]) else r["dnf"]["st"] + ":" + r["dnf"]["exc"],
        "record": r,
        "atoms": atoms,
        "problem": P,
    }


def judge(ctx, label, problem, recs, atoms, report=True):
    """NormalFormsJudge on the records -> (list of FAIL tuples, number of featured inputs)"""
    from .. import upj

    d = ctx.sub("judge-" + label)
    P = upj.project(problem)
    cpath = os.path.join(d, "ctx.ndjson")
    opath = os.path.join(d, "obs.ndjson")
    tlc.write_ndjson(cpath, [{"P": P, "keys": upj.keys_of(P), "atoms": atoms}])
    tlc.write_ndjson(opath, recs)
    res = tlc.run_tlc("NormalFormsJudge", JUDGE_CFG, d, env={"CTX": cpath, "OBS": opath}, timeout=3000)
    if res.error or res.violated:
        raise MachineryError("NormalFormsJudge failed: %s %s" % (res.violated, res.error))
    n = len(recs)
    if res.distinct != 1 + min(n, 64) + n:
        raise MachineryError("judge visited %d states for %d records" % (res.distinct, n))
    cx = [p for p in res.printed if p and p[0] == "CONTEXT"]
    if not cx or cx[0][1] != n or cx[0][2] != 12:
        raise MachineryError("judge context %r; %d records written, 12 states expected" % (cx, n))
    ctx.add_tlc("judge " + label, res)
    byid = {r["id"]: r for r in recs}
    fails, feat = [], set()
    for p in res.printed:
        if not p:
            continue
        if p[0] == "FEATURE":
            feat.add(p[1])
        elif p[0] == "FAIL":
            _, rid, clause, detail, ft = p
            if clause.startswith("machinery"):
                raise MachineryError("judge rejected an enumerated case: %r" % (p,))
            fails.append(p)
            if report:
                sig = "|".join(x for x in (clause, detail, ft) if x)
                what = "%s%s: %s of an enumerated expression%s" % (
                    clause,
                    " (" + detail + ")" if detail else "",
                    "the DNF" if clause.startswith("dnf") else "the NNF" if clause.startswith("nnf") else "construction",
                    " whose NNF has a conjunction with a product term of valid literals only" if ft == "valid-product-term" else "",
                )
                ctx.violation(sig, what, violation_data(byid[rid], atoms, P))
    return fails, feat


def picks(rng, n, n2):
    """n random (operator, child, child, child) tuples over the virtual sequence E2 (1..n2)."""
    out = []
    for _ in range(n):
        oc = rng.choice([0, 1, 1, 2, 2, 3, 4, 5, 6])
        out.append({"oc": oc, "i": rng.randint(1, n2), "j": rng.randint(1, n2), "k": rng.randint(1, n2)})
    return out


def e2_size(nl):
    n1 = nl + nl + 4 * nl * nl
    return n1 + n1 + 4 * n1 * n1


def plans(ctx):
    """the families of a tier (all random choices are made here, in a fixed order)"""
    if ctx.quick:
        nl2, step, npick, nlp = 4, 251, 3000, 5
    else:
        nl2, step, npick, nlp = 7, 23, 60000, 6
    return [
        dict(label="as-written", fam="d1", nl=4, as_written=True, workers=1),
        # every expression of depth <= 1 over all eight leaves, arity <= 3; TT vs UPExpr!Eval lemma
        dict(label="d1", fam="d1", nl=8, lemma=True, workers=2),
        # every not / binary operator over B1(nl2 leaves): depth <= 2, exhaustive
        dict(label="d2", fam="d2", nl=nl2, workers=12),
        # ternary and / or over B1(4 leaves): a regular 1-in-step slice (offset from the seed)
        dict(label="d2t", fam="d2t", nl=4, step=step, off=ctx.rng.randrange(step), workers=4),
        # depth 3, sampled: one operator over children drawn uniformly from E2(nlp leaves)
        dict(label="d3", fam="pick", nl=nlp, picks=picks(ctx.rng, npick, e2_size(nlp)), t1=False, workers=2),
    ], dict(nl2=nl2, step=step, npick=npick, nlp=nlp)


def run(ctx):
    pl, par = plans(ctx)
    # ---- G1 + T1: the enumerations run side by side (one JVM each) ------------------------
    with ThreadPoolExecutor(len(pl)) as ex:
        futs = [ex.submit(enumerate_family, ctx.sub("enum-" + p["label"]), **p) for p in pl]
        runs = [f.result() for f in futs]
    cases, ctxrec = [], None
    for r in runs:
        cr, cs = collect(ctx, r)
        if ctxrec is not None and cr != ctxrec:
            raise MachineryError("the enumeration runs disagree on the context")
        ctxrec = cr
        cases += cs
    # ---- T3: the real classes, judged by TLC ------------------------------------------------
    problem = _setup(ctxrec)
    recs, atoms = observe(ctx, ctxrec, cases, 8)
    fails, feat = judge(ctx, "all", problem, recs, atoms)
    ctx.cov["evaluations"] += 2 * len(recs)
    ctx.cov["traces_validated_against_impl"] += len(recs)
    ctx.cov["distinct_nontrivial"] += sum(
        1 for r in recs for k in ("nnf", "dnf") if r[k]["st"] == "ok" and r[k]["out"] != r["ein"]
    )
    fam = ctx.notes["families"]
    for lab in fam:
        fam[lab]["valid_product_term_inputs"] = sum(1 for i in feat if i.startswith(lab + ":"))
    ctx.cov["families"] = fam
    ctx.cov["atoms_in_table"] = len(atoms)
    # vacuity: the corner the property statement singles out must have been exercised
    if not feat or ctx.cov["distinct_nontrivial"] < len(recs) // 4:
        raise MachineryError("vacuous run: %d featured inputs, %d non-trivial conversions" % (len(feat), ctx.cov["distinct_nontrivial"]))
    for lab in ("d1", "d2", "d3"):
        rs = [r for r in recs if r["id"].startswith(lab + ":")]
        if rs:
            r = rs[(2 * len(rs)) // 3]
            ok = lambda x: show(x["out"], atoms) if x["st"] == "ok" else x["st"] + ":" + x["exc"]
            ctx.sample({"family": lab, "input": show(r["e"], atoms), "nnf": ok(r["nnf"]), "dnf": ok(r["dnf"])})
    ctx.cov["exhaustive"] = True
    ctx.cov["rule"] = (
        "G1 (NormalFormsEnum): leaves %s. d1: every expression of depth <= 1 over all 8 leaves with "
        "not/and/or/implies/iff and ternary and/or (1296). d2: every not/binary operator over B1 = {first %d leaves and "
        "every not/binary operator over them} (depth <= 2, exhaustive). d2t: ternary and/or over B1(4 leaves), every "
        "%d-th code. d3: %d seeded random operator applications over children drawn uniformly from E2(%d leaves) "
        "(depth <= 3, sampled). One evaluation = one conversion (NNF or DNF) of one expression by the real class, "
        "judged by TLC (shape + truth table over the 12 states of the problem); non-trivial = the result differs "
        "from the input. T1 (design layer) covers d1, d2, d2t." % (LEAVES, par["nl2"], par["step"], par["npick"], par["nlp"])
    )
    ctx.assumptions += [
        "TLC, the CommunityModules Json reader and harness/upj.py b_expr/p_expr (structure only) are trusted",
        "equivalence is decided on the finite declared domains of the fluents (a, b Boolean; x in 0..2): 12 states",
        "d1/d2 are exhaustive within their stated leaf sets; d2t is a regular slice and d3 a seeded sample",
        "a fresh Nnf / Dnf instance is used for every expression (history dependence of walkers is C14's subject)",
    ]


# ----------------------------------------------------------------------------------------
# ./check C12 --replay FILE   and   ./check C12 --selftest
# ----------------------------------------------------------------------------------------
def replay(ctx, doc):
    """re-run the input of a replay file on the current tree and judge it again"""
    data = doc["data"]
    if "record" not in data:
        print("design-level finding (no implementation input): %s" % doc.get("what"))
        return 0
    ctxrec = {"P": data["problem"], "atoms": data["atoms"][:8]}
    r0 = data["record"]
    problem = _setup(ctxrec)
    recs, atoms = observe(ctx, ctxrec, [{"id": r0["id"], "fam": r0["fam"], "c": r0["c"], "e": r0["e"]}], 1)
    fails, _ = judge(ctx, "replay", problem, recs, atoms, report=False)
    r = recs[0]
    print("input: %s" % show(r["e"], atoms))
    for k in ("nnf", "dnf"):
        print("%s  : %s" % (k, show(r[k]["out"], atoms) if r[k]["st"] == "ok" else r[k]["st"] + ":" + r[k]["exc"]))
    for f in fails:
        print("FAIL %s" % "|".join(x for x in f[2:] if x))
    return 1 if fails else 0


def selftest(ctx):
    """the judge rejects corrupted observations (one recorded field changed at a time)"""
    r = enumerate_family(ctx.sub("enum-selftest"), "d1", "d1", 8, t1=False)
    ctxrec, cases = collect(ctx, r)
    problem = _setup(ctxrec)
    recs, atoms = observe(ctx, ctxrec, cases, 1)
    byexp = {json.dumps(r["e"]): r for r in recs}
    AB, AorB = [2, [0, 1], [0, 5]], [3, [0, 1], [0, 5]]  # a & b, a | b
    plan = [
        (AB, "nnf", [1, AB], "nnf-shape"),  # a negation above a compound
        (AB, "nnf", [0, 1], "nnf-equiv"),  # a
        (AorB, "dnf", [2, AorB, [0, 7]], "dnf-shape"),  # a conjunction above a disjunction
        (AorB, "dnf", [0, 1], "dnf-equiv"),  # a
        (AorB, "dnf", [0, 99], "dnf-shape"),  # an atom outside the table
        (AorB, "dnf", None, "dnf-raises"),
        (AB, "ein", AorB, "input-build"),
    ]
    cor = [(json.loads(json.dumps(byexp[json.dumps(e)])), "clean", "") for e in (AB, AorB)]
    for i, (e, field, val, want) in enumerate(plan):
        r = json.loads(json.dumps(byexp[json.dumps(e)]))
        r["id"] = "cor%d" % i
        if field == "ein":
            r["ein"] = val
        elif val is None:
            r[field] = {"st": "exc", "exc": "KeyError", "out": PLACEHOLDER}
        else:
            r[field]["out"] = val
        cor.append((r, want, field))
    fails, _ = judge(ctx, "selftest-corrupt", problem, [c[0] for c in cor], atoms, report=False)
    got = {}
    for f in fails:
        got.setdefault(f[1], []).append(f[2])
    rc = 0
    for r, want, field in cor:
        g = got.get(r["id"], [])
        okk = (g == []) if want == "clean" else (g == [want])
        print("selftest %s (%s): expected %s, judge reported %s -> %s" % (r["id"], field or "unchanged", want, g, "ok" if okk else "WRONG"))
        if not okk:
            rc = 1
    return rc
