"""C23 -- the model only stores type-correct values.

T1  spec/MCModelStore.tla: the call layer of ModelStore (one guarded action per storing call of
    the public API, guard = type-level compatibility) keeps the declarative invariant StoreOK
    (value level: every value a stored expression may take lies in the domain of its target type,
    initial values and defaults are constants) over all call histories within the bound; a
    rejection is justified, a rejected call leaves the model unchanged.
G1  TLC (ModelStoreEnum) enumerates the full cross product
    storing call x target type x value  (ModelStoreMenu!Histories), each wrapped in a short call
    history (a model that already stores something; the case's call; follow-up calls that show a
    rejected call left nothing behind and an accepted default reaches the right fluents).
T2  every history is replayed on fresh objects in a fresh Environment through the public API;
    after every call the driver records accept / exception class and a projection of everything
    the problem, the actions and the action instances store.
T3  ModelStoreTrace replays every recorded history through ModelStore's own actions and judges
    accept = Verdict, reject => unchanged, accepted => exactly the given value stored,
    Problem.initial_values = InitialValues(model), StoreOK of the recorded model.
Python holds no oracle: it builds objects, calls the API and projects objects to JSON.
"""
import copy
import os
from fractions import Fraction

from .. import tlc
from .. import upj
from ..common import MachineryError, time_limit, ImplTimeout

WORKERS = 8
LIMIT = 10  # seconds per library call (only there to stop a looping mutant)

NONE = {"k": "none"}
ENONE = upj.E("none")

INVS = """INVARIANT Stored
INVARIANT %(p)sRejectJustified
INVARIANT %(p)sAcceptSafe
PROPERTY RejectUnchanged
"""
H_CFG = "SPECIFICATION HSpec\nCONSTANTS MaxOps = 0\n MCValNames = {}\n Depth = %(depth)d\nINVARIANT HEnabled\n" + INVS % {"p": "H"}
MC_CFG = "SPECIFICATION MCSpec\nCONSTANTS MaxOps = %(maxops)d\n MCValNames = %(vals)s\n Depth = 1\n" + INVS % {"p": ""}
TRACE_CFG = """SPECIFICATION TraceSpec
INVARIANT Judged
"""

# values of the free-interleaving T1 menu (names understood by MCModelStore!MCVals)
MC_VALS = ["true", "2/1", "9/1", "7/2", "oT", "oT1", "g_int010", "g_T", "p_bool"]


def tla_set(xs):
    return "{" + ", ".join('"%s"' % x for x in xs) + "}"


# ----------------------------------------------------------------------------------------
# projection of the real objects (no judgement here)
# ----------------------------------------------------------------------------------------
def p_type(t):
    """uniform shape of ModelStore's type records"""
    if t.is_bool_type():
        return {"k": "bool", "lo": NONE, "hi": NONE, "name": ""}
    if t.is_int_type() or t.is_real_type():
        return {
            "k": "int" if t.is_int_type() else "real",
            "lo": upj.p_bound(t.lower_bound),
            "hi": upj.p_bound(t.upper_bound),
            "name": "",
        }
    if t.is_user_type():
        return {"k": "user", "lo": NONE, "hi": NONE, "name": t.name}
    return {"k": "other", "lo": NONE, "hi": NONE, "name": type(t).__name__}


def fname(fe):
    if len(fe.args) != 0:
        raise MachineryError("the histories of C23 only use fluents without parameters: %s" % fe)
    return fe.fluent().name


def p_eff(c, eff):
    pe = upj.p_effect(eff)
    if pe["f"]["args"] or pe["forall"] or pe["c"] != upj.E("const", v=upj.BV(True)):
        raise MachineryError("unexpected effect shape %r" % (pe,))
    return {"c": c, "kind": pe["kind"], "f": pe["f"]["name"], "v": pe["v"]}


class World:
    """The declarations of ModelStore!Decl as fresh objects of one fresh Environment, plus whatever
    the calls of a history create."""

    def __init__(self, decl):
        from unified_planning.environment import Environment
        from unified_planning.model import Fluent, Object, InstantaneousAction, DurativeAction
        from collections import OrderedDict

        self.env = Environment()
        self.em = self.env.expression_manager
        tm = self.env.type_manager
        self.types = {}
        parents = {t["name"]: t["parent"] for t in decl["types"]}

        def utype(n):
            if n not in self.types:
                self.types[n] = tm.UserType(n, utype(parents[n]) if parents[n] else None)
            return self.types[n]

        self.utype = utype
        self.objects = {o["name"]: Object(o["name"], utype(o["type"]), self.env) for o in decl["objects"]}
        self.fluents = {f["name"]: Fluent(f["name"], self.type(f["type"]), environment=self.env) for f in decl["fluents"]}
        ps = OrderedDict((p["name"], self.type(p["type"])) for p in decl["params"])
        self.inst = InstantaneousAction("a", ps, self.env)
        self.dur = DurativeAction("d", ps, self.env)
        self.problem = None
        self.instances = []

    def type(self, t):
        if t["k"] == "user":
            return self.utype(t["name"])
        tm = self.env.type_manager
        if t["k"] == "bool":
            return tm.BoolType()
        lo = None if t["lo"]["k"] == "none" else Fraction(t["lo"]["n"], t["lo"]["d"])
        hi = None if t["hi"]["k"] == "none" else Fraction(t["hi"]["n"], t["hi"]["d"])
        if t["k"] == "int":
            return tm.IntType(None if lo is None else int(lo), None if hi is None else int(hi))
        if t["k"] == "real":
            return tm.RealType(lo, hi)
        raise MachineryError("cannot build type %r" % (t,))

    def value(self, e, owner):
        """the Python object handed to the API for a value expression of the menu"""
        op = e["op"]
        if op == "const":
            v = e["v"]
            if v["k"] == "b":
                return bool(v["b"])
            return int(v["n"]) if v["d"] == 1 else Fraction(v["n"], v["d"])
        if op == "obj":
            return self.objects[e["name"]]
        if op == "fluent":
            return self.em.FluentExp(self.fluents[e["name"]])
        if op == "param":
            return (self.dur if owner == "dur" else self.inst).parameter(e["name"])
        raise MachineryError("cannot build value %r" % (e,))

    # ---- one storing call ----
    def call(self, s):
        from unified_planning.model import Problem, InstantaneousAction
        from unified_planning.model.timing import StartTiming, GlobalStartTiming
        from unified_planning.plans import ActionInstance

        op = s["op"]
        if op == "new_problem":
            if s["t"]["k"] == "none":
                self.problem = Problem("p", self.env)
            else:
                self.problem = Problem("p", self.env, initial_defaults={self.type(s["t"]): self.value(s["e"], "")})
        elif op == "add_fluent":
            if s["e"]["op"] == "none":
                self.problem.add_fluent(self.fluents[s["f"]])
            else:
                self.problem.add_fluent(self.fluents[s["f"]], default_initial_value=self.value(s["e"], ""))
        elif op == "set_init":
            self.problem.set_initial_value(self.fluents[s["f"]], self.value(s["e"], ""))
        elif op == "add_effect":
            meth = {"assign": "add_effect", "inc": "add_increase_effect", "dec": "add_decrease_effect"}[s["kind"]]
            f, v = self.fluents[s["f"]], self.value(s["e"], s["c"])
            if s["c"] == "inst":
                getattr(self.inst, meth)(f, v)
            elif s["c"] == "dur":
                getattr(self.dur, meth)(StartTiming(), f, v)
            elif s["c"] == "timed":
                if s["kind"] == "assign":
                    self.problem.add_timed_effect(GlobalStartTiming(5), f, v)
                else:
                    getattr(self.problem, meth)(GlobalStartTiming(5), f, v)
            else:
                raise MachineryError("unknown container %r" % (s,))
        elif op == "instance":
            t = self.type(s["t"])
            a = InstantaneousAction("b", None, self.env, x=t)
            self.instances.append((t, ActionInstance(a, (self.value(s["e"], ""),))))
        else:
            raise MachineryError("unknown call %r" % (s,))

    # ---- everything that is stored, as ModelStore's model record ----
    def project(self):
        p = self.problem
        out = {"has": p is not None, "fluents": [], "tdefaults": [], "init": [], "ivals": [], "ivx": "", "effs": [], "insts": []}
        if p is not None:
            fd = p.fluents_defaults
            for f in p.fluents:
                out["fluents"].append({"name": f.name, "type": p_type(f.type), "default": upj.p_expr(fd[f]) if f in fd else ENONE})
            for t, v in p.initial_defaults.items():
                out["tdefaults"].append({"type": p_type(t), "v": upj.p_expr(v)})
            for fe, v in p.explicit_initial_values.items():
                out["init"].append({"f": fname(fe), "v": upj.p_expr(v)})
            try:
                for fe, v in p.initial_values.items():
                    out["ivals"].append({"f": fname(fe), "v": upj.p_expr(v)})
            except MachineryError:
                raise
            except Exception as ex:
                out["ivals"], out["ivx"] = [], type(ex).__name__
            for t, effs in p.timed_effects.items():
                for e in effs:
                    out["effs"].append(p_eff("timed", e))
        for e in self.inst.effects:
            out["effs"].append(p_eff("inst", e))
        for t, effs in self.dur.effects.items():
            for e in effs:
                out["effs"].append(p_eff("dur", e))
        for t, ai in self.instances:
            ps = ai.actual_parameters
            if len(ps) != 1:
                raise MachineryError("instance with %d parameters" % len(ps))
            out["insts"].append({"t": p_type(t), "v": upj.p_expr(ps[0])})
        return out


def replay_history(ctx, decl, hist, hid):
    """Run one history on the real library; returns the trace record (or None after a time-out)."""
    try:
        with time_limit(LIMIT):
            w = World(decl)
            pre = w.project()
    except ImplTimeout:
        raise MachineryError("building the fixture does not terminate")
    steps = []
    for i, s in enumerate(hist["steps"]):
        ok, exc = True, ""
        try:
            with time_limit(LIMIT):
                w.call(s)
        except ImplTimeout:
            ctx.violation("impl-nonterminating|" + s["op"], "a storing call does not return within %d s" % LIMIT, {"history": hist, "step": i + 1})
            return None
        except MachineryError:
            raise
        except Exception as ex:
            ok, exc = False, type(ex).__name__
        try:
            with time_limit(LIMIT):
                post = w.project()
        except ImplTimeout:
            ctx.violation("impl-nonterminating|project", "reading the model back does not return", {"history": hist, "step": i + 1})
            return None
        steps.append({"s": s, "ok": ok, "exc": exc, "post": post})
        if s["op"] == "new_problem" and not ok:
            break  # no Problem object: the rest of the history cannot be issued
    return {"id": hid, "call": hist["call"], "tt": hist["tt"], "j": hist["j"], "pre": pre, "steps": steps}


def call_label(s):
    return s["op"] + (":%s:%s" % (s["c"], s["kind"]) if s["op"] == "add_effect" else "")


def judge(ctx, label, traces, expect_fail=None, decl=None):
    """TLC judges the traces; FAIL lines become violations (or are returned when expect_fail)."""
    d = ctx.sub("judge-" + label)
    path = os.path.join(d, "traces.ndjson")
    tlc.write_ndjson(path, traces)
    res = tlc.run_tlc("ModelStoreTrace", TRACE_CFG, d, env={"TRACES": path}, workers=WORKERS, timeout=3000)
    if res.error or res.violated:
        raise MachineryError("ModelStoreTrace failed: %s %s" % (res.violated, res.error))
    expected = sum(len(t["steps"]) + 1 for t in traces)
    if res.distinct != expected:
        raise MachineryError("trace judge consumed %d states, expected %d" % (res.distinct, expected))
    byid = {t["id"]: t for t in traces}
    fails, verdicts = [], {}
    for p in res.printed:
        if p and p[0] == "FAIL":
            fails.append(p)
        elif p and p[0] == "V":
            verdicts[p[1]] = p[2]
    if set(verdicts) != set(byid):
        raise MachineryError("judge reported verdicts of %d histories, expected %d" % (len(verdicts), len(byid)))
    if expect_fail is not None:
        return res, fails, verdicts
    ctx.add_tlc("trace-" + label, res)
    ctx.cov["traces_validated_against_impl"] += len(traces)
    for p in sorted(fails, key=lambda x: (x[1], x[3], x[2])):
        _, hid, clause, step, feat = p
        t = byid[hid]
        if clause in ("Enabled", "Base"):
            raise MachineryError("history %d is not well-formed for the specification: %r" % (hid, p))
        st = t["steps"][step - 1]
        ctx.violation(
            "%s|%s|%s" % (clause, call_label(st["s"]), feat),
            "clause %s fails at call %d (%s, target %s, value %s): %s"
            % (clause, step, call_label(st["s"]), t["tt"], describe(st["s"]["e"]), "returned" if st["ok"] else "raised " + st["exc"]),
            {"history": [x["s"] for x in t["steps"]], "step": step, "clause": clause, "feature": feat, "recorded": t["steps"][step - 1], "case": [t["call"], t["tt"], t["j"]], "decl": decl},
        )
    return res, fails, verdicts


def describe(e):
    if e["op"] == "const":
        v = e["v"]
        return str(v["b"]) if v["k"] == "b" else ("%d" % v["n"] if v["d"] == 1 else "%d/%d" % (v["n"], v["d"]))
    return "%s %s" % (e["op"], e["name"])


def enumerate_cases(ctx, depth):
    d = ctx.sub("enum")
    out, outd = os.path.join(d, "hist.ndjson"), os.path.join(d, "decl.ndjson")
    res = tlc.run_tlc("ModelStoreEnum", "INIT EInit\nNEXT ENext\nCONSTANT Depth = %d\n" % depth, d, env={"OUT": out, "OUT_DECL": outd}, workers=1, timeout=3000)
    if res.error:
        raise MachineryError(res.error)
    hist = tlc.read_ndjson(out)
    decl = tlc.read_ndjson(outd)[0]
    em = [p for p in res.printed if p and p[0] == "EMITTED"]
    if not em or em[0][1] != len(hist):
        raise MachineryError("enumerator announced %r histories, file has %d" % (em, len(hist)))
    # deterministic order independent of TLC's set order
    hist.sort(key=lambda h: (h["call"], h["tt"], tlc.json.dumps(h["steps"][h["j"] - 1], sort_keys=True), tlc.json.dumps(h["steps"], sort_keys=True)))
    return decl, hist, res


def run(ctx):
    q = ctx.quick
    # ---- T1: design check -------------------------------------------------------------
    d = ctx.sub("t1")
    depth = 1 if q else 2
    runs = [("T1 histories of the case space", "HNext", H_CFG % {"depth": depth})]
    if not q:
        runs.append(("T1 free interleavings", "MCNext", MC_CFG % {"maxops": 2, "vals": tla_set(MC_VALS)}))
    for label, nxt, cfg in runs:
        res = tlc.run_tlc("MCModelStore", cfg, d, workers=WORKERS, timeout=3000, coverage=True)
        if res.error:
            raise MachineryError(res.error)
        ctx.add_tlc(label, res)
        if res.violated:
            ctx.violation(
                "T1|" + res.violated,
                "the call layer of ModelStore violates %s (design-level counterexample)" % res.violated,
                {"config": cfg, "trace": [s["vars"] for s in res.trace]},
            )
        if res.coverage.get(nxt, (0, 0))[1] == 0:
            raise MachineryError("T1: action %s never taken" % nxt)
    # ---- G1: TLC enumerates the case space --------------------------------------------
    decl, hist, eres = enumerate_cases(ctx, depth)
    ctx.add_tlc("enum", eres)
    # ---- T2: replay on the real library -----------------------------------------------
    traces = []
    for i, h in enumerate(hist):
        t = replay_history(ctx, decl, h, i)
        if t is not None:
            traces.append(t)
    ctx.cov["evaluations"] += sum(len(t["steps"]) for t in traces)
    # ---- T3: TLC judges ---------------------------------------------------------------
    res, fails, verdicts = judge(ctx, "enum", traces, decl=decl)
    # coverage / vacuity: verdict of the case's call of every history, per call
    bycall = {}
    unspec = 0
    nontrivial = 0
    for t in traces:
        vs = verdicts[t["id"]]
        if len(vs) != len(t["steps"]):
            raise MachineryError("verdict list of history %d has the wrong length" % t["id"])
        unspec += sum(1 for v in vs if v == "unspec")
        if t["j"] <= len(vs):
            v = vs[t["j"] - 1]
            bycall.setdefault(t["call"], set()).add(v)
            if v != "yes":
                nontrivial += 1
    for c, s in sorted(bycall.items()):
        if not {"yes", "no"} <= s:
            raise MachineryError("vacuous case space: call %s never reaches verdicts %r" % (c, sorted({"yes", "no"} - s)))
    if len(bycall) != 13:
        raise MachineryError("expected 13 storing calls in the case space, got %r" % sorted(bycall))
    ctx.cov["unspecified"] = unspec
    ctx.cov["distinct_nontrivial"] = nontrivial
    ctx.cov["exhaustive"] = True
    mid = traces[len(traces) // 2]
    ctx.sample({"kind": "recorded history", "case": [mid["call"], mid["tt"]], "steps": [{"s": x["s"], "ok": x["ok"], "exc": x["exc"]} for x in mid["steps"]]})
    excs = {}
    for t in traces:
        for x in t["steps"]:
            if not x["ok"]:
                excs[x["exc"]] = excs.get(x["exc"], 0) + 1
    ctx.notes["exception_classes"] = excs
    ctx.cov["exception_classes"] = excs
    # ---- binding self-test: a corrupted record must be rejected by the judge -----------
    selfcheck(ctx, traces, verdicts)
    ctx.cov["rule"] = (
        "T1: ModelStore's call layer run by TLC over every history of the case space (both branches where unspecified)%s "
        "against StoreOK / RejectJustified / AcceptSafe / RejectUnchanged. G1: TLC emits the full cross "
        "product 13 storing calls x 7 target types {bool, int[0,3], real, real[0,5], T, T1 < T, U} x 24 values {true, 2, 5, "
        "7/2, 9, objects of T / T1 / U, a fluent expression of each of 8 types, an action parameter of each of 8 types} = %d "
        "histories of 2-6 calls, each replayed on fresh objects and judged call by call by ModelStoreTrace. A history counts "
        "as non-trivial when the verdict of its case's call is not plain 'yes'."
        % ("" if q else " and over all interleavings of <= 2 calls drawn from 7 target types x %d values x all storing calls" % len(MC_VALS), len(hist))
    )
    ctx.assumptions += [
        "TLC and the CommunityModules Json reader are trusted",
        "unspecified (not judged): effect values whose numeric bounds are not contained in the fluent's bounds; non-constant "
        "ActionInstance parameters of a compatible type; action parameters as values of Problem timed effects; effects on a "
        "fluent the container already writes (C24)",
        "any exception class counts as 'rejected with an error'",
        "fluents without parameters, unconditional effects, StartTiming / GlobalStartTiming+5 only",
    ]


def selfcheck(ctx, traces, verdicts):
    """Corrupt single fields of recorded observations; the judge must flag each (else the binding is vacuous)."""
    rng = ctx.rng
    cands = [t for t in traces if all(x["ok"] for x in t["steps"]) and len(t["steps"]) >= 2 and all(v == "yes" for v in verdicts[t["id"]])]
    rej = [t for t in traces if t["j"] <= len(t["steps"]) and not t["steps"][t["j"] - 1]["ok"] and verdicts[t["id"]][t["j"] - 1] == "no" and t["j"] > 1]
    if not cands or not rej:
        raise MachineryError("self-check: no suitable history to corrupt")
    mut = []
    # (a) an accepted compatible call reported as rejected -> Accept (+ Unchanged)
    t = copy.deepcopy(rng.choice(cands))
    t["steps"][t["j"] - 1]["ok"] = False
    t["steps"][t["j"] - 1]["exc"] = "UPTypeError"
    mut.append(("Accept", t))
    # (b) a rejected incompatible call reported as accepted -> Reject
    t = copy.deepcopy(rng.choice(rej))
    t["steps"][t["j"] - 1]["ok"] = True
    mut.append(("Reject", t))
    # (c) a rejected call that left something behind -> Unchanged
    t = copy.deepcopy(rng.choice(rej))
    st = t["steps"][t["j"] - 1]
    st["post"]["insts"] = st["post"]["insts"] + [{"t": p_type_bool(), "v": upj.E("const", v=upj.BV(True))}]
    mut.append(("Unchanged", t))
    # (d) an accepted call that stored a different (non-constant) value -> Stored, StoreInv
    t = copy.deepcopy(rng.choice([c for c in cands if c["call"] in ("set_init", "add_fluent")]))
    st = t["steps"][t["j"] - 1]
    if t["call"] == "set_init":
        st["post"]["init"][-1]["v"] = upj.E("fluent", name="g_bool")
    else:
        st["post"]["fluents"][-1]["default"] = upj.E("fluent", name="g_bool")
    mut.append(("Stored", t))
    mut.append(("StoreInv", copy.deepcopy(t)))
    # (e) the public initial_values view loses an entry -> InitialValues
    t = copy.deepcopy(rng.choice([c for c in cands if c["call"] == "set_init"]))
    st = t["steps"][t["j"] - 1]
    st["post"]["ivals"] = st["post"]["ivals"][:-1]
    mut.append(("InitialValues", t))
    for i, (_, t) in enumerate(mut):
        t["id"] = i
    _, fails, _ = judge(ctx, "selfcheck", [t for _, t in mut], expect_fail=True)
    for i, (clause, t) in enumerate(mut):
        if not any(p[1] == i and p[2] == clause for p in fails):
            raise MachineryError("self-check: corruption %d (%s) was not flagged by the judge: %r" % (i, clause, [p for p in fails if p[1] == i]))
    ctx.cov["selfcheck_corruptions_flagged"] = len(mut)


def p_type_bool():
    return {"k": "bool", "lo": NONE, "hi": NONE, "name": ""}


def selftest(ctx):
    """./check C23 --selftest : binding demonstration on a fresh recording (corrupted records must be flagged)."""
    decl, hist, _ = enumerate_cases(ctx, 1)
    traces = [t for t in (replay_history(ctx, decl, h, i) for i, h in enumerate(hist)) if t is not None]
    _, _, verdicts = judge(ctx, "selftest", traces, expect_fail=True)
    selfcheck(ctx, traces, verdicts)
    print("selftest: %d corrupted records, all flagged by ModelStoreTrace" % ctx.cov["selfcheck_corruptions_flagged"])
    return 0


def replay(ctx, data):
    """./check C23 --replay FILE : re-run one reported history on the current tree and judge it again."""
    d = data["data"]
    if "history" not in d:
        print("this replay file holds a design-level (T1) counterexample; see its 'trace'")
        return 0
    decl = d.get("decl")
    if decl is None:
        decl, _, _ = enumerate_cases(ctx, 1)
    call, tt, j = d["case"]
    t = replay_history(ctx, decl, {"call": call, "tt": tt, "j": j, "steps": d["history"]}, 0)
    if t is None:
        print("the history does not terminate")
        return 1
    for x in t["steps"]:
        print(call_label(x["s"]), x["s"]["f"], describe(x["s"]["e"]), "->", "returned" if x["ok"] else "raised " + x["exc"])
    _, fails, verdicts = judge(ctx, "replay", [t], expect_fail=True)
    print("specification verdicts:", verdicts[0])
    print("judge:", [p[2:] for p in fails] or "conforms")
    return 1 if fails else 0
